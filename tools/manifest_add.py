#!/usr/bin/env python3
"""tools/manifest_add.py <ID> <json-file-with-check-fields>: add/replace a check in MANIFEST.json and drop the id from not_applicable."""
import json, sys
pid, f = sys.argv[1], sys.argv[2]
m = json.load(open('/verif/MANIFEST.json'))
c = json.load(open(f))
c.setdefault("property_id", pid)
c.setdefault("quick_cmd", "./check %s quick" % pid)
c.setdefault("thorough_cmd", "./check %s thorough" % pid)
c.setdefault("evidence_file", "evidence/%s.json" % pid)
c.setdefault("replay_cmd_template", "./check replay {path}")
m["checks"] = [x for x in m["checks"] if x["property_id"] != pid] + [c]
m["checks"].sort(key=lambda x: x["property_id"])
m["not_applicable"] = [x for x in m.get("not_applicable", []) if x["property_id"] != pid]
for e in m.get("engines", []):
    if e["name"] in c.get("engine", "") and pid not in e["serves_properties"]:
        e["serves_properties"].append(pid)
json.dump(m, open('/verif/MANIFEST.json', 'w'), indent=1)
print("ok", pid, [x["property_id"] for x in m["checks"]])
