#!/bin/bash
# tools/sedmut.sh <check id> <file relative to repo> <sed expression>: one-line mutation in a scratch worktree of /repo
# (never /repo itself), run ./check <id> quick against it, remove the worktree. For sanity-testing new checks.
ID=$1; F=$2; EXPR=$3
W=$(mktemp -d /tmp/sm_XXXXXX); rmdir $W
git -C /repo worktree add -q --detach $W HEAD || exit 3
sed -i "$EXPR" $W/$F
if git -C $W diff --quiet; then echo "sed changed nothing"; git -C /repo worktree remove --force $W; exit 3; fi
(cd $W && GOFLAGS=-mod=mod GOPROXY=off go build ./... ) || { echo "mutant does not build"; git -C /repo worktree remove --force $W; exit 3; }
cd /verif && VERIF_REPO=$W ./check $ID ${TIER:-quick} > /tmp/sedmut.out 2>&1; rc=$?
git -C /repo worktree remove --force $W

grep -E '^(VIOLATION|INCONCLUSIVE|MODEL-DRIFT)' -A1 /tmp/sedmut.out | cut -c1-260 | head -6
echo "exit=$rc"
