#!/bin/sh
# tools/seedsweep.sh <tier> <seed>...: every check on the unchanged tree with several seeds; prints one line per run
TIER=$1; shift
for s in "$@"; do
  for p in C01 C02 C03 C04 C05 C06 C07 C08 C09 C10 C11 C12 C13 C14 C15 C16 C17 C18 C19 C20; do
    VERIF_SEED=$s ./check $p $TIER > /tmp/sweep_$p.out 2>&1; rc=$?
    echo "seed=$s $p exit=$rc $(tail -1 /tmp/sweep_$p.out | cut -c1-160)"
    [ $rc -ne 0 ] && grep -E '^(VIOLATION|INCONCLUSIVE|MODEL-DRIFT)' /tmp/sweep_$p.out | head -3 | cut -c1-300
  done
done
exit 0
