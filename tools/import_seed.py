#!/usr/bin/env python3
"""tools/import_seed.py <incoming dir> <name>: store a confirmed seeded change under /verif/seeded/<name>/."""
import json, os, shutil, sys, re
src, name = sys.argv[1], sys.argv[2]
dst = os.path.join('/verif/seeded', name)
os.makedirs(dst, exist_ok=True)
for f in os.listdir(src):
    if f in ('patch.diff', 'demo_test.go', 'README.md') or f == 'demo':
        p = os.path.join(src, f)
        if os.path.isdir(p):
            shutil.copytree(p, os.path.join(dst, f), dirs_exist_ok=True)
        else:
            # a _test.go file under /verif would be picked up by nothing, but keep the name distinct anyway
            shutil.copy(p, os.path.join(dst, f.replace('demo_test.go', 'demo_test.go.txt')))
readme = open(os.path.join(src, 'README.md')).read() if os.path.exists(os.path.join(src, 'README.md')) else ''
meta = {"name": name, "property": name.split('_')[0], "origin": "independent sub-agent given only the property text and a scratch worktree",
        "needs_to_manifest": readme[:1500],
        "confirmed_by": "tools/verify_seed.sh in a scratch worktree of /repo: go build ok; full existing suite passes with the patch; demo fails with the patch and passes without it",
        "detected_by": {}}
mp = os.path.join(dst, 'meta.json')
if os.path.exists(mp):
    old = json.load(open(mp)); meta["detected_by"] = old.get("detected_by", {})
json.dump(meta, open(mp, 'w'), indent=1)
print("imported", name)
