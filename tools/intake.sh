#!/bin/bash
# tools/intake.sh <property id> <mk>...: confirm a sub-agent's seeded change in a scratch worktree, import it, run the matrix
ID=$1; shift
for k in "$@"; do
  n=${ID}_$k
  src=/tmp/incoming/$n; rm -rf $src; mkdir -p $src
  cp -r /tmp/wt/$ID/_out/$k/* $src/ 2>/dev/null || { echo "$n: no output"; continue; }
  RACE=""; grep -q 'go:build race\|+build race' $src/demo_test.go 2>/dev/null && RACE=1
  if [ -n "$RACE" ]; then echo "$n: demo needs -race: confirm by hand"; continue; fi
  res=$(/verif/tools/verify_seed.sh $src $n 2>&1 | grep RESULT)
  echo "$res"
  case "$res" in *CONFIRMED*) /verif/tools/import_seed.py $src $n >/dev/null; /verif/tools/matrix.sh $ID $n;; esac
done
