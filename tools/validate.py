#!/usr/bin/env python3
"""Validate MANIFEST.json and every evidence file against the schemas (run with python3-vt)."""
import json, glob, sys, jsonschema
ok = True
def v(f, s):
    global ok
    try:
        jsonschema.validate(json.load(open(f)), json.load(open(s)))
        print("ok ", f)
    except Exception as e:
        ok = False
        print("BAD", f, str(e)[:300])
v('/verif/MANIFEST.json', '/root/.vp/MANIFEST.schema.json')
for f in sorted(glob.glob('/verif/evidence/*.json')):
    v(f, '/root/.vp/EVIDENCE.schema.json')
sys.exit(0 if ok else 1)
