#!/bin/sh
# tools/thorough_all.sh [ids...]: every thorough tier on the unchanged tree, one line per property
IDS=${@:-C17 C20 C08 C09 C18 C07 C15 C14 C13 C19 C12 C10 C01 C11 C05 C06 C04 C16 C03 C02}
for p in $IDS; do
  t0=$(date +%s)
  ./check $p thorough > /tmp/thorough_$p.out 2>&1; rc=$?
  echo "$p exit=$rc $(( $(date +%s) - t0 ))s $(tail -1 /tmp/thorough_$p.out | cut -c1-160)"
  [ $rc -ne 0 ] && grep -E '^(VIOLATION|INCONCLUSIVE|MODEL-DRIFT)' -A1 /tmp/thorough_$p.out | head -6 | cut -c1-300
done
exit 0
