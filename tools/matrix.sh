#!/bin/bash
# tools/matrix.sh <property id> [names...]: run ./check <id> quick against each seeded change of that property; record the outcome in meta.json
ID=$1; shift
NAMES=${@:-$(ls /verif/seeded | grep "^${ID}_\|-${ID}-")}
for n in $NAMES; do
  P=/verif/seeded/$n/patch.diff
  cd /repo && git diff --quiet || { echo "/repo not clean"; exit 3; }
  git -C /repo apply $P || { echo "$n: patch does not apply"; continue; }
  cd /verif && ./check $ID quick > /tmp/matrix_$n.out 2>&1; rc=$?
  git -C /repo checkout -- .
  v=$(grep -c '^VIOLATION' /tmp/matrix_$n.out)
  echo "$n: exit=$rc violations=$v $(grep -m1 -A1 '^VIOLATION' /tmp/matrix_$n.out | tail -1 | cut -c1-160)"
  python3 - "$n" "$ID" "$rc" <<'PY'
import json,sys
n,pid,rc=sys.argv[1:4]
p='/verif/seeded/%s/meta.json'%n
m=json.load(open(p)); m.setdefault("detected_by",{})[pid+" quick"]={"exit":int(rc),"detected":rc=="1"}
json.dump(m,open(p,'w'),indent=1)
PY
done
