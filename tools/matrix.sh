#!/bin/bash
# tools/matrix.sh <property id> [names...]: run ./check <id> quick against each seeded change of that property and record
# the outcome in meta.json. The patch is applied to a scratch worktree of /repo (VERIF_REPO points the check at it), so
# /repo itself is never modified and checks running elsewhere are not disturbed.
ID=$1; shift
TIER=${TIER:-quick}
NAMES=${@:-$(ls /verif/seeded | grep "^${ID}_\|-${ID}-")}
for n in $NAMES; do
  P=/verif/seeded/$n/patch.diff
  W=$(mktemp -d /tmp/mx_XXXXXX); rmdir $W
  git -C /repo worktree add -q --detach $W HEAD || { echo "$n: cannot create worktree"; continue; }
  if ! git -C $W apply $P; then echo "$n: patch does not apply"; git -C /repo worktree remove --force $W; continue; fi
  cd /verif && VERIF_REPO=$W ./check $ID $TIER > /tmp/matrix_$n.out 2>&1; rc=$?
  git -C /repo worktree remove --force $W

  v=$(grep -c '^VIOLATION' /tmp/matrix_$n.out)
  echo "$n: exit=$rc violations=$v $(grep -m1 -A1 '^VIOLATION' /tmp/matrix_$n.out | tail -1 | cut -c1-160)"
  python3 - "$n" "$ID" "$rc" "$TIER" <<'PY'
import json,sys
n,pid,rc,tier=sys.argv[1:5]
p='/verif/seeded/%s/meta.json'%n
m=json.load(open(p)); m.setdefault("detected_by",{})[pid+" "+tier]={"exit":int(rc),"detected":rc=="1"}
json.dump(m,open(p,'w'),indent=1)
PY
done
