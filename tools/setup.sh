#!/bin/sh
# Run once after a fresh restore (offline). Nothing is downloaded: verifies the tools the
# checks need and warms the Go build cache by compiling the harness against /repo.
set -e
export GOFLAGS=-mod=mod GOPROXY=off GOSUMDB=off GOTOOLCHAIN=local
for t in tlc java go rsync python3 apalache-mc; do command -v $t >/dev/null || { echo "missing tool: $t"; exit 1; }; done
S=$(mktemp -d /tmp/verif_setup_XXXXXX); trap 'rm -rf "$S"' EXIT
rsync -a --exclude .git /repo/ "$S/golib/"; rsync -a /verif/harness/ "$S/harness/"
rsync -a /verif/harness/shim/ "$S/golib/verifshim/"
# the same import rewriting the concurrent checks apply to their scratch copies
M=github.com/welllog/golib/verifshim
sed -i -e "s|\"sync/atomic\"|\"$M/atomic\"|" -e "s|^\([[:space:]]*\)\"runtime\"$|\1\"$M/runtime\"|" "$S/golib/ringz/sync.go" "$S/golib/listz/sync_list.go" "$S/golib/mapz/safekv.go" 2>/dev/null || true
sed -i -e "s|^\([[:space:]]*\)\"sync\"$|\1\"$M/sync\"|" -e "s|^import \"sync\"$|import \"$M/sync\"|" "$S/golib/mapz/safekv.go" 2>/dev/null || true
for d in /verif/harness/overlay/*/; do p=$(basename "$d"); [ -d "$S/golib/$p" ] && cp "$d"*.go "$S/golib/$p/"; done
(cd "$S/harness" && go build -o "$S/bin/" ./cmd/... ) || echo "warning: harness does not build against the current tree (checks fall back to black-box builds)"
mkdir -p /verif/evidence
echo setup ok
