#!/bin/bash
# usage: tools/verify_seed.sh <src dir with patch.diff + demo_test.go|demo/> <name>
# Confirms in a scratch worktree: builds, full existing suite passes with the patch, demo fails with it and passes without.
SRC=$1; NAME=$2
export GOFLAGS=-mod=mod GOPROXY=off GOSUMDB=off GOTOOLCHAIN=local
W=/tmp/vs/$NAME; mkdir -p /tmp/vs; rm -rf $W
git -C /repo worktree add -q --detach $W HEAD || exit 3
cleanup() { git -C /repo worktree remove --force $W 2>/dev/null; rm -rf $W; }
trap cleanup EXIT
cd $W
res() { echo "RESULT $NAME $*"; }
git apply $SRC/patch.diff || { res apply-failed; exit 1; }
go build ./... || { res build-failed; exit 1; }
go test -vet=off -count=1 -timeout 25m ./... > $W/../$NAME.suite.log 2>&1 || { res suite-fails-with-patch; grep -E '^(FAIL|---)' $W/../$NAME.suite.log | head -5; exit 1; }
if [ -f $SRC/demo_test.go ]; then
  PKG=$(grep -m1 '^package ' $SRC/demo_test.go | awk '{print $2}' | sed 's/_test$//')
  cp $SRC/demo_test.go $W/$PKG/zz_demo_test.go
  RUN="go test -vet=off -count=1 -timeout 20m -run Demo ./$PKG/"
  grep -q 'func Test[A-Za-z_]*Demo\|func TestDemo' $SRC/demo_test.go || RUN="go test -vet=off -count=1 -timeout 20m ./$PKG/"
else
  mkdir -p $W/zzdemo && cp -r $SRC/demo/* $W/zzdemo/ && RUN="go run ./zzdemo"
fi
$RUN > $W/../$NAME.demo_with.log 2>&1; with=$?
git apply -R $SRC/patch.diff
$RUN > $W/../$NAME.demo_without.log 2>&1; without=$?
if [ $with -ne 0 ] && [ $without -eq 0 ]; then res CONFIRMED; else res "demo with=$with without=$without"; fi
