#!/bin/sh
# usage: tools/try_mutant.sh <patch.diff> <property id> [tier]   -- applies the patch to /repo, runs the check, always reverts
P=$1; ID=$2; TIER=${3:-quick}
cd /repo && git diff --quiet || { echo "/repo not clean"; exit 3; }
git -C /repo apply "$P" || exit 3
cd /verif && ./check $ID $TIER > /tmp/try_mutant.out 2>&1; rc=$?
git -C /repo checkout -- . 
grep -E '^(VIOLATION|INCONCLUSIVE|MODEL-DRIFT|KNOWN)' /tmp/try_mutant.out | cut -c1-300 | head -8
tail -1 /tmp/try_mutant.out | cut -c1-300
echo "exit=$rc"
