#!/usr/bin/env python3
"""tools/sizes.py: markdown table of what the committed evidence files (quick tier) record."""
import json, glob, os
rows = []
for f in sorted(glob.glob('/verif/evidence/C*.json')) + sorted(glob.glob('/verif/evidence/extras/X*.json')):
    e = json.load(open(f))
    c = e['coverage']
    eng = ", ".join(sorted({x.get('engine', '?').split(' (')[0] for x in c.get('engines', [])}))
    tlc = len(c.get('tlc_runs', []))
    rows.append("| %s | %s | %d | %d | %d | %d | %.0f s | %s |" % (e['property_id'], e['tier'], c.get('states', 0), c.get('transitions', 0),
                c.get('traces_validated_against_impl', 0), tlc, e['wall_s'], eng))
print("| id | tier | TLC states / cases | transitions | traces, histories or cases run on the real code | TLC / Apalache runs | wall | engines |")
print("|---|---|---|---|---|---|---|---|")
print("\n".join(rows))
