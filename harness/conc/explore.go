package conc

import (
	"encoding/json"
	"flag"
	"fmt"
	"math/rand"
	"os"
	"time"

	"verifharness/core"
)

// Sched is one scheduling decision: thread (1-based) and number of grants.
type Sched struct {
	T int `json:"t"`
	N int `json:"n"`
}

// runSchedule executes a schedule on a fresh object, probing after every decision; ends with a
// probe-drain. Returns false when a step failed (panic / hang): the history carries the event.
func (a *Adapter) runSchedule(init json.RawMessage, sch []Sched) bool {
	if err := a.Reset(init); err != nil {
		panic(err)
	}
	for _, s := range sch {
		if a.run.Done(s.T-1) || !a.enabled(s.T-1) {
			continue
		}
		if _, err := a.StepN(s.T-1, s.N); err != nil {
			a.flushHist()
			return false
		}
		p := a.obj.Probe()
		p["ev"] = "probe"
		a.hist = append(a.hist, p)
	}
	return true
}

func (a *Adapter) enabled(t int) bool {
	for _, e := range a.run.Enabled() {
		if e == t {
			return true
		}
	}
	return false
}

// ExploreFrom enumerates continuations of a schedule prefix breadth-first by length (every
// continuation of length k before any of length k+1), each ending in a probe-drain, until the
// budget of executions is used. Fairness: a goroutine parked at a yield is not granted while
// another goroutine that is not at a yield exists.
func (a *Adapter) ExploreFrom(init json.RawMessage, prefix []Sched, budget int, maxLen int) (execs int) {
	type item struct{ cont []int }
	queue := []item{{nil}}
	for len(queue) > 0 && execs < budget {
		it := queue[0]
		queue = queue[1:]
		sch := append([]Sched{}, prefix...)
		for _, t := range it.cont {
			sch = append(sch, Sched{t, 1})
		}
		ok := a.runSchedule(init, sch)
		execs++
		if !ok {
			if core.Hung {
				return
			}
			continue
		}
		// successors before the destructive probe
		var next []int
		if len(it.cont) < maxLen {
			en := a.run.Enabled()
			var pref []int
			for _, t := range en {
				if a.run.Kind(t) != "yield" {
					pref = append(pref, t)
				}
			}
			if len(pref) == 0 {
				pref = en
			}
			next = pref
		}
		a.Drain()
		for _, t := range next {
			c := append(append([]int{}, it.cont...), t+1)
			queue = append(queue, item{c})
		}
	}
	return
}

// Sample runs n seeded random schedules of the program given by init. Each run probes after every
// step; with probability 1/2 it stops at a random step for a mid-flight probe-drain, then all
// goroutines are run to completion (fairly) and a final probe-drain is taken.
func (a *Adapter) Sample(init json.RawMessage, rng *rand.Rand, maxSteps int) (steps int, ok bool) {
	if err := a.Reset(init); err != nil {
		panic(err)
	}
	stopAt := -1
	var flags struct {
		Blocking bool `json:"blocking"`
	}
	json.Unmarshal(init, &flags)
	// (an observer that pops in mid-flight would take values a blocking PopWait is waiting for)
	if rng.Intn(2) == 0 && !flags.Blocking {
		stopAt = rng.Intn(40)
	}
	// PCT-flavoured: random priorities, changed at a few random points
	n := a.run.NThreads()
	prio := rng.Perm(n)
	change := map[int]bool{rng.Intn(60): true, rng.Intn(60): true}
	// adversarial stall: one goroutine is frozen for a long stretch while the others keep running, even if all they
	// do is spin (safety must hold under unfair prefixes too; fairness is only assumed for termination). The stall
	// starts either at a random step or right after the goroutine won a CAS (the classic "claimed but not yet
	// published" window); at the end of the stall the observer takes a probe-drain.
	frozen, freezeFrom, freezeTo := -1, 0, 0
	afterCAS := rng.Intn(2) == 0
	if !afterCAS && rng.Intn(3) == 0 {
		frozen, freezeFrom = rng.Intn(n), rng.Intn(25)
		freezeTo = freezeFrom + 30 + rng.Intn(70)
	}
	for steps = 0; !a.run.AllDone() && steps < maxSteps; steps++ {
		if change[steps] {
			prio = rng.Perm(n)
		}
		en := a.run.Enabled()
		if len(en) == 0 {
			a.hist = append(a.hist, map[string]interface{}{"ev": "deadlock"})
			a.flushHist()
			a.run.Abort()
			a.run = nil
			return steps, false
		}
		var pref []int
		inFreeze := frozen >= 0 && steps >= freezeFrom && steps < freezeTo
		for _, t := range en {
			if inFreeze {
				if t != frozen {
					pref = append(pref, t)
				}
			} else if a.run.Kind(t) != "yield" {
				pref = append(pref, t)
			}
		}
		if len(pref) == 0 {
			pref = en
		}
		t := pref[0]
		if rng.Intn(4) == 0 {
			t = pref[rng.Intn(len(pref))]
		} else {
			for _, c := range pref {
				if prio[c] > prio[t] {
					t = c
				}
			}
		}
		ops, err := a.StepN(t, 1)
		if err != nil {
			a.flushHist()
			return steps, false
		}
		if afterCAS && frozen < 0 && rng.Intn(2) == 0 {
			for _, o := range ops {
				if d, ok := o.([]interface{}); ok && len(d) >= 3 && d[0] == "CAS" && d[len(d)-1] == true {
					frozen, freezeFrom, freezeTo = t, steps+1, steps+1+40+rng.Intn(80)
					if !flags.Blocking {
						stopAt = freezeTo - 1 - rng.Intn(4)
					}
				}
			}
		}
		p := a.obj.Probe()
		p["ev"] = "probe"
		a.hist = append(a.hist, p)
		if steps == stopAt {
			d := a.obj.ProbeDrain()
			d["ev"] = "probedrain"
			a.hist = append(a.hist, d)
		}
	}
	if !a.run.AllDone() {
		a.hist = append(a.hist, map[string]interface{}{"ev": "nonterm", "steps": steps})
		a.flushHist()
		a.run.Abort()
		a.run = nil
		return steps, false
	}
	a.Drain()
	return steps, true
}

// InitGen produces initial states (including the per-goroutine programs) for sampling.
type InitGen func(rng *rand.Rand) json.RawMessage

// Main is the command line of a concurrent component:
//
//	walk / replay        as core.Main (model -> code over TLC edges), histories go to -hist
//	sample  -out DIR -n N          random schedules -> DIR/sample_hist.ndjson
//	explore -file suspect.json -out DIR -budget N   continuations of a divergent prefix
func Main(component string, f Factory, gen InitGen) {
	if len(os.Args) < 2 {
		fmt.Fprintln(os.Stderr, "usage: walk|replay|sample|explore ...")
		os.Exit(2)
	}
	cmd := os.Args[1]
	switch cmd {
	case "walk", "replay":
		out := "."
		for i, x := range os.Args {
			if x == "-out" && i+1 < len(os.Args) {
				out = os.Args[i+1]
			}
		}
		hw, hf, err := OpenHist(out + "/" + cmd + "_hist.ndjson")
		if err != nil {
			fmt.Fprintln(os.Stderr, err)
			os.Exit(2)
		}
		ad := &Adapter{F: f, HistOut: hw}
		defer func() {
			hw.Flush()
			hf.Close()
		}()
		core.MainHook = func() {
			hw.Flush()
			core.WriteJSON(out+"/"+cmd+"_hist_stats.json", map[string]interface{}{"histories": ad.NHist})
		}
		core.Main(component, func() core.Adapter { return ad }, nil)
		return
	}
	fs := flag.NewFlagSet(cmd, flag.ExitOnError)
	out := fs.String("out", ".", "output directory")
	n := fs.Int("n", 200, "number of sampled schedules")
	seed := fs.Int64("seed", int64(core.EnvInt("VERIF_SEED", 1)), "seed")
	file := fs.String("file", "", "suspect file")
	budget := fs.Int("budget", 2000, "executions")
	maxlen := fs.Int("maxlen", 14, "max continuation length")
	fs.Parse(os.Args[2:])
	t0 := time.Now()
	switch cmd {
	case "sample":
		hw, hf, err := OpenHist(*out + "/sample_hist.ndjson")
		if err != nil {
			fmt.Fprintln(os.Stderr, err)
			os.Exit(2)
		}
		ad := &Adapter{F: f, HistOut: hw}
		rng := rand.New(rand.NewSource(*seed))
		steps, nonterm := 0, 0
		var samples []interface{}
		for i := 0; i < *n; i++ {
			init := gen(rng)
			s, ok := ad.Sample(init, rng, 4000)
			steps += s
			if !ok {
				nonterm++
			}
			if i < 2 {
				samples = append(samples, core.Canon(init))
			}
			if core.Hung {
				break
			}
		}
		hw.Flush()
		hf.Close()
		core.WriteJSON(*out+"/sample_stats.json", map[string]interface{}{"component": component, "histories": ad.NHist, "steps": steps,
			"not_completed": nonterm, "seed": *seed, "samples": samples, "wall_s": time.Since(t0).Seconds()})
		fmt.Printf("sample %s: histories=%d steps=%d\n", component, ad.NHist, steps)
	case "real":
		hw, hf, err := OpenHist(*out + "/real_hist.ndjson")
		if err != nil {
			fmt.Fprintln(os.Stderr, err)
			os.Exit(2)
		}
		nh, nev := 0, 0
		RealMany(f, gen, *n, *seed, func(ev map[string]interface{}) {
			b, _ := json.Marshal(ev)
			hw.Write(b)
			hw.WriteByte('\n')
			nev++
			if ev["ev"] == "reset" {
				nh++
			}
		})
		if ExtraReal != nil {
			ExtraReal() // further real-goroutine runs of the component (other element types ...): the race detector is the judge
		}
		hw.Flush()
		hf.Close()
		core.WriteJSON(*out+"/real_stats.json", map[string]interface{}{"component": component, "histories": nh, "events": nev,
			"seed": *seed, "wall_s": time.Since(t0).Seconds()})
		fmt.Printf("real %s: histories=%d events=%d\n", component, nh, nev)
	case "explore":
		var rp core.Replay
		if err := core.ReadJSON(*file, &rp); err != nil {
			fmt.Fprintln(os.Stderr, err)
			os.Exit(2)
		}
		hw, hf, err := OpenHist(*out + "/explore_hist.ndjson")
		if err != nil {
			fmt.Fprintln(os.Stderr, err)
			os.Exit(2)
		}
		ad := &Adapter{F: f, HistOut: hw}
		var prefix []Sched
		for _, op := range rp.Ops {
			prefix = append(prefix, Sched{core.ArgInt(op, 0), core.ArgInt(op, 1)})
		}
		// also explore from every shorter prefix end? the divergence is at the last op: start one before it
		if len(prefix) > 0 {
			prefix = prefix[:len(prefix)-1]
		}
		execs := ad.ExploreFrom(rp.Init, prefix, *budget, *maxlen)
		hw.Flush()
		hf.Close()
		core.WriteJSON(*out+"/explore_stats.json", map[string]interface{}{"component": component, "histories": ad.NHist, "executions": execs,
			"prefix_len": len(prefix), "wall_s": time.Since(t0).Seconds()})
		fmt.Printf("explore %s: executions=%d histories=%d\n", component, execs, ad.NHist)
	default:
		fmt.Fprintln(os.Stderr, "unknown command", cmd)
		os.Exit(2)
	}
}
