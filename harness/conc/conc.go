// Package conc binds a concurrent container (SyncRing, SyncList, SafeKV) to the generic graph
// walker through the deterministic scheduler: one walker operation = a number of grants to one
// goroutine; it also records call histories (invocation / response / probes) for validation
// by TLC against the abstract, linearizability-style specification.
package conc

import (
	"bufio"
	"encoding/json"
	"fmt"
	"math/rand"
	"os"
	"unsafe"

	"github.com/welllog/golib/verifshim/sched"
	"verifharness/core"
)

// Object is one real concurrent object together with what the harness knows about it.
type Object interface {
	Exec(tid int, c sched.Call) []interface{}
	// Describe turns an executed atomic operation into the specification's encoding
	// (e.g. ["Load","tail"], ["CAS","head",true]); needs white-box address resolution.
	Describe(rec sched.OpRec) interface{}
	// Shared is the structural projection of shared memory (nil when black-box).
	Shared() interface{}
	// Probe is a non-destructive observation made by the harness goroutine while every
	// managed goroutine is parked (a legal concurrent call, e.g. Len()).
	Probe() map[string]interface{}
	// ProbeDrain: Len() followed by Pop until it fails, by the harness goroutine.
	ProbeDrain() map[string]interface{}
	// WhiteBox says whether Describe can name variables (false: the step labels of the
	// Impl spec are not compared, only observations).
	WhiteBox() bool
	// ResetEvent describes the initial state for the history.
	ResetEvent() map[string]interface{}
}

type Factory func(init json.RawMessage) (Object, [][]sched.Call, error)

var _ = unsafe.Pointer(nil)

// Adapter implements core.Adapter on top of a Factory.
type Adapter struct {
	F       Factory
	obj     Object
	run     *sched.Run
	hist    []map[string]interface{}
	HistOut *bufio.Writer
	NHist   int
	// ProbeEvery step: record a probe event in the history after every Apply
	NoProbe bool
}

func (a *Adapter) flushHist() {
	if a.HistOut != nil && len(a.hist) > 0 {
		for _, ev := range a.hist {
			b, _ := json.Marshal(ev)
			a.HistOut.Write(b)
			a.HistOut.WriteByte('\n')
		}
		a.NHist++
	}
	a.hist = nil
}

func (a *Adapter) Reset(s json.RawMessage) error {
	if a.run != nil {
		a.run.Abort()
		a.run = nil
	}
	a.hist = nil
	obj, progs, err := a.F(s)
	if err != nil {
		return err
	}
	a.obj = obj
	a.run = sched.NewRun(progs, obj.Exec)
	ev := obj.ResetEvent()
	ev["ev"] = "reset"
	ev["n"] = len(progs)
	a.hist = append(a.hist, ev)
	return nil
}

func histEv(e sched.HistEv) map[string]interface{} {
	m := map[string]interface{}{"ev": e.Ev, "t": e.T + 1, "op": e.Op, "arg": e.Arg}
	if m["arg"] == nil {
		m["arg"] = []interface{}{}
	}
	if e.Ev == "ret" {
		m["ret"] = e.Ret
	}
	return m
}

// StepN grants thread t n steps; returns the descriptors of the executed atomic operations.
func (a *Adapter) StepN(t, n int) ([]interface{}, error) {
	ops := []interface{}{}
	for i := 0; i < n; i++ {
		if a.run.Done(t) {
			return ops, fmt.Errorf("thread %d already finished", t)
		}
		info, err := a.run.Step(t)
		for _, e := range info.Events {
			a.hist = append(a.hist, histEv(e))
		}
		for _, rec := range info.Ops {
			ops = append(ops, a.obj.Describe(rec))
		}
		if err != nil {
			if a.run.Hung {
				core.Hung = true
				a.hist = append(a.hist, map[string]interface{}{"ev": "hang", "t": t + 1})
			} else {
				a.hist = append(a.hist, map[string]interface{}{"ev": "panic", "t": t + 1, "msg": fmt.Sprint(a.run.Panic)})
			}
			return ops, err
		}
	}
	return ops, nil
}

func (a *Adapter) Apply(op core.Op) (interface{}, error) {
	if op.N != "Step" {
		return nil, fmt.Errorf("unknown op %s", op.N)
	}
	t, n := core.ArgInt(op, 0)-1, core.ArgInt(op, 1)
	ops, err := a.StepN(t, n)
	if err != nil {
		a.flushHist()
		panic(err.Error())
	}
	if !a.NoProbe {
		p := a.obj.Probe()
		p["ev"] = "probe"
		a.hist = append(a.hist, p)
	}
	if !a.obj.WhiteBox() {
		return op.R, nil // black box: step labels cannot be named, only observations are compared
	}
	return ops, nil
}

func (a *Adapter) Obs() interface{} {
	p := a.obj.Probe()
	idx := make([]int, a.run.NThreads())
	for i := range idx {
		idx[i] = a.run.CallIdx(i)
	}
	p["idx"] = idx
	return p
}

func (a *Adapter) Struct() interface{} { return a.obj.Shared() }

// Drain ends the path: black-box probe (Len, then Pop until failure) with everybody parked.
func (a *Adapter) Drain() interface{} {
	d := a.obj.ProbeDrain()
	ev := map[string]interface{}{"ev": "probedrain"}
	for k, v := range d {
		ev[k] = v
	}
	a.hist = append(a.hist, ev)
	a.flushHist()
	a.run.Abort()
	a.run = nil
	return d
}

// Finish runs every goroutine to completion (fair: a yielding goroutine is passed over while
// another one can move), then records a final probe-drain. Returns false if the bound was hit.
func (a *Adapter) Finish(rng *rand.Rand, maxSteps int, probe bool) bool {
	for steps := 0; !a.run.AllDone(); steps++ {
		if steps > maxSteps {
			a.hist = append(a.hist, map[string]interface{}{"ev": "nonterm", "steps": steps})
			return false
		}
		en := a.run.Enabled()
		if len(en) == 0 { // everybody left is waiting for a lock nobody will release
			a.hist = append(a.hist, map[string]interface{}{"ev": "deadlock"})
			return false
		}
		// fairness: prefer goroutines that are not parked at a yield
		var pref []int
		for _, t := range en {
			if a.run.Kind(t) != "yield" {
				pref = append(pref, t)
			}
		}
		if len(pref) == 0 {
			pref = en
		}
		t := pref[0]
		if rng != nil {
			t = pref[rng.Intn(len(pref))]
		}
		if _, err := a.StepN(t, 1); err != nil {
			return false
		}
		if probe {
			p := a.obj.Probe()
			p["ev"] = "probe"
			a.hist = append(a.hist, p)
		}
	}
	return true
}

// History returns the events recorded so far (for explorers).
func (a *Adapter) History() []map[string]interface{}    { return a.hist }
func (a *Adapter) Run() *sched.Run                      { return a.run }
func (a *Adapter) Obj() Object                          { return a.obj }
func (a *Adapter) AppendHist(ev map[string]interface{}) { a.hist = append(a.hist, ev) }
func (a *Adapter) EndHistory() {
	a.flushHist()
	if a.run != nil {
		a.run.Abort()
		a.run = nil
	}
}

func OpenHist(path string) (*bufio.Writer, *os.File, error) {
	f, err := os.Create(path)
	if err != nil {
		return nil, nil, err
	}
	return bufio.NewWriterSize(f, 1<<20), f, nil
}
