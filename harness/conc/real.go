package conc

import (
	"encoding/json"
	"math/rand"
	"sort"
	"sync"
	"sync/atomic"

	"github.com/welllog/golib/verifshim/sched"
)

type stamped struct {
	at uint64
	ev map[string]interface{}
}

// RealRun executes the programs of init with real goroutines on the real object (the scheduler
// is not involved: the shim passes straight through to sync/atomic). Invocation and response
// stamps come from one shared atomic counter taken outside the call, so ret(A) < inv(B) implies
// that A returned before B was invoked. The merged history ends with a quiescent probe-drain.
// Meant to be run from a binary built with -race.
func RealRun(f Factory, init json.RawMessage, hist func(ev map[string]interface{})) {
	obj, progs, err := f(init)
	if err != nil {
		panic(err)
	}
	var clock uint64
	var wg sync.WaitGroup
	start := make(chan struct{})
	per := make([][]stamped, len(progs))
	for t := range progs {
		wg.Add(1)
		go func(t int, prog []sched.Call) {
			defer wg.Done()
			<-start
			for _, c := range prog {
				arg := c.Arg
				if arg == nil {
					arg = []interface{}{}
				}
				a := atomic.AddUint64(&clock, 1)
				ret := obj.Exec(t, c)
				b := atomic.AddUint64(&clock, 1)
				per[t] = append(per[t],
					stamped{a, map[string]interface{}{"ev": "inv", "t": t + 1, "op": c.Op, "arg": arg}},
					stamped{b, map[string]interface{}{"ev": "ret", "t": t + 1, "op": c.Op, "arg": arg, "ret": ret}})
			}
		}(t, progs[t])
	}
	close(start)
	wg.Wait()
	var all []stamped
	for _, p := range per {
		all = append(all, p...)
	}
	sort.Slice(all, func(i, j int) bool { return all[i].at < all[j].at })
	ev := obj.ResetEvent()
	ev["ev"] = "reset"
	ev["n"] = len(progs)
	hist(ev)
	for _, s := range all {
		hist(s.ev)
	}
	d := obj.ProbeDrain()
	d["ev"] = "probedrain"
	hist(d)
}

// RealMany runs n histories with seeded random programs.
// ExtraReal, when set by a component's driver, runs after the histories of the real-goroutine stage
var ExtraReal func()

func RealMany(f Factory, gen InitGen, n int, seed int64, hist func(ev map[string]interface{})) {
	rng := rand.New(rand.NewSource(seed))
	for i := 0; i < n; i++ {
		RealRun(f, gen(rng), hist)
	}
}
