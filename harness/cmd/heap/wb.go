//go:build !nowb

package main

import "github.com/welllog/golib/heapz"

// the handles Heap.Init created, read from the heap array
func initHandles(h *heapz.Heap[item], items []item) []*heapz.Element[item] {
	return heapz.VerifHeapElements(h)
}
