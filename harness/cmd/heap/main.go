// Conformance harness for heapz (property C04). VERIF_FLAVOUR = heap | slice | std selects
// Heap (element handles), Slice (index based, Values public) or the generic functions on a
// harness-supplied container.
package main

import (
	"encoding/json"
	"math/rand"
	"os"

	"github.com/welllog/golib/heapz"
	"verifharness/core"
)

// item is what the index-based flavours store: priority and the handle number as a tag
type item struct{ P, H int }

func less(a, b item) bool { return a.P < b.P }

// cont is the caller-supplied container for the generic functions
type cont struct{ v []item }

func (c *cont) Len() int           { return len(c.v) }
func (c *cont) Less(i, j int) bool { return c.v[i].P < c.v[j].P }
func (c *cont) Swap(i, j int)      { c.v[i], c.v[j] = c.v[j], c.v[i] }
func (c *cont) Push(x item)        { c.v = append(c.v, x) }
func (c *cont) Pop() item {
	n := len(c.v) - 1
	x := c.v[n]
	c.v = c.v[:n]
	return x
}

type ad struct {
	flip    int
	prio    map[int]int // the priority every handle has according to the calls made (also after it left the heap)
	flavour string
	h       heapz.Heap[item]
	other   heapz.Heap[item] // source of the foreign handle 0
	foreign *heapz.Element[item]
	el      map[int]*heapz.Element[item]
	s       heapz.Slice[item]
	c       *cont
	next    int
	maxH    int
}

func (a *ad) Reset(s json.RawMessage) error {
	// three ways to arrive at an empty heap ordered by `less`: New; New with another comparator, re-initialised;
	// the zero value, initialised
	a.flip++
	switch a.flip % 3 {
	case 0:
		a.h = heapz.New[item](0, less)
	case 1:
		a.h = heapz.New[item](4, func(x, y item) bool { return x.P > y.P })
		a.h.Init(nil, less)
	default:
		var z heapz.Heap[item]
		a.h = z
		a.h.Init([]item{}, less)
	}
	a.other = heapz.New[item](0, less)
	a.foreign = a.other.Push(item{P: 1, H: 0})
	a.el = map[int]*heapz.Element[item]{}
	a.prio = map[int]int{}
	a.s = heapz.NewSlice[item](0, less)
	a.c = &cont{}
	a.next = 1
	return nil
}

func (a *ad) vals() []item {
	switch a.flavour {
	case "slice":
		return a.s.Values
	case "std":
		return a.c.v
	}
	return nil
}

func (a *ad) idxOf(h int) int {
	for i, it := range a.vals() {
		if it.H == h {
			return i
		}
	}
	return -1
}

func (a *ad) elem(h int) *heapz.Element[item] {
	if h == 0 {
		return a.foreign
	}
	return a.el[h]
}

func (a *ad) Apply(op core.Op) (interface{}, error) {
	switch op.N {
	case "Push":
		p := core.ArgInt(op, 0)
		h := a.next
		a.next++
		a.prio[h] = p
		switch a.flavour {
		case "heap":
			a.el[h] = a.h.Push(item{P: p, H: h})
		case "slice":
			a.s.Push(item{P: p, H: h})
		case "std":
			heapz.Push[item](a.c, item{P: p, H: h})
		}
		return []int{h}, nil
	case "Repush":
		// PushElement with the very element object that left the heap earlier (heap flavour); the other flavours have
		// no element objects: the same (priority, tag) value is pushed again
		h := core.ArgInt(op, 0)
		switch a.flavour {
		case "heap":
			a.h.PushElement(a.el[h])
		case "slice":
			a.s.Push(item{P: a.prio[h], H: h})
		case "std":
			heapz.Push[item](a.c, item{P: a.prio[h], H: h})
		}
		return []int{}, nil
	case "InitFrom":
		ps := core.ArgInts(op, 0)
		items := make([]item, len(ps))
		for i, p := range ps {
			items[i] = item{P: p, H: i + 1}
			a.prio[i+1] = p
		}
		a.next = len(ps) + 1
		switch a.flavour {
		case "heap":
			a.h.Init(items, less)
			a.el = map[int]*heapz.Element[item]{}
			for _, e := range initHandles(&a.h, items) {
				a.el[e.Value.H] = e
			}
		case "slice":
			a.s = heapz.FromSlice(items, less)
		case "std":
			a.c = &cont{v: items}
			heapz.Init[item](a.c)
		}
		return []int{}, nil
	case "Pop", "Peek":
		var it item
		ok := false
		switch a.flavour {
		case "heap":
			var e *heapz.Element[item]
			if op.N == "Pop" {
				e = a.h.Pop()
			} else {
				e = a.h.Peek()
			}
			if e != nil {
				it, ok = e.Value, true
			}
		case "slice":
			if op.N == "Pop" {
				it, ok = a.s.Pop()
			} else {
				it, ok = a.s.Peek()
			}
		case "std":
			if a.c.Len() > 0 {
				if op.N == "Pop" {
					it, ok = heapz.Pop[item](a.c).(item), true
				} else {
					it, ok = a.c.v[0], true
				}
			}
		}
		if !ok {
			return []int{0, 0}, nil
		}
		return []int{it.H, it.P}, nil
	case "Remove":
		h := core.ArgInt(op, 0)
		switch a.flavour {
		case "heap":
			a.h.Remove(a.elem(h))
		case "slice":
			if i := a.idxOf(h); i >= 0 { // a stale or foreign handle has no index: nothing to call
				a.s.Remove(i)
			}
		case "std":
			if i := a.idxOf(h); i >= 0 {
				heapz.Remove[item](a.c, i)
			}
		}
		return []int{}, nil
	case "Fix":
		h, p := core.ArgInt(op, 0), core.ArgInt(op, 1)
		a.prio[h] = p
		switch a.flavour {
		case "heap":
			e := a.elem(h)
			e.Value.P = p
			a.h.Fix(e)
		case "slice":
			if i := a.idxOf(h); i >= 0 {
				a.s.Values[i].P = p
				a.s.Fix(i)
			}
		case "std":
			if i := a.idxOf(h); i >= 0 {
				a.c.v[i].P = p
				heapz.Fix[item](a.c, i)
			}
		}
		return []int{}, nil
	case "PopAllPush":
		// PopAll with a loop body that pushes one more element when it receives the first one
		p := core.ArgInt(op, 0)
		ys := [][]int{}

		first := true
		body := func(it item) bool {
			ys = append(ys, []int{it.H, it.P})
			if first {
				first = false
				h := a.next
				a.next++
				a.pushItem(item{P: p, H: h})
			}
			return len(ys) < 1<<12
		}
		popAll(a, body)
		if first { // the heap was empty: push the element now, so that handle numbering does not depend on it
			h := a.next
			a.next++
			a.pushItem(item{P: p, H: h})
		}
		return ys, nil
	case "RemoveAt":
		i := core.ArgInt(op, 0)
		switch a.flavour {
		case "slice":
			it, ok := a.s.Remove(i)
			if ok {
				return []int{it.H, it.P}, nil
			}
		}
		// Heap has no index form (a foreign handle is the analogue); the generic functions do
		// not accept out-of-range indices at all (as container/heap): not called
		if a.flavour == "heap" {
			a.h.Remove(a.foreign)
		}
		return []int{0, 0}, nil
	case "FixAt":
		i := core.ArgInt(op, 0)
		if a.flavour == "slice" {
			a.s.Fix(i)
		} else if a.flavour == "heap" {
			a.h.Fix(a.foreign)
		}
		return []int{}, nil
	}
	panic("unknown op " + op.N)
}

// collect returns the elements of a Heap without disturbing it: pop everything, then push the
// same elements back (PushElement keeps the handles).
func collect(h *heapz.Heap[item]) []*heapz.Element[item] {
	var es []*heapz.Element[item]
	for h.Len() > 0 {
		es = append(es, h.Pop())
	}
	return es
}

func (a *ad) pushItem(it item) {
	a.prio[it.H] = it.P
	switch a.flavour {
	case "heap":
		a.el[it.H] = a.h.Push(it)
	case "slice":
		a.s.Push(it)
	default:
		heapz.Push[item](a.c, it)
	}
}

func stdPop(a *ad) item { return heapz.Pop[item](a.c).(item) }

func (a *ad) heapOK() bool {
	v := a.vals()
	for k := 1; k < len(v); k++ {
		if v[k].P < v[(k-1)/2].P {
			return false
		}
	}
	return true
}

func (a *ad) liveSet() []int {
	out := []int{}
	for h := 1; h < a.next; h++ {
		switch a.flavour {
		case "heap":
			if e := a.el[h]; e != nil && e.Index() != -1 {
				out = append(out, h)
			}
		default:
			if a.idxOf(h) >= 0 {
				out = append(out, h)
			}
		}
	}
	return out
}

func (a *ad) Obs() interface{} {
	n, pp := 0, 0
	switch a.flavour {
	case "heap":
		n = a.h.Len()
		if e := a.h.Peek(); e != nil {
			pp = e.Value.P
		}
	case "slice":
		n = a.s.Len()
		if it, ok := a.s.Peek(); ok {
			pp = it.P
		}
	case "std":
		n = a.c.Len()
		if n > 0 {
			pp = a.c.v[0].P
		}
	}
	return map[string]interface{}{"len": n, "peekprio": pp, "live": a.liveSet(), "heapok": a.heapOK()}
}

// Struct: the arrangement (Heap: through Index(); Slice/std: the public slice) and the priorities
func (a *ad) Struct() interface{} {
	arr := []int{}
	switch a.flavour {
	case "heap":
		arr = make([]int, a.h.Len())
		for h, e := range a.el {
			if i := e.Index(); i >= 0 && i < len(arr) {
				arr[i] = h
			}
		}
	default:
		for _, it := range a.vals() {
			arr = append(arr, it.H)
		}
	}
	pr := make([]int, a.maxH)
	for h := 1; h <= a.maxH; h++ {
		switch a.flavour {
		case "heap":
			if e := a.el[h]; e != nil {
				pr[h-1] = e.Value.P
			}
		default:
			if i := a.idxOf(h); i >= 0 {
				pr[h-1] = a.vals()[i].P
			} else {
				return nil // priorities of dead handles are not kept by the index-based flavours
			}
		}
	}
	return map[string]interface{}{"arr": arr, "pr": pr}
}

func (a *ad) Drain() interface{} {
	out := []int{}
	switch a.flavour {
	case "heap":
		for _, e := range collect(&a.h) {
			out = append(out, e.Value.P)
		}
	case "slice":
		for {
			it, ok := a.s.Pop()
			if !ok || len(out) > 1<<16 {
				break
			}
			out = append(out, it.P)
		}
	case "std":
		for a.c.Len() > 0 {
			out = append(out, heapz.Pop[item](a.c).(item).P)
		}
	}
	return out
}

type gen struct {
	n    int
	gone []int // handles known to be outside the heap (they were handed to Remove and not pushed again)
	peak int   // > 0: a "swell" trace - the heap first grows to this many elements, then is taken apart again
}

func (g *gen) Init(rng *rand.Rand) json.RawMessage {
	g.n, g.gone, g.peak = 0, nil, 0
	if rng.Intn(4) == 0 {
		// past 32 elements (a backing array of 64), then down through a quarter of that, mostly by Remove of handles
		g.peak = 33 + rng.Intn(12)
	}
	return json.RawMessage(`{}`)
}
func (g *gen) Next(rng *rand.Rand, step int) core.Op {
	if g.peak > 0 {
		if step < g.peak {
			g.n++
			return core.MkOp("Push", 1+rng.Intn(5))
		}
		switch x := rng.Intn(20); {
		case x < 14:
			return core.MkOp("Remove", 1+rng.Intn(g.n))
		case x < 18:
			return core.MkOp("Pop")
		default:
			return core.MkOp("Fix", 1+rng.Intn(g.n), 1+rng.Intn(5))
		}
	}
	if step == 0 && rng.Intn(2) == 0 {
		k := rng.Intn(12)
		ps := make([]int, k)
		for i := range ps {
			ps[i] = 1 + rng.Intn(5)
		}
		g.n = k
		return core.MkOp("InitFrom", ps)
	}
	h := func() int {
		if g.n == 0 {
			return 0
		}
		return rng.Intn(g.n + 1)
	}
	switch x := rng.Intn(20); {
	case x < 1 && g.n < 70 && step > 3:
		g.n++
		return core.MkOp("PopAllPush", 1+rng.Intn(5))
	case x < 8 && g.n < 70:
		g.n++
		return core.MkOp("Push", 1+rng.Intn(5))
	case x < 12:
		return core.MkOp("Pop")
	case x < 13:
		return core.MkOp("Peek")
	case x == 13 && len(g.gone) > 0:
		k := rng.Intn(len(g.gone))
		hh := g.gone[k]
		g.gone = append(g.gone[:k], g.gone[k+1:]...)
		return core.MkOp("Repush", hh)
	case x < 16:
		hh := h()
		if hh > 0 {
			dup := false
			for _, y := range g.gone {
				dup = dup || y == hh
			}
			if !dup {
				g.gone = append(g.gone, hh)
			}
		}
		return core.MkOp("Remove", hh)
	case x < 19:
		return core.MkOp("Fix", h(), 1+rng.Intn(5))
	default:
		return core.MkOp("Peek")
	}
}

func main() {
	fl := os.Getenv("VERIF_FLAVOUR")
	if fl == "" {
		fl = "heap"
	}
	core.PreHook = func(edges []*core.Edge) {}
	core.Main("Heap-"+fl, func() core.Adapter { return &ad{flavour: fl, maxH: core.EnvInt("VERIF_MAXH", 4)} }, &gen{})
}
