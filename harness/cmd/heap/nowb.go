//go:build nowb

package main

import "github.com/welllog/golib/heapz"

// black box: the handles created by Heap.Init can only be obtained by popping; the elements are
// pushed back (same handles, possibly another arrangement - the abstract spec does not care)
func initHandles(h *heapz.Heap[item], items []item) []*heapz.Element[item] {
	es := collect(h)
	for _, e := range es {
		h.PushElement(e)
	}
	return es
}
