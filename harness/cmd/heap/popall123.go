//go:build go1.23

package main

func popAll(a *ad, body func(item) bool) {
	switch a.flavour {
	case "heap":
		a.h.PopAll()(body)
	case "slice":
		a.s.PopAll()(body)
	default: // the generic functions have no PopAll: the same loop written with Pop / Push
		for a.c.Len() > 0 {
			if !body(heapzPop(a)) {
				return
			}
		}
	}
}

func heapzPop(a *ad) item { return stdPop(a) }
