//go:build !go1.23

package main

// PopAll needs go1.23 iterators: emulate with Pop so that the driver still works on older toolchains
func popAll(a *ad, body func(item) bool) {
	for {
		var it item
		ok := false
		switch a.flavour {
		case "heap":
			if e := a.h.Pop(); e != nil {
				it, ok = e.Value, true
			}
		case "slice":
			it, ok = a.s.Pop()
		default:
			if a.c.Len() > 0 {
				it, ok = stdPop(a), true
			}
		}
		if !ok || !body(it) {
			return
		}
	}
}
