// Conformance harness for setz.Set and dsz.Set (extra X04, outside the listed properties): SetAlg.tla.
package main

import (
	"encoding/json"
	"math/rand"
	"os"
	"sort"

	"github.com/welllog/golib/dsz"
	"github.com/welllog/golib/setz"
	"verifharness/core"
)

type ad struct {
	flavour string
	s       setz.Set[int]
	d       dsz.Set[int]
}

func sorted(x []int) []int {
	y := append([]int{}, x...)
	sort.Ints(y)
	return y
}

func (a *ad) Reset(raw json.RawMessage) error {
	var st struct {
		Init []int `json:"init"`
	}
	json.Unmarshal(raw, &st)
	if a.flavour == "setz" {
		// the constructors: from a slice (with a duplicate), from map keys, from map values
		switch len(st.Init) % 3 {
		case 0:
			a.s = setz.FromSlice(append(append([]int{}, st.Init...), st.Init...))
		case 1:
			mk := map[int]string{}
			for _, v := range st.Init {
				mk[v] = "x"
			}
			a.s = setz.FromMapKeys(mk)
		default:
			mv := map[string]int{}
			for i, v := range st.Init {
				mv[string(rune('a'+i))] = v
				mv[string(rune('A'+i))] = v
			}
			a.s = setz.FromMapValues(mv)
		}
	} else {
		a.d = dsz.Set[int]{}
		dsz.SetFromSlice(a.d, st.Init)
	}
	return nil
}

func mkMap(keys []int) map[int]int {
	m := map[int]int{}
	for _, k := range keys {
		m[k] = k%2 + 1
	}
	return m
}

func (a *ad) Apply(op core.Op) (interface{}, error) {
	sz := a.flavour == "setz"
	none := []int{}
	switch op.N {
	case "Add":
		if sz {
			return []interface{}{a.s.Add(core.ArgInt(op, 0))}, nil
		}
		return []interface{}{a.d.Add(core.ArgInt(op, 0))}, nil
	case "AddAll":
		if sz {
			a.s.AddAll(core.ArgInts(op, 0)...)
		} else {
			a.d.MultiAdd(core.ArgInts(op, 0)...)
		}
		return none, nil
	case "Has":
		v := core.ArgInt(op, 0)
		if sz {
			h, c := a.s.Has(v), a.s.Contains(v)
			if h != c {
				return []interface{}{"Has and Contains disagree"}, nil
			}
			return []interface{}{h}, nil
		}
		return []interface{}{a.d.Has(v)}, nil
	case "Delete":
		if sz {
			return []interface{}{a.s.Delete(core.ArgInt(op, 0))}, nil
		}
		return []interface{}{a.d.Delete(core.ArgInt(op, 0))}, nil
	case "Values":
		dst := core.ArgInts(op, 0)
		var out []int
		if sz {
			out = a.s.Values(append([]int{}, dst...))
		} else {
			out = a.d.Values(append([]int{}, dst...))
		}
		if len(out) < len(dst) {
			return []interface{}{out, []int{-1}}, nil
		}
		return []interface{}{out[:len(dst)], sorted(out[len(dst):])}, nil
	case "Clear":
		if sz {
			a.s.Clear()
		} else {
			a.d.Clear()
		}
		return none, nil
	case "FilterOdd":
		odd := func(v int) bool { return v%2 == 1 }
		if sz {
			a.s.Filter(odd)
		} else {
			a.d.Filter(odd)
		}
		return none, nil
	case "Merge", "Diff", "Intersect":
		o := core.ArgInts(op, 0)
		if sz {
			other := setz.FromSlice(o)
			switch op.N {
			case "Merge":
				a.s.Merge(other)
			case "Diff":
				a.s.Diff(other)
			default:
				a.s.Intersect(other)
			}
			if len(other) != len(o) {
				return []interface{}{"the other set was modified"}, nil
			}
		} else {
			other := dsz.Set[int]{}
			other.MultiAdd(o...)
			switch op.N {
			case "Merge":
				a.d.Merge(other)
			case "Diff":
				a.d.Diff(other)
			default:
				a.d.Intersect(other)
			}
			if len(other) != len(o) {
				return []interface{}{"the other set was modified"}, nil
			}
		}
		return none, nil
	case "DiffWithSlice":
		if sz {
			a.s.DiffWithSlice(core.ArgInts(op, 0))
		} else {
			a.d.DiffWithSlice(core.ArgInts(op, 0))
		}
		return none, nil
	case "IntersectWithSlice":
		if sz {
			a.s.IntersectWithSlice(core.ArgInts(op, 0))
		} else {
			a.d.IntersectWithSlice(core.ArgInts(op, 0))
		}
		return none, nil
	case "AddMapKeys":
		if sz {
			setz.AddMapKeysToSet(a.s, mkMap(core.ArgInts(op, 0)))
		} else {
			dsz.SetFromMapKeys(a.d, mkMap(core.ArgInts(op, 0)))
		}
		return none, nil
	case "AddMapValues":
		if sz {
			setz.AddMapValuesToSet(a.s, mkMap(core.ArgInts(op, 0)))
		} else {
			dsz.SetFromMapValues(a.d, mkMap(core.ArgInts(op, 0)))
		}
		return none, nil
	}
	panic("unknown op " + op.N)
}

var universe = []int{1, 2, 3, 4}

func nvals() int { return core.EnvInt("VERIF_NVALS", 3) }

func (a *ad) Obs() interface{} {
	var n int
	var vals, rng []int
	has := []bool{}
	if a.flavour == "setz" {
		n, vals = a.s.Len(), a.s.Values(nil)
		a.s.Range(func(v int) { rng = append(rng, v) })
		for _, v := range universe[:nvals()] {
			has = append(has, a.s.Has(v))
		}
	} else {
		n, vals = a.d.Len(), a.d.Values(nil)
		a.d.Range(func(v int) { rng = append(rng, v) })
		for _, v := range universe[:nvals()] {
			has = append(has, a.d.Has(v))
		}
	}
	return map[string]interface{}{"len": n, "vals": sorted(vals), "range": sorted(rng), "has": has}
}

func (a *ad) Struct() interface{} { return nil }
func (a *ad) Drain() interface{} {
	if a.flavour == "setz" {
		return sorted(a.s.Values(nil))
	}
	return sorted(a.d.Values(nil))
}

type gen struct{}

func sub(rng *rand.Rand) []int {
	out := []int{}
	for _, v := range universe[:nvals()] {
		if rng.Intn(2) == 0 {
			out = append(out, v)
		}
	}
	return out
}

func sl(rng *rand.Rand) []int {
	n := rng.Intn(5)
	out := make([]int, n)
	for i := range out {
		out[i] = universe[rng.Intn(nvals())]
	}
	return out
}

func (gen) Init(rng *rand.Rand) json.RawMessage {
	b, _ := json.Marshal(map[string]interface{}{"init": sub(rng)})
	return b
}

func (gen) Next(rng *rand.Rand, step int) core.Op {
	v := universe[rng.Intn(nvals())]
	switch rng.Intn(16) {
	case 0, 1:
		return core.MkOp("Add", v)
	case 2:
		return core.MkOp("AddAll", sl(rng))
	case 3:
		return core.MkOp("Has", v)
	case 4, 5:
		return core.MkOp("Delete", v)
	case 6:
		return core.MkOp("Values", sl(rng))
	case 7:
		if rng.Intn(3) == 0 {
			return core.MkOp("Clear")
		}
		return core.MkOp("FilterOdd")
	case 8:
		return core.MkOp("Merge", sub(rng))
	case 9:
		return core.MkOp("Diff", sub(rng))
	case 10:
		return core.MkOp("Intersect", sub(rng))
	case 11:
		return core.MkOp("DiffWithSlice", sl(rng))
	case 12:
		return core.MkOp("IntersectWithSlice", sl(rng))
	case 13:
		return core.MkOp("AddMapKeys", sub(rng))
	case 14:
		return core.MkOp("AddMapValues", sub(rng))
	}
	return core.MkOp("Add", v)
}

func main() {
	fl := os.Getenv("VERIF_FLAVOUR")
	if fl == "" {
		fl = "setz"
	}
	core.Main("Set-"+fl, func() core.Adapter { return &ad{flavour: fl} }, gen{})
}
