//go:build nowb

package main

// black box: the list keeps its own random source, tower heights are not controlled
func (a *ad) setRand()            {}
func (a *ad) Struct() interface{} { return nil }
