//go:build go1.23

package main

import "github.com/welllog/golib/listz"

func allSkip(s *listz.SkipList[int, int], mk func(int) int) [][]int {
	out := [][]int{}
	s.All()(func(k, v int) bool { out = append(out, []int{mk(k), v}); return len(out) < 1<<12 })
	return out
}

func allCmp(s *listz.SkipListWithCmp[int, int], mk func(int) int) [][]int {
	out := [][]int{}
	s.All()(func(k, v int) bool { out = append(out, []int{mk(k), v}); return len(out) < 1<<12 })
	return out
}
