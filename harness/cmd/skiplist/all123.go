//go:build go1.23

package main

import "github.com/welllog/golib/listz"

// The iterator value of All() is taken once per list and ranged at every observation (first a pass that stops after
// one pair, then a full one): an iter.Seq2 is evaluated when it is ranged, however long it has been held.
var (
	heldSkip = map[*listz.SkipList[int, int]]func(func(int, int) bool){}
	heldCmp  = map[*listz.SkipListWithCmp[int, int]]func(func(int, int) bool){}
)

func allSkip(s *listz.SkipList[int, int], mk func(int) int) [][]int {
	seq, ok := heldSkip[s]
	if !ok {
		if len(heldSkip) > 256 {
			heldSkip = map[*listz.SkipList[int, int]]func(func(int, int) bool){}
		}
		seq = s.All()
		heldSkip[s] = seq
	}
	seq(func(int, int) bool { return false })
	out := [][]int{}
	seq(func(k, v int) bool { out = append(out, []int{mk(k), v}); return len(out) < 1<<12 })
	return out
}

func allCmp(s *listz.SkipListWithCmp[int, int], mk func(int) int) [][]int {
	seq, ok := heldCmp[s]
	if !ok {
		if len(heldCmp) > 256 {
			heldCmp = map[*listz.SkipListWithCmp[int, int]]func(func(int, int) bool){}
		}
		seq = s.All()
		heldCmp[s] = seq
	}
	seq(func(int, int) bool { return false })
	out := [][]int{}
	seq(func(k, v int) bool { out = append(out, []int{mk(k), v}); return len(out) < 1<<12 })
	return out
}
