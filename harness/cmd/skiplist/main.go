// Conformance harness for listz.SkipList / SkipListWithCmp (property C02).
// VERIF_FLAVOUR = skip (SkipList[int,int], zero value or constructed per the model's start state)
//               | cmp  (SkipListWithCmp[int,int] under a total order chosen per path: model key k
//                       is the real key perm[k], the comparator orders keys by perm^-1).
package main

import (
	"encoding/json"
	"math/rand"
	"os"

	"github.com/welllog/golib/listz"
	"verifharness/core"
)

// script is a rand.Source64 whose next word makes randomLevel return a chosen height
type script struct {
	h    int
	used int
	rng  *rand.Rand // nil: scripted; else genuine randomness (random driver)
}

func (s *script) Uint64() uint64 {
	s.used++
	if s.rng != nil {
		return s.rng.Uint64()
	}
	if s.h <= 1 {
		return 0
	}
	return uint64(1) << uint(32-s.h)
}
func (s *script) Int63() int64    { return int64(s.Uint64() >> 1) }
func (s *script) Seed(seed int64) {}

type ad struct {
	flavour string
	nk      int
	sk      *listz.SkipList[int, int]
	sc      *listz.SkipListWithCmp[int, int]
	src     *script
	perm    []int // model key -> real key (index 0 and nk+1 are the out-of-range bounds)
	inv     map[int]int
	zero    bool
	paths   int
	free    bool // random driver: the list keeps its own random source
}

type initS struct {
	Zero bool `json:"zero"`
	NK   int  `json:"nk"`
	Free bool `json:"free"`
}

func (a *ad) Reset(s json.RawMessage) error {
	var st initS
	json.Unmarshal(s, &st)
	if st.NK > 0 {
		a.nk = st.NK
	}
	a.zero = st.Zero
	a.free = st.Free || os.Getenv("VERIF_FREE") == "1"
	a.paths++
	a.src = &script{h: 1}
	// identity order for SkipList; a permutation (rotating through all of them) for the Cmp flavour
	a.perm = make([]int, a.nk+2)
	// (SkipList orders its keys itself: an order-preserving embedding whose origin moves from path to path, so that the
	// zero value of the key type is below, among, or above the keys and negative keys occur)
	off := []int{0, 1, 2, a.nk, a.nk + 1, 3}[a.paths%6]
	for i := range a.perm {
		a.perm[i] = i - off
	}
	if a.flavour == "cmp" {
		r := rand.New(rand.NewSource(int64(a.paths)))
		p := r.Perm(a.nk + 2)
		a.perm = p
	}
	a.inv = map[int]int{}
	for k, rk := range a.perm {
		a.inv[rk] = k
	}
	if a.flavour == "cmp" {
		a.sc = listz.NewSkipListWithCmp[int, int](func(x, y int) int { return a.inv[x] - a.inv[y] })
		if !a.free {
			a.setRand()
		}
		return nil
	}
	if st.Zero {
		a.sk = new(listz.SkipList[int, int])
	} else {
		a.sk = listz.NewSkipList[int, int]()
		if !a.free {
			a.setRand()
		}
	}
	return nil
}

func (a *ad) rk(k int) int { // real key of a model key / bound
	if k >= 0 && k < len(a.perm) {
		return a.perm[k]
	}
	return k
}

func (a *ad) Apply(op core.Op) (interface{}, error) {
	k := 0
	if len(op.A) > 0 {
		k = a.rk(core.ArgInt(op, 0))
	}
	switch op.N {
	case "Set", "SetNx", "SetX":
		v := core.ArgInt(op, 1)
		if len(op.A) > 2 {
			a.src.h = core.ArgInt(op, 2)
		}
		if !a.free {
			a.setRand() // (a zero value gets its source only when the list initialises itself: see wb.go)
		}
		var r interface{}
		switch op.N {
		case "Set":
			if a.flavour == "cmp" {
				a.sc.Set(k, v)
			} else {
				a.sk.Set(k, v)
			}
			r = []int{}
		case "SetNx":
			if a.flavour == "cmp" {
				r = []bool{a.sc.SetNx(k, v)}
			} else {
				r = []bool{a.sk.SetNx(k, v)}
			}
		case "SetX":
			if a.flavour == "cmp" {
				r = []bool{a.sc.SetX(k, v)}
			} else {
				r = []bool{a.sk.SetX(k, v)}
			}
		}
		return r, nil
	case "Remove":
		var v int
		var ok bool
		if a.flavour == "cmp" {
			v, ok = a.sc.Remove(k)
		} else {
			v, ok = a.sk.Remove(k)
		}
		return []interface{}{v, ok}, nil
	case "Clear":
		if a.flavour == "cmp" {
			a.sc.Clear()
		} else {
			a.sk.Clear()
		}
		return []int{}, nil
	case "SetValue":
		v := core.ArgInt(op, 1)
		if a.flavour == "cmp" {
			n := a.sc.GetNode(k)
			if n != nil {
				n.SetValue(v)
			}
			return []bool{n != nil}, nil
		}
		n := a.sk.GetNode(k)
		if n != nil {
			n.SetValue(v)
		}
		return []bool{n != nil}, nil
	}
	panic("unknown op " + op.N)
}

type pair = []int

// Obs is the complete read sweep of OrderedMap!Reads, in model keys.
func (a *ad) Obs() interface{} {
	nb := a.nk + 2
	mk := func(rk int) int { return a.inv[rk] }
	o := map[string]interface{}{}
	var get func(k int) (int, bool)
	var rng func(f func(k, v int) bool)
	var rws func(s int, f func(k, v int) bool)
	var rwr func(s, e int, f func(k, v int) bool)
	var keys func() []int
	var values func() []int
	var chain func(k int) []int
	var head func() []interface{}
	var ln int
	if a.flavour == "cmp" {
		s := a.sc
		ln = s.Len()
		get, rng, rws, rwr, keys, values = s.Get, s.Range, s.RangeWithStart, s.RangeWithRange, s.Keys, s.Values
		chain = func(k int) []int {
			out := []int{}
			for n, c := s.GetNode(k), 0; n != nil && c < 1<<12; n, c = n.Next(), c+1 {
				out = append(out, mk(n.Key()))
			}
			return out
		}
		head = func() []interface{} {
			if n := s.Head(); n != nil {
				return []interface{}{mk(n.Key()), n.Value(), true}
			}
			return []interface{}{0, 0, false}
		}
		o["all"] = allCmp(s, mk)
	} else {
		s := a.sk
		ln = s.Len()
		get, rng, rws, rwr, keys, values = s.Get, s.Range, s.RangeWithStart, s.RangeWithRange, s.Keys, s.Values
		chain = func(k int) []int {
			out := []int{}
			for n, c := s.GetNode(k), 0; n != nil && c < 1<<12; n, c = n.Next(), c+1 {
				out = append(out, mk(n.Key()))
			}
			return out
		}
		head = func() []interface{} {
			if n := s.Head(); n != nil {
				return []interface{}{mk(n.Key()), n.Value(), true}
			}
			return []interface{}{0, 0, false}
		}
		o["all"] = allSkip(s, mk)
	}
	o["len"] = ln
	o["head"] = head()
	ks := []int{}
	for _, k := range keys() {
		ks = append(ks, mk(k))
	}
	o["keys"] = ks
	vs := values()
	if vs == nil {
		vs = []int{}
	}
	o["values"] = vs
	r1 := []pair{}
	rng(func(k, v int) bool { r1 = append(r1, pair{mk(k), v}); return false })
	o["range1"] = r1
	gets, chains, rwss, rws1, rwrs := make([]interface{}, nb), make([]interface{}, nb), make([]interface{}, nb), make([]interface{}, nb), make([]interface{}, nb)
	for b := 0; b < nb; b++ {
		v, ok := get(a.rk(b))
		gets[b] = []interface{}{v, ok}
		chains[b] = chain(a.rk(b))
		l := []pair{}
		rws(a.rk(b), func(k, v int) bool { l = append(l, pair{mk(k), v}); return len(l) < 1<<12 })
		rwss[b] = l
		l1 := []int{}
		rws(a.rk(b), func(k, v int) bool { l1 = append(l1, mk(k)); return false })
		rws1[b] = l1
		row := make([]interface{}, nb)
		for e := 0; e < nb; e++ {
			le := []int{}
			rwr(a.rk(b), a.rk(e), func(k, v int) bool { le = append(le, mk(k)); return len(le) < 1<<12 })
			row[e] = le
		}
		rwrs[b] = row
	}
	o["get"], o["chain"], o["rws"], o["rws1"], o["rwr"] = gets, chains, rwss, rws1, rwrs
	return o
}

func (a *ad) Drain() interface{} {
	out := []pair{}
	if a.flavour == "cmp" {
		a.sc.Range(func(k, v int) bool { out = append(out, pair{a.inv[k], v}); return len(out) < 1<<12 })
	} else {
		a.sk.Range(func(k, v int) bool { out = append(out, pair{a.inv[k], v}); return len(out) < 1<<12 })
	}
	return out
}

type gen struct{ nk int }

func (g gen) Init(rng *rand.Rand) json.RawMessage {
	b, _ := json.Marshal(map[string]interface{}{"zero": rng.Intn(3) == 0, "nk": g.nk, "free": true})
	return b
}
func (g gen) Next(rng *rand.Rand, step int) core.Op {
	k := 1 + rng.Intn(g.nk)
	switch x := rng.Intn(20); {
	case x < 6:
		return core.MkOp("Set", k, 1+rng.Intn(9))
	case x < 9:
		return core.MkOp("SetNx", k, 1+rng.Intn(9))
	case x < 11:
		return core.MkOp("SetX", k, 1+rng.Intn(9))
	case x < 16:
		return core.MkOp("Remove", rng.Intn(g.nk+2))
	case x < 19:
		return core.MkOp("SetValue", k, 1+rng.Intn(9))
	default:
		return core.MkOp("Clear")
	}
}

func main() {
	fl := os.Getenv("VERIF_FLAVOUR")
	if fl == "" {
		fl = "skip"
	}
	nk := core.EnvInt("VERIF_NK", 3)
	core.Main("SkipList-"+fl, func() core.Adapter { return &ad{flavour: fl, nk: nk} }, gen{nk: core.EnvInt("VERIF_RAND_NK", 6)})
}
