//go:build !nowb

package main

import (
	"math/rand"

	"github.com/welllog/golib/listz"
)

// setRand installs the scripted source. A zero-value SkipList gets it only once the list has
// created a source of its own (i.e. has initialised itself): the harness never initialises a
// zero value on the list's behalf.
func (a *ad) setRand() {
	r := rand.New(a.src)
	if a.flavour == "cmp" {
		listz.VerifSkipCmpSetRand(a.sc, r)
		return
	}
	if listz.VerifSkipHasRand(a.sk) {
		listz.VerifSkipSetRand(a.sk, r)
	}
}

func (a *ad) Struct() interface{} {
	if a.free {
		return nil // heights are the list's own choice: only observations are compared
	}
	var lvl int
	var lists [][]int
	if a.flavour == "cmp" {
		lvl, lists = listz.VerifSkipCmpLevels(a.sc)
	} else {
		lvl, lists = listz.VerifSkipLevels(a.sk)
	}
	out := make([][]int, len(lists))
	for i, l := range lists {
		out[i] = []int{}
		for _, k := range l {
			out[i] = append(out[i], a.inv[k])
		}
	}
	inited := true
	if a.flavour != "cmp" {
		inited = listz.VerifSkipHasRand(a.sk)
	}
	return map[string]interface{}{"level": lvl, "lists": out, "zero": a.zero, "inited": inited}
}
