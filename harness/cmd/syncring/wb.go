//go:build !nowb

package main

import (
	"github.com/welllog/golib/ringz"
	"github.com/welllog/golib/verifshim/sched"
)

func (o *obj) place(real uint32) { ringz.VerifSyncRingSetBase(&o.r, real) }

func (o *obj) norm(v interface{}) interface{} {
	if x, ok := v.(int64); ok {
		return uint32(x) % o.m
	}
	return v
}

func (o *obj) Describe(rec sched.OpRec) interface{} {
	if rec.Kind == "Gosched" {
		return []interface{}{"Gosched"}
	}
	v, i := ringz.VerifSyncRingVar(&o.r, rec.Addr)
	switch rec.Kind {
	case "CAS":
		return []interface{}{"CAS", v, rec.Ok}
	}
	if v == "seq" {
		return []interface{}{rec.Kind, v, i, o.norm(rec.Val)}
	}
	return []interface{}{rec.Kind, v, o.norm(rec.Val)}
}

func (o *obj) Shared() interface{} {
	h, t, seq, vals, c := ringz.VerifSyncRingState(&o.r)
	for i := range seq {
		seq[i] %= o.m
	}
	return map[string]interface{}{"prog": o.progs, "cap": c, "m": o.m, "head": h % o.m, "tail": t % o.m, "seq": seq, "val": vals}
}

func (o *obj) WhiteBox() bool { return true }
