// Conformance harness for ringz.SyncRing under the deterministic scheduler (property C01).
package main

import (
	"encoding/json"
	"fmt"
	"math/rand"
	"os"
	"runtime"
	"sync"
	"sync/atomic"
	"time"

	"github.com/welllog/golib/ringz"
	"github.com/welllog/golib/verifshim/sched"
	"verifharness/conc"
)

type obj struct {
	r     ringz.SyncRing[int]
	progs [][][]interface{}
	init  []int
	m     uint32
	base  uint32
}

type initState struct {
	Prog [][][]interface{} `json:"prog"`
	Cap  int               `json:"cap"`
	M    uint32            `json:"m"`
	Head uint32            `json:"head"`
	Tail uint32            `json:"tail"`
	Seq  []uint32          `json:"seq"`
	Val  []int             `json:"val"`
	// random driver form
	Req  int     `json:"req"`
	Real *uint32 `json:"real"`
	Q    []int   `json:"q"`
}

func factory(s json.RawMessage) (conc.Object, [][]sched.Call, error) {
	var st initState
	if err := json.Unmarshal(s, &st); err != nil {
		return nil, nil, err
	}
	o := &obj{progs: st.Prog, m: st.M}
	if o.m == 0 {
		o.m = 1 << 31
	}
	req := st.Req
	if req == 0 {
		req = st.Cap
	}
	o.r = ringz.NewSync[int](req)
	if st.Real != nil {
		o.place(*st.Real)
		o.init = st.Q
	} else {
		// model position p  <->  real position 2^32 - M + p  (M divides 2^32)
		o.place(uint32(0) - o.m + st.Head)
		n := int((st.Tail + o.m - st.Head) % o.m)
		for k := 0; k < n; k++ {
			o.init = append(o.init, st.Val[(int(st.Head)+k)%st.Cap])
		}
	}
	for _, v := range o.init {
		o.r.Push(v)
	}
	progs := make([][]sched.Call, len(st.Prog))
	for t, p := range st.Prog {
		for _, c := range p {
			progs[t] = append(progs[t], sched.Call{Op: c[0].(string), Arg: c[1:]})
		}
	}
	return o, progs, nil
}

func (o *obj) Exec(tid int, c sched.Call) []interface{} {
	switch c.Op {
	case "push":
		return []interface{}{o.r.Push(int(c.Arg[0].(float64)))}
	case "pushwait0":
		return []interface{}{o.r.PushWait(int(c.Arg[0].(float64)), 0)}
	case "pushwaitneg":
		return []interface{}{o.r.PushWait(int(c.Arg[0].(float64)), -1)}
	case "pop":
		v, ok := o.r.Pop()
		return []interface{}{v, ok}
	case "popwait0":
		v, ok := o.r.PopWait(0)
		return []interface{}{v, ok}
	case "popwaitneg":
		v, ok := o.r.PopWait(-1)
		return []interface{}{v, ok}
	case "popwait20":
		v, ok := o.r.PopWait(20 * time.Millisecond)
		return []interface{}{v, ok}
	case "pushwait20":
		return []interface{}{o.r.PushWait(int(c.Arg[0].(float64)), 20*time.Millisecond)}
	case "len":
		return []interface{}{o.r.Len()}
	case "isempty":
		return []interface{}{o.r.IsEmpty()}
	case "isfull":
		return []interface{}{o.r.IsFull()}
	}
	panic("unknown call " + c.Op)
}

func (o *obj) Probe() map[string]interface{} {
	return map[string]interface{}{"len": o.r.Len(), "empty": o.r.IsEmpty(), "full": o.r.IsFull()}
}

func (o *obj) ProbeDrain() map[string]interface{} {
	n := o.r.Len()
	popped := []int{}
	for i := 0; i < 2*o.r.Cap()+4; i++ {
		v, ok := o.r.Pop()
		if !ok {
			break
		}
		popped = append(popped, v)
	}
	return map[string]interface{}{"len": n, "popped": popped}
}

func (o *obj) ResetEvent() map[string]interface{} {
	init := o.init
	if init == nil {
		init = []int{}
	}
	return map[string]interface{}{"cap": o.r.Cap(), "init": init}
}

// random programs for schedule sampling and real-goroutine runs
func gen(rng *rand.Rand) json.RawMessage {
	reqs := []int{1, 2, 3, 4, 5, 8}
	req := reqs[rng.Intn(len(reqs))]
	capc := 2
	for capc < req {
		capc *= 2
	}
	nt := 2 + rng.Intn(3)
	prog := make([][][]interface{}, nt)
	mode := rng.Intn(6) // 0: pushers only, 1: poppers only, else mixed
	pushes, pops, bpush, bpop := 0, 0, 0, 0
	for t := range prog {
		nc := 1 + rng.Intn(4)
		if mode < 2 {
			nc = 1
		}
		for k := 0; k < nc; k++ {
			x := rng.Intn(12)
			if mode == 0 {
				x = 0
			} else if mode == 1 {
				x = 5
			}
			switch {
			case x < 4:
				prog[t] = append(prog[t], []interface{}{"push", 10*(t+1) + k})
				pushes++
			case x < 5:
				if rng.Intn(3) == 0 {
					prog[t] = append(prog[t], []interface{}{"pushwait20", 10*(t+1) + k})
				} else {
					prog[t] = append(prog[t], []interface{}{"pushwait0", 10*(t+1) + k})
				}
				pushes++
			case x < 8:
				prog[t] = append(prog[t], []interface{}{"pop"})
				pops++
			case x < 9:
				if rng.Intn(3) == 0 {
					prog[t] = append(prog[t], []interface{}{"popwait20"})
				} else {
					prog[t] = append(prog[t], []interface{}{"popwait0"})
				}
				pops++
			case x < 10:
				prog[t] = append(prog[t], []interface{}{[]string{"len", "isempty", "isfull"}[rng.Intn(3)]})
			case x < 11:
				prog[t] = append(prog[t], []interface{}{"popwaitneg"})
				bpop++
			default:
				prog[t] = append(prog[t], []interface{}{"pushwaitneg", 10*(t+1) + k})
				bpush++
			}
		}
	}
	nq := rng.Intn(capc + 1)
	// blocking calls must be able to finish under every schedule and program order: a blocking pop
	// needs the initial content to cover every pop-like call, a blocking push needs the initial free
	// space to cover every push-like call; drop them otherwise
	if bpop > 0 && capc >= pops+bpop {
		if nq < pops+bpop {
			nq = pops + bpop
		}
	} else if bpop > 0 {
		prog = strip(prog, "popwaitneg")
		bpop = 0
	}
	if bpush > 0 && capc-nq < pushes+bpush {
		prog = strip(prog, "pushwaitneg")
		bpush = 0
	}
	q := []int{}
	for i := 0; i < nq; i++ {
		q = append(q, 90+i)
	}
	var real uint32
	if rng.Intn(4) == 0 {
		real = rng.Uint32()
	} else {
		real = uint32(0) - uint32(rng.Intn(12))
	}
	b, _ := json.Marshal(map[string]interface{}{"prog": prog, "req": req, "real": real, "q": q, "blocking": bpop+bpush > 0})
	return b
}

func strip(prog [][][]interface{}, op string) [][][]interface{} {
	for t := range prog {
		var keep [][]interface{}
		for _, c := range prog[t] {
			if c[0] != op {
				keep = append(keep, c)
			}
		}
		prog[t] = keep
	}
	return prog
}

// The ring is generic in its element type; the histories above use int. bigElements runs producers and consumers on
// rings whose elements are larger than a cache line (72 and 200 bytes) and whose words all carry the same number: the
// race detector sees any unsynchronised access to a slot, and an element whose words differ is a torn hand-over.
type big72 [9]int64
type big200 struct {
	A [12]int64
	S string
	B [11]int64
}

func stress[T any](capc int, mk func(int64) T, ok func(T) bool) {
	var r ringz.SyncRing[T]
	r.Init(capc)
	var wg sync.WaitGroup
	var torn int32
	const per = 4000
	for p := 0; p < 3; p++ {
		wg.Add(2)
		go func(p int) {
			defer wg.Done()
			for i := 0; i < per; i++ {
				for !r.Push(mk(int64(p*per + i + 1))) {
					runtime.Gosched()
				}
			}
		}(p)
		go func() {
			defer wg.Done()
			for i := 0; i < per; i++ {
				for {
					if v, got := r.Pop(); got {
						if !ok(v) {
							atomic.StoreInt32(&torn, 1)
						}
						break
					}
					runtime.Gosched()
				}
			}
		}()
	}
	wg.Wait()
	if torn != 0 {
		fmt.Fprintln(os.Stderr, "WARNING: DATA RACE (observed by the harness: an element of a large element type came out torn)")
	}
}

func bigElements() {
	for _, c := range []int{2, 4} {
		stress(c, func(x int64) big72 {
			var b big72
			for i := range b {
				b[i] = x
			}
			return b
		}, func(b big72) bool {
			for _, w := range b {
				if w != b[0] || w == 0 {
					return false
				}
			}
			return true
		})
		stress(c, func(x int64) big200 {
			var b big200
			for i := range b.A {
				b.A[i] = x
			}
			for i := range b.B {
				b.B[i] = x
			}
			b.S = fmt.Sprint(x)
			return b
		}, func(b big200) bool {
			for _, w := range b.A {
				if w != b.A[0] || w == 0 {
					return false
				}
			}
			for _, w := range b.B {
				if w != b.A[0] {
					return false
				}
			}
			return b.S == fmt.Sprint(b.A[0])
		})
	}
}

func main() {
	conc.ExtraReal = bigElements
	conc.Main("SyncRing", factory, gen)
}
