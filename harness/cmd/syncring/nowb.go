//go:build nowb

package main

import "github.com/welllog/golib/verifshim/sched"

// black box: positions are reached with Push/Pop pairs (small positions only; the 2^32 wrap is
// then covered by C10's honest run)
func (o *obj) place(real uint32) {
	n := real % 64
	if o.m != 0 && o.m <= 1<<16 {
		n = real % o.m
	}
	for i := uint32(0); i < n; i++ {
		o.r.Push(1)
		o.r.Pop()
	}
}

func (o *obj) Describe(rec sched.OpRec) interface{} {
	if rec.Kind == "Gosched" {
		return []interface{}{"Gosched"}
	}
	if rec.Kind == "CAS" {
		return []interface{}{"CAS", "?", rec.Ok}
	}
	return []interface{}{rec.Kind, "?"}
}

func (o *obj) Shared() interface{} { return nil }

func (o *obj) WhiteBox() bool { return false }
