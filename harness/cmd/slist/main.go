// Conformance harness for listz.SList (property C13).
package main

import (
	"math"
	"encoding/json"
	"math/rand"

	"github.com/welllog/golib/listz"
	"verifharness/core"
)

type ad struct {
	held func(func(int) bool)
	l     *listz.SList[int]
	spare *listz.SNode[int] // node returned by the last Remove: re-inserted through the node forms
	flip  int
}

func (x *ad) Reset(s json.RawMessage) error {
	x.flip++
	if x.flip%2 == 0 {
		x.l = listz.NewSingly[int]()
	} else {
		x.l = new(listz.SList[int]) // zero value is ready to use
	}
	x.spare = nil
	x.held = heldAll(x.l)
	return nil
}

// idx maps the specification's Lo / Hi to the extreme ints
func idx(op core.Op, i int) int {
	v := core.ArgInt(op, i)
	switch v {
	case -2000000000:
		return math.MinInt
	case 2000000000:
		return math.MaxInt
	}
	return v
}

func nodeRes(e *listz.SNode[int]) []interface{} {
	if e == nil {
		return []interface{}{0, false}
	}
	return []interface{}{e.Value, true}
}

// fresh returns a node carrying v: a recycled removed node when one is at hand (alternating),
// so that the node-inserting forms are exercised with nodes that were in the list before
func (x *ad) fresh(v int) *listz.SNode[int] {
	if x.spare != nil {
		e := x.spare
		x.spare = nil
		e.Value = v
		return e
	}
	return nil
}

func (x *ad) Apply(op core.Op) (interface{}, error) {
	switch op.N {
	case "PushFront":
		v := core.ArgInt(op, 0)
		if e := x.fresh(v); e != nil {
			x.l.PushFrontNode(e)
		} else {
			x.l.PushFront(v)
		}
		return []int{}, nil
	case "PushBack":
		v := core.ArgInt(op, 0)
		if e := x.fresh(v); e != nil {
			x.l.PushBackNode(e)
		} else {
			x.l.PushBack(v)
		}
		return []int{}, nil
	case "InsertAt":
		i, v := idx(op, 0), core.ArgInt(op, 1)
		if e := x.fresh(v); e != nil {
			x.l.InsertNodeAt(i, e)
		} else {
			x.l.InsertAt(i, v)
		}
		return []int{}, nil
	case "Get":
		return nodeRes(x.l.Get(idx(op, 0))), nil
	case "Remove":
		e := x.l.Remove(idx(op, 0))
		r := nodeRes(e)
		if e != nil {
			x.spare = e
		}
		return r, nil
	case "RemoveFront":
		e := x.l.RemoveFront()
		r := nodeRes(e)
		if e != nil && x.flip%3 == 0 {
			x.spare = e
		}
		return r, nil
	case "Swap":
		x.l.Swap(idx(op, 0), idx(op, 1))
		return []int{}, nil
	}
	panic("unknown op " + op.N)
}

func (x *ad) Obs() interface{} {
	seq := []int{}
	for e, i := x.l.Front(), 0; e != nil && i < 1000; e, i = e.Next(), i+1 {
		seq = append(seq, e.Value)
	}
	return map[string]interface{}{"len": x.l.Len(), "front": nodeRes(x.l.Front()), "back": nodeRes(x.l.Back()), "seq": seq, "all": rangeAll(x.held, seq)}
}
func (x *ad) Struct() interface{} { return x.Obs() }
func (x *ad) Drain() interface{} {
	out := []int{}
	for i := 0; i < 1000; i++ {
		e := x.l.RemoveFront()
		if e == nil {
			break
		}
		out = append(out, e.Value)
	}
	return out
}

type gen struct{}

func (gen) Init(rng *rand.Rand) json.RawMessage { return json.RawMessage(`{}`) }
func (gen) Next(rng *rand.Rand, step int) core.Op {
	idx := func() int { return rng.Intn(14) - 2 }
	switch x := rng.Intn(16); {
	case x < 3:
		return core.MkOp("PushFront", 1+rng.Intn(9))
	case x < 6:
		return core.MkOp("PushBack", 1+rng.Intn(9))
	case x < 9:
		return core.MkOp("InsertAt", idx(), 1+rng.Intn(9))
	case x < 10:
		return core.MkOp("Get", idx())
	case x < 12:
		return core.MkOp("Remove", idx())
	case x < 13:
		return core.MkOp("RemoveFront")
	default:
		return core.MkOp("Swap", idx(), idx())
	}
}

func main() { core.Main("SList", func() core.Adapter { return &ad{} }, gen{}) }
