// Case runner for property C17 (rune-aware string helpers of strz/strs.go). Token strings from
// RuneOps.tla are concretised with several runes per width class (chosen from the seed), the
// real functions are called under recover, and their results compared with the concretisation
// of the positions the TLA+ definitions keep.
package main

import (
	"encoding/json"
	"hash/adler32"
	"hash/crc32"
	"hash/fnv"
	"math"
	"math/rand"
	"strings"
	"time"
	"unicode/utf8"

	"github.com/welllog/golib/strz"
	"verifharness/core"
)

// representatives per byte width; width 0 = a byte that is not valid UTF-8
var pool = map[int][]string{
	1: {"a", "Z", "0", "_", " ", "~", "\x00", "\x7f", "b", "q"},
	2: {"é", "ß", "ñ", "\u0080", "߿", "Ω", "ü", "ø"},
	3: {"中", "文", "�", "ࠀ", "￿", "€", "あ", "한"},
	4: {"😀", "\U00010000", "\U0010FFFF", "𝄞", "🚀", "𐍈"},
	0: {"\xff", "\x80", "\xc0", "\xe4\xb8", "\xf0\x9f", "\xed\xa0\x80", "\xfe"},
}

// concretise picks one representative per position; reps gives the variant number
func concretise(ws []int, rng *rand.Rand) []string {
	out := make([]string, len(ws))
	for i, w := range ws {
		p := pool[w]
		out[i] = p[rng.Intn(len(p))]
	}
	return out
}

func join(toks []string, idx []int, mask1, maskN string) string {
	var b strings.Builder
	for _, i := range idx {
		switch {
		case i == 0:
			b.WriteString(mask1)
		case i == -1:
			b.WriteString(maskN)
		default:
			b.WriteString(toks[i-1])
		}
	}
	return b.String()
}

func run(c *core.Case, st *core.CaseStats, seed int64) {
	rng := rand.New(rand.NewSource(seed*1000003 + int64(st.Cases)))
	valid := c.Valid == nil || *c.Valid
	if c.Fn == "SnakeCamelPair" {
		runPair(c, st, rng)
		return
	}
	if c.Fn == "SnakeCamel" {
		runIdent(c, st, rng)
		return
	}
	ws := core.RawInts(c.S)
	nrep := 2
	if !valid {
		nrep = 3
	}
	for rep := 0; rep < nrep; rep++ {
		toks := concretise(ws, rng)
		if c.Fn == "RemoveRunes" {
			// the predicate sees runes, not bytes: a genuine U+FFFD could not be told from an invalid byte
			for i := range toks {
				if toks[i] == "\uFFFD" {
					toks[i] = "€"
				}
			}
		}
		in := strings.Join(toks, "")
		args := make([]int, len(c.A))
		for i := range c.A {
			args[i] = core.RawInt(c.A[i])
			if args[i] >= 1999999999 { // the specification's Huge / Huge - 1
				args[i] = math.MaxInt - (2000000000 - args[i])
			}
		}
		var got string
		var gotInt int
		mask1, maskN := []string{"*", "é", "中"}[rng.Intn(3)], []string{"**", "*é*", "……", "中文"}[rng.Intn(4)]
		call := func() {
			switch c.Fn {
			case "Sub":
				got = strz.Sub(in, args[0], args[1])
			case "Mask":
				m := mask1
				if args[2] == 1 {
					m = maskN
				}
				got = strz.Mask(in, m, args[0], args[1])
			case "SubByDisplay":
				got = strz.SubByDisplay(in, args[0])
			case "Rev":
				got = strz.Rev(in)
			case "Len":
				gotInt = strz.Len(in)
			case "RemoveRunes":
				w := args[0]
				got = strz.RemoveRunes(in, func(r rune) bool {
					if w == 0 {
						return r == utf8.RuneError
					}
					return r != utf8.RuneError && utf8.RuneLen(r) == w || (r == utf8.RuneError && w == 3)
				})
			default:
				panic("unknown fn " + c.Fn)
			}
		}
		st.Calls++
		msg, panicked, hung := core.GuardTimed(call, 20*time.Second)
		input := map[string]interface{}{"s": in, "bytes": []byte(in), "args": args, "mask1": mask1, "maskN": maskN}
		if hung {
			st.Add(core.Mismatch{Fn: c.Fn, Kind: "hang", Case: c, Input: input, Expected: "returns", Actual: msg})
			return
		}
		if panicked {
			st.Add(core.Mismatch{Fn: c.Fn, Kind: "panic", Case: c, Input: input, Expected: "no panic", Actual: msg})
			continue
		}
		core.Retain(st, c, c.Fn, input, got)
		if !valid {
			continue // only totality is promised for strings that are not valid UTF-8
		}
		if len(ws) >= 2 {
			st.Nontrivial++
		}
		if c.Fn == "Len" {
			if want := core.RawInts(c.Out)[0]; gotInt != want {
				st.Add(core.Mismatch{Fn: c.Fn, Kind: "value", Case: c, Input: input, Expected: want, Actual: gotInt})
			}
			continue
		}
		// the 3-byte class contains U+FFFD itself: RemoveRunes(width 3) with the predicate above removes it too (fine)
		want := join(toks, core.RawInts(c.Out), mask1, maskN)
		if got != want {
			st.Add(core.Mismatch{Fn: c.Fn, Kind: "value", Case: c, Input: input, Expected: want, Actual: got})
		} else if !utf8.ValidString(got) {
			st.Add(core.Mismatch{Fn: c.Fn, Kind: "value", Case: c, Input: input, Expected: "valid UTF-8", Actual: []byte(got)})
		}
	}
}

func runIdent(c *core.Case, st *core.CaseStats, rng *rand.Rand) {
	cls := core.RawStrs(c.S)
	for rep := 0; rep < 3; rep++ {
		var b strings.Builder
		for _, k := range cls {
			switch k {
			case "l":
				b.WriteByte(byte('a' + rng.Intn(26)))
			case "d":
				b.WriteByte(byte('0' + rng.Intn(10)))
			default:
				b.WriteByte('_')
			}
		}
		x := b.String()
		for _, up := range []bool{false, true} {
			var back string
			st.Calls++
			msg, panicked := core.Guard(func() {
				cc := strz.SnakeToCamelCase(x, up)
				if up {
					cc = strz.LcFirst(cc)
				}
				back = strz.CamelCaseToSnake(cc)
			})
			in := map[string]interface{}{"x": x, "firstUp": up}
			if panicked {
				st.Add(core.Mismatch{Fn: c.Fn, Kind: "panic", Case: c, Input: in, Expected: "no panic", Actual: msg})
			} else if back != x {
				st.Add(core.Mismatch{Fn: c.Fn, Kind: "value", Case: c, Input: in, Expected: x, Actual: back})
			} else {
				core.Retain(st, c, c.Fn, in, back)
			}
			st.Nontrivial++
		}
	}
}

// ---- pairs of identifiers that a 32-bit string hash cannot tell apart ------------------------------------------
var hashFamilies = map[string]func(string) uint32{
	"fnv1a32": func(s string) uint32 { h := fnv.New32a(); h.Write([]byte(s)); return h.Sum32() },
	"fnv132":  func(s string) uint32 { h := fnv.New32(); h.Write([]byte(s)); return h.Sum32() },
	"crc32":   func(s string) uint32 { return crc32.ChecksumIEEE([]byte(s)) },
	"crc32c":  func(s string) uint32 { return crc32.Checksum([]byte(s), crc32.MakeTable(crc32.Castagnoli)) },
	"adler32": func(s string) uint32 { return adler32.Checksum([]byte(s)) },
	"bkdr31": func(s string) uint32 {
		var h uint32
		for i := 0; i < len(s); i++ {
			h = h*31 + uint32(s[i])
		}
		return h
	},
	"bkdr131": func(s string) uint32 {
		var h uint32
		for i := 0; i < len(s); i++ {
			h = h*131 + uint32(s[i])
		}
		return h
	},
	"djb2": func(s string) uint32 {
		h := uint32(5381)
		for i := 0; i < len(s); i++ {
			h = h*33 + uint32(s[i])
		}
		return h
	},
	"sdbm": func(s string) uint32 {
		var h uint32
		for i := 0; i < len(s); i++ {
			h = uint32(s[i]) + (h << 6) + (h << 16) - h
		}
		return h
	},
	"elf": func(s string) uint32 {
		var h uint32
		for i := 0; i < len(s); i++ {
			h = (h << 4) + uint32(s[i])
			if g := h & 0xF0000000; g != 0 {
				h ^= g >> 24
				h &^= g
			}
		}
		return h
	},
	"murmur3_32": func(s string) uint32 {
		const c1, c2 = 0xcc9e2d51, 0x1b873593
		var h uint32
		n := len(s) / 4
		for i := 0; i < n; i++ {
			k := uint32(s[4*i]) | uint32(s[4*i+1])<<8 | uint32(s[4*i+2])<<16 | uint32(s[4*i+3])<<24
			k *= c1
			k = k<<15 | k>>17
			k *= c2
			h ^= k
			h = h<<13 | h>>19
			h = h*5 + 0xe6546b64
		}
		var k uint32
		t := s[4*n:]
		switch len(t) {
		case 3:
			k ^= uint32(t[2]) << 16
			fallthrough
		case 2:
			k ^= uint32(t[1]) << 8
			fallthrough
		case 1:
			k ^= uint32(t[0])
			k *= c1
			k = k<<15 | k>>17
			k *= c2
			h ^= k
		}
		h ^= uint32(len(s))
		h ^= h >> 16
		h *= 0x85ebca6b
		h ^= h >> 13
		h *= 0xc2b2ae35
		h ^= h >> 16
		return h
	},
}

func runPair(c *core.Case, st *core.CaseStats, rng *rand.Rand) {
	cls := core.RawStrs(c.S)
	var fam string
	json.Unmarshal(c.A[0], &fam)
	hf := hashFamilies[fam]
	mk := func() string {
		b := make([]byte, len(cls))
		for i, k := range cls {
			switch k {
			case "l":
				b[i] = byte('a' + rng.Intn(26))
			case "d":
				b[i] = byte('0' + rng.Intn(10))
			default:
				b[i] = '_'
			}
		}
		return string(b)
	}
	seen := map[uint32]string{}
	var x, y string
	for i := 0; i < 700000 && x == ""; i++ {
		s := mk()
		h := hf(s)
		if o, ok := seen[h]; ok && o != s {
			x, y = s, o
		}
		seen[h] = s
	}
	seen = nil
	if x == "" {
		return // no pair of this shape for this hash within the budget
	}
	st.Nontrivial++
	for _, ord := range [][2]string{{y, x}, {x, y}} {
		for _, up := range []bool{false, true} {
			var backs [2]string
			st.Calls += 2
			msg, panicked := core.Guard(func() {
				for k, v := range ord {
					cc := strz.SnakeToCamelCase(v, up)
					if up {
						cc = strz.LcFirst(cc)
					}
					backs[k] = strz.CamelCaseToSnake(cc)
				}
			})
			in := map[string]interface{}{"converted_first": ord[0], "then": ord[1], "firstUp": up, "indistinguishable_for": fam}
			if panicked {
				st.Add(core.Mismatch{Fn: c.Fn, Kind: "panic", Case: c, Input: in, Expected: "no panic", Actual: msg})
			} else if backs[0] != ord[0] || backs[1] != ord[1] {
				st.Add(core.Mismatch{Fn: c.Fn, Kind: "value", Case: c, Input: in, Expected: ord, Actual: backs})
			}
		}
	}
}

func main() { core.CasesMain("c17", run, nil) }
