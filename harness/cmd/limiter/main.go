// Conformance harness for goz.Limiter (property C19). The submitted functions are the
// instrumentation: they log enter / exit with a stamp from one shared atomic counter and block
// on gates the driver opens, so which functions are inside, and when they end, is chosen by the
// scenario. The logs are validated by TLC against LimiterTrace.tla. Only positive events can be
// violations; the single timing judgement is the watchdog (a step that does not happen within
// `patience` ends the scenario with a `stuck` event, which the trace spec rejects).
package main

import (
	"encoding/json"
	"flag"
	"fmt"
	"math/rand"
	"os"
	"runtime"
	"sort"
	"sync"
	"sync/atomic"
	"time"

	"github.com/welllog/golib/goz"
)

const patience = 20 * time.Second

// stuckOnce: a step did not happen within `patience`; goroutines may be left behind, so the driver stops after
// this scenario (its log already carries the `stuck` event that the trace spec rejects)
var stuckOnce bool
var churnRounds = 400

type event struct {
	at uint64
	m  map[string]interface{}
}

type run struct {
	clock  uint64
	mu     sync.Mutex
	events []event
	inside int32
	peak   int32
}

func (r *run) log(m map[string]interface{}) {
	at := atomic.AddUint64(&r.clock, 1)
	r.mu.Lock()
	r.events = append(r.events, event{at, m})
	r.mu.Unlock()
}

type scenario struct {
	Limit   int    `json:"limit"`
	Panics  []bool `json:"panics"`  // per task: panics instead of returning
	Ends    []int  `json:"ends"`    // per task, when it does not panic with a value: 0 return, 2 runtime.Goexit(), 3 panic(nil)
	Blocks  []bool `json:"blocks"`  // per task: waits for its gate (others run straight through)
	Order   []int  `json:"order"`   // order in which gates are opened
	WaitAt  int    `json:"wait_at"` // Wait() is called after this many submissions returned (>= len: after all)
	Jitter  int64  `json:"jitter"`
	Handler bool   `json:"handler"`
	HMode   int    `json:"hmode"` // 0: the driver's handler; 1: none (the library reports the panic itself); 2: goz.LogPanic; 3: set, then reset with nil
	PKind   int    `json:"pkind"`
	Depth   int    `json:"depth"` // hmode 2: the traceback depth given to goz.LogPanic
	Nils    []bool `json:"nils"` // per task: a nil func() is submitted (honoured only without a driver handler) // panic value: 0 the task number; 1 an error whose Error method panics; 2 a Stringer whose String method panics
}

// panic values that misbehave when they are printed
type badErr struct{ id int }

func (e *badErr) Error() string { panic("Error method of the panic value") }

type badStr struct{ id int }

func (b badStr) String() string { panic("String method of the panic value") }

// a panic value of an uncomparable type
type sliceVal []int

type nullLogger struct{ n int32 }

func (l *nullLogger) Error(args ...any) { atomic.AddInt32(&l.n, 1) }

func panicID(v any) any {
	switch x := v.(type) {
	case *badErr:
		return x.id
	case badStr:
		return x.id
	case sliceVal:
		return x[0]
	}
	return v
}

// wait until cond holds; false after `patience`
func await(cond func() bool) bool {
	deadline := time.Now().Add(patience)
	for !cond() {
		if time.Now().After(deadline) {
			return false
		}
		time.Sleep(50 * time.Microsecond)
	}
	return true
}

func runScenario(sc scenario, out func(map[string]interface{})) {
	r := &run{}
	k := len(sc.Panics)
	eff := sc.Limit
	if eff < 1 {
		eff = 3
	}
	r.log(map[string]interface{}{"ev": "new", "n": sc.Limit, "scenario": sc, "nohandler": sc.HMode != 0})
	l := goz.NewLimiter(sc.Limit)
	switch sc.HMode {
	case 0:
		l.SetPanicHandler(func(v any) { r.log(map[string]interface{}{"ev": "handler", "v": panicID(v)}) })
	case 2:
		l.SetPanicHandler(goz.LogPanic(&nullLogger{}, sc.Depth))
	case 3: // a handler configured and then reset to the built-in report
		l.SetPanicHandler(func(v any) { r.log(map[string]interface{}{"ev": "handler", "v": panicID(v)}) })
		l.SetPanicHandler(nil)
	}
	gates := make([]chan struct{}, k+eff+1)
	for i := range gates {
		gates[i] = make(chan struct{})
	}
	var entered, exited, returned int32
	body := func(i int, blocks, panics bool) func() {
		return func() {
			r.log(map[string]interface{}{"ev": "enter", "i": i})
			atomic.AddInt32(&entered, 1)
			if blocks {
				<-gates[i-1]
			}
			r.log(map[string]interface{}{"ev": "exit", "i": i, "panic": panics})
			atomic.AddInt32(&exited, 1)
			if panics {
				switch sc.PKind {
				case 1:
					var err error = &badErr{i}
					panic(err)
				case 2:
					panic(badStr{i})
				case 3:
					panic(sliceVal{i, i}) // a value of a type that cannot be compared with ==
				}
				panic(i)
			}
			// other ways for a function to end without returning normally: no panic value reaches the handler,
			// the slot must come back all the same
			if i-1 < len(sc.Ends) {
				switch sc.Ends[i-1] {
				case 2:
					runtime.Goexit()
				case 3:
					var nothing interface{}
					panic(nothing) // (module language version < 1.21: recover() yields nil)
				}
			}
		}
	}
	rng := rand.New(rand.NewSource(sc.Jitter))
	// submitter: Go blocks while all slots are taken
	subDone := make(chan struct{})
	go func() {
		for i := 1; i <= k; i++ {
			r.log(map[string]interface{}{"ev": "gocall", "i": i})
			if sc.HMode != 0 && i-1 < len(sc.Nils) && sc.Nils[i-1] {
				// a nil function: calling it panics inside the library's Recover, which must treat it as any other
				// panicking function (handler, slot and bookkeeping released)
				l.Go(nil)
				r.log(map[string]interface{}{"ev": "goret", "i": i})
				r.log(map[string]interface{}{"ev": "nilfn", "i": i})
				atomic.AddInt32(&returned, 1)
				continue
			}
			l.Go(body(i, sc.Blocks[i-1], sc.Panics[i-1]))
			r.log(map[string]interface{}{"ev": "goret", "i": i})
			atomic.AddInt32(&returned, 1)
		}
		close(subDone)
	}()
	// waiter
	waitDone := make(chan struct{})
	go func() {
		at := sc.WaitAt
		if at > k {
			at = k
		}
		if !await(func() bool { return int(atomic.LoadInt32(&returned)) >= at }) {
			return
		}
		r.log(map[string]interface{}{"ev": "waitcall"})
		l.Wait()
		r.log(map[string]interface{}{"ev": "waitret"})
		close(waitDone)
	}()
	// driver: open the gates in the scenario's order, each time after letting things settle a little
	for _, i := range sc.Order {
		if rng.Intn(2) == 0 {
			time.Sleep(time.Duration(rng.Intn(300)) * time.Microsecond)
		}
		close(gates[i-1])
	}
	stuck := func(what string) {
		r.log(map[string]interface{}{"ev": "stuck", "what": what})
		stuckOnce = true
	}
	ok := true
	select {
	case <-subDone:
	case <-time.After(patience):
		stuck("a Go call did not return although every earlier function was released")
		ok = false
	}
	if ok {
		select {
		case <-waitDone:
		case <-time.After(patience):
			stuck("Wait did not return although every function ended")
			ok = false
		}
	}
	if ok {
		// slot-leak probe: `eff` further functions must be able to be inside at the same time
		var in2 int32
		for j := 0; j < eff; j++ {
			id := k + 1 + j
			r.log(map[string]interface{}{"ev": "gocall", "i": id})
			done := make(chan struct{})
			go func() {
				l.Go(func() {
					r.log(map[string]interface{}{"ev": "enter", "i": id})
					atomic.AddInt32(&in2, 1)
					<-gates[k]
					r.log(map[string]interface{}{"ev": "exit", "i": id, "panic": false})
				})
				close(done)
			}()
			select {
			case <-done:
				r.log(map[string]interface{}{"ev": "goret", "i": id})
			case <-time.After(patience):
				stuck(fmt.Sprintf("slot leak: submission %d of %d after the scenario still blocked", j+1, eff))
				ok = false
			}
			if !ok {
				break
			}
		}
		if ok && !await(func() bool { return int(atomic.LoadInt32(&in2)) == eff }) {
			stuck("slot leak: fewer than limit functions can run together after the scenario")
			ok = false
		}
		close(gates[k])
		if ok {
			r.log(map[string]interface{}{"ev": "waitcall"})
			l.Wait()
			r.log(map[string]interface{}{"ev": "waitret"})
			r.log(map[string]interface{}{"ev": "end", "submitted": k + eff})
		}
	}
	r.mu.Lock()
	sort.Slice(r.events, func(a, b int) bool { return r.events[a].at < r.events[b].at })
	for _, e := range r.events {
		out(e.m)
	}
	r.mu.Unlock()
}

// timedScenario: all n (>= 2) slots are held by blocked functions, then Wait(timeout) expires; one more
// submission must still have to wait for a slot. Wait(timeout) is only the stimulus; the verdict is
// the positive event "enter while n functions are inside". The WaitGroup counter never returns to
// zero before the end, so the goroutine a timed Wait leaves behind is never woken early.
func timedScenario(rng *rand.Rand, out func(map[string]interface{})) {
	r := &run{}
	n := 2 + rng.Intn(2)
	r.log(map[string]interface{}{"ev": "new", "n": n, "scenario": map[string]interface{}{"timed": true, "limit": n}})
	l := goz.NewLimiter(n)
	l.SetPanicHandler(func(v any) { r.log(map[string]interface{}{"ev": "handler", "v": v}) })
	gates := make([]chan struct{}, n+1)
	for i := range gates {
		gates[i] = make(chan struct{})
	}
	var entered int32
	mk := func(i int) func() {
		return func() {
			r.log(map[string]interface{}{"ev": "enter", "i": i})
			atomic.AddInt32(&entered, 1)
			<-gates[i-1]
			r.log(map[string]interface{}{"ev": "exit", "i": i, "panic": false})
		}
	}
	for i := 1; i <= n; i++ {
		r.log(map[string]interface{}{"ev": "gocall", "i": i})
		l.Go(mk(i))
		r.log(map[string]interface{}{"ev": "goret", "i": i})
	}
	ok := await(func() bool { return int(atomic.LoadInt32(&entered)) == n })
	if ok {
		l.Wait(time.Duration(1+rng.Intn(3)) * time.Millisecond) // expires: everybody is still inside
		extra := n + 1
		r.log(map[string]interface{}{"ev": "gocall", "i": extra})
		done := make(chan struct{})
		go func() {
			l.Go(mk(extra))
			r.log(map[string]interface{}{"ev": "goret", "i": extra})
			close(done)
		}()
		time.Sleep(20 * time.Millisecond) // give a wrongly admitted function time to enter (stimulus only)
		close(gates[0])                   // one slot is freed while the others stay inside
		select {
		case <-done:
		case <-time.After(patience):
			stuckOnce = true
			r.log(map[string]interface{}{"ev": "stuck", "what": "a Go call did not return after a slot was freed"})
			ok = false
		}
		if ok && !await(func() bool { return int(atomic.LoadInt32(&entered)) == n+1 }) {
			stuckOnce = true
			r.log(map[string]interface{}{"ev": "stuck", "what": "the extra function never started"})
			ok = false
		}
	}
	for j := 0; j <= n; j++ { // release everybody (gate 0 may be open already)
		func() {
			defer func() { recover() }()
			close(gates[j])
		}()
	}
	if ok {
		r.log(map[string]interface{}{"ev": "waitcall"})
		l.Wait()
		r.log(map[string]interface{}{"ev": "waitret"})
		r.log(map[string]interface{}{"ev": "end", "submitted": n + 1})
	}
	r.mu.Lock()
	sort.Slice(r.events, func(a, b int) bool { return r.events[a].at < r.events[b].at })
	for _, e := range r.events {
		out(e.m)
	}
	r.mu.Unlock()
}

// churnScenario: k rounds on ONE limiter; in each round a function that returns at once and then a function that
// blocks on a gate are submitted back to back (the completion of the first races with the submission of the
// second), then Wait() is called. Wait must not return before the blocked function has ended - whatever the
// race did to the bookkeeping. Each round is judged on its own (`new` event), the limiter is quiescent between rounds.
// reuseScenario: one limiter over several busy periods. A period ends either with Wait() (judged), or with a timed
// Wait that expires while everything is still gated, after which the limiter drains with nobody waiting. The panic
// handler may be replaced between periods (by the submitting goroutine): later submissions must report to the new
// one. After a period that drained unobserved the driver pauses before it submits again, so that the goroutine an
// expired timed Wait leaves parked in WaitGroup.Wait has returned (reusing a WaitGroup before that is a misuse).
func reuseScenario(rng *rand.Rand, out func(map[string]interface{})) {
	r := &run{}
	n := 1 + rng.Intn(3)
	r.log(map[string]interface{}{"ev": "new", "n": n, "scenario": map[string]interface{}{"reuse": true, "limit": n}})
	l := goz.NewLimiter(n)
	h := 0
	setHandler := func() {
		h++
		id := h
		l.SetPanicHandler(func(v any) { r.log(map[string]interface{}{"ev": "handler", "v": v, "h": id}) })
		r.log(map[string]interface{}{"ev": "sethandler", "h": id})
	}
	if rng.Intn(3) != 0 {
		setHandler()
	}
	next, total := 1, 0
	var ended int32
	ok := true
	periods := 2 + rng.Intn(3)
	for p := 0; p < periods && ok; p++ {
		if h == 0 || (p > 0 && rng.Intn(2) == 0) {
			setHandler() // (also: a handler configured only after earlier functions were submitted)
		}
		count := 1 + rng.Intn(n)
		gate := make(chan struct{})
		var entered int32
		for j := 0; j < count; j++ {
			id := next
			next++
			total++
			pan := rng.Intn(3) == 0
			r.log(map[string]interface{}{"ev": "gocall", "i": id})
			l.Go(func() {
				r.log(map[string]interface{}{"ev": "enter", "i": id})
				atomic.AddInt32(&entered, 1)
				<-gate
				r.log(map[string]interface{}{"ev": "exit", "i": id, "panic": pan})
				atomic.AddInt32(&ended, 1)
				if pan {
					panic(id)
				}
			})
			r.log(map[string]interface{}{"ev": "goret", "i": id})
		}
		if !await(func() bool { return int(atomic.LoadInt32(&entered)) == count }) {
			stuckOnce = true
			r.log(map[string]interface{}{"ev": "stuck", "what": "submitted functions did not start although slots were free"})
			close(gate)
			ok = false
			break
		}
		if p == periods-1 || rng.Intn(2) == 0 {
			waitDone := make(chan struct{})
			go func() {
				r.log(map[string]interface{}{"ev": "waitcall"})
				l.Wait()
				r.log(map[string]interface{}{"ev": "waitret"})
				close(waitDone)
			}()
			select { // give a Wait that is going to return early the time to do so (stimulus only)
			case <-waitDone:
			case <-time.After(300 * time.Microsecond):
			}
			close(gate)
			select {
			case <-waitDone:
			case <-time.After(patience):
				stuckOnce = true
				r.log(map[string]interface{}{"ev": "stuck", "what": "Wait did not return although every function ended"})
				ok = false
			}
		} else {
			l.Wait(time.Duration(200+rng.Intn(800)) * time.Microsecond) // expires: everything is still gated
			close(gate)
			if !await(func() bool { return int(atomic.LoadInt32(&ended)) == total }) {
				stuckOnce = true
				r.log(map[string]interface{}{"ev": "stuck", "what": "released functions did not end"})
				ok = false
			}
			time.Sleep(30 * time.Millisecond)
		}
	}
	if ok {
		r.log(map[string]interface{}{"ev": "end", "submitted": total})
	}
	r.mu.Lock()
	sort.Slice(r.events, func(a, b int) bool { return r.events[a].at < r.events[b].at })
	for _, e := range r.events {
		out(e.m)
	}
	r.mu.Unlock()
}

// multiScenario: several goroutines submit to one limiter at the same time (Wait only after all of them are done).
// The functions log enter / exit around a very short body, so the slots turn over constantly and the submitters
// race for the last free one; the verdict is the usual one (never more than the limit inside by the stamps).
func multiScenario(rng *rand.Rand, out func(map[string]interface{})) {
	r := &run{}
	n := 1 + rng.Intn(3)
	subs, per := 2+rng.Intn(3), 70
	r.log(map[string]interface{}{"ev": "new", "n": n, "scenario": map[string]interface{}{"submitters": subs, "limit": n}})
	l := goz.NewLimiter(n)
	l.SetPanicHandler(func(v any) { r.log(map[string]interface{}{"ev": "handler", "v": v}) })
	var wg sync.WaitGroup
	var spin int32
	for sb := 0; sb < subs; sb++ {
		wg.Add(1)
		go func(sb int, seed int64) {
			defer wg.Done()
			lr := rand.New(rand.NewSource(seed))
			for k := 0; k < per; k++ {
				id := 1 + sb*per + k
				w := 200 + lr.Intn(3000)
				r.log(map[string]interface{}{"ev": "gocall", "i": id})
				l.Go(func() {
					r.log(map[string]interface{}{"ev": "enter", "i": id})
					for j := 0; j < w; j++ {
						atomic.AddInt32(&spin, 1)
					}
					r.log(map[string]interface{}{"ev": "exit", "i": id, "panic": false})
				})
				r.log(map[string]interface{}{"ev": "goret", "i": id})
			}
		}(sb, rng.Int63())
	}
	done := make(chan struct{})
	go func() { wg.Wait(); close(done) }()
	ok := true
	select {
	case <-done:
	case <-time.After(patience):
		stuckOnce = true
		r.log(map[string]interface{}{"ev": "stuck", "what": "concurrent submitters did not get through"})
		ok = false
	}
	if ok {
		wd := make(chan struct{})
		go func() {
			r.log(map[string]interface{}{"ev": "waitcall"})
			l.Wait()
			r.log(map[string]interface{}{"ev": "waitret"})
			close(wd)
		}()
		select {
		case <-wd:
			r.log(map[string]interface{}{"ev": "end", "submitted": subs * per})
		case <-time.After(patience):
			stuckOnce = true
			r.log(map[string]interface{}{"ev": "stuck", "what": "Wait did not return although every function ended"})
		}
	}
	r.mu.Lock()
	sort.Slice(r.events, func(a, b int) bool { return r.events[a].at < r.events[b].at })
	for _, e := range r.events {
		out(e.m)
	}
	r.mu.Unlock()
}

func churnScenario(rng *rand.Rand, k int, out func(map[string]interface{})) {
	n := 1 + rng.Intn(3)
	l := goz.NewLimiter(n)
	var r *run
	l.SetPanicHandler(func(v any) { r.log(map[string]interface{}{"ev": "handler", "v": v}) })
	flush := func() {
		r.mu.Lock()
		sort.Slice(r.events, func(a, b int) bool { return r.events[a].at < r.events[b].at })
		for _, e := range r.events {
			out(e.m)
		}
		r.mu.Unlock()
	}
	for round := 0; round < k && !stuckOnce; round++ {
		r = &run{}
		rr := r
		r.log(map[string]interface{}{"ev": "new", "n": n, "scenario": map[string]interface{}{"churn_round": round, "limit": n}})
		gate := make(chan struct{})
		quicks := 1 + rng.Intn(2)
		if quicks > n {
			quicks = n
		}
		// the quick functions spin until the submitter is about to make its next submission, so that their
		// completion (slot and bookkeeping release) runs at the same moment as the next Go
		var release int32
		for i := 1; i <= quicks; i++ {
			id := i
			rr.log(map[string]interface{}{"ev": "gocall", "i": id})
			l.Go(func() {
				rr.log(map[string]interface{}{"ev": "enter", "i": id})
				// (the exit stamp is taken before the spin: an earlier stamp only makes the checks more conservative,
				// and nothing but the return itself lies between the release and the library's own bookkeeping)
				rr.log(map[string]interface{}{"ev": "exit", "i": id, "panic": false})
				for atomic.LoadInt32(&release) == 0 {
				}
			})
			rr.log(map[string]interface{}{"ev": "goret", "i": id})
		}
		last := quicks + 1
		rr.log(map[string]interface{}{"ev": "gocall", "i": last}) // (stamped before the release: earlier than the call itself)
		atomic.StoreInt32(&release, 1)
		for spin := rng.Intn(60); spin > 0; spin-- { // sweep the offset between the completions and the next submission (0 .. a few microseconds)
			_ = atomic.LoadInt32(&release)
		}
		l.Go(func() {
			rr.log(map[string]interface{}{"ev": "enter", "i": last})
			<-gate
			rr.log(map[string]interface{}{"ev": "exit", "i": last, "panic": false})
		})
		rr.log(map[string]interface{}{"ev": "goret", "i": last})
		waitDone := make(chan struct{})
		go func() {
			rr.log(map[string]interface{}{"ev": "waitcall"})
			l.Wait()
			rr.log(map[string]interface{}{"ev": "waitret"})
			close(waitDone)
		}()
		// give a Wait that is going to return early the time to do so (stimulus only), then release the function
		select {
		case <-waitDone:
		case <-time.After(60 * time.Microsecond):
		}
		close(gate)
		select {
		case <-waitDone:
			rr.log(map[string]interface{}{"ev": "end", "submitted": last})
		case <-time.After(patience):
			stuckOnce = true
			rr.log(map[string]interface{}{"ev": "stuck", "what": "Wait did not return although every function ended"})
		}
		flush()
	}
}

func main() {
	flag.IntVar(&churnRounds, "churn", 400, "rounds per churn scenario")
	outp := flag.String("out", ".", "output dir")
	n := flag.Int("n", 200, "scenarios")
	seed := flag.Int64("seed", 1, "seed")
	flag.Parse()
	f, err := os.Create(*outp + "/limiter_traces.ndjson")
	if err != nil {
		fmt.Fprintln(os.Stderr, err)
		os.Exit(2)
	}
	defer f.Close()
	rng := rand.New(rand.NewSource(*seed))
	events := 0
	var samples []interface{}
	t0 := time.Now()
	for s := 0; s < *n; s++ {
		limits := []int{1, 2, 3, 1, 2, 4, 0, -1, -5}
		sc := scenario{Limit: limits[rng.Intn(len(limits))], Jitter: rng.Int63(), Handler: true,
			HMode: []int{0, 0, 0, 1, 2, 3}[rng.Intn(6)], PKind: []int{0, 0, 1, 2, 3, 3}[rng.Intn(6)],
			Depth: []int{0, 1, 3, 31, 32, 33, 64, 1000}[rng.Intn(8)]}
		k := 1 + rng.Intn(7)
		for i := 0; i < k; i++ {
			sc.Panics = append(sc.Panics, rng.Intn(3) == 0)
			sc.Blocks = append(sc.Blocks, rng.Intn(4) != 0)
			sc.Ends = append(sc.Ends, []int{0, 0, 0, 2, 3}[rng.Intn(5)])
			sc.Nils = append(sc.Nils, rng.Intn(6) == 0)
		}
		sc.Order = rng.Perm(k)
		for i := range sc.Order {
			sc.Order[i]++
		}
		sc.WaitAt = k // (Wait concurrent with Go is a misuse of the underlying WaitGroup: never done)
		if stuckOnce {
			break
		}
		if s%40 == 7 {
			churnScenario(rng, churnRounds, func(m map[string]interface{}) {
				b, _ := json.Marshal(m)
				f.Write(b)
				f.Write([]byte("\n"))
				events++
			})
			continue
		}
		if s%10 == 3 {
			multiScenario(rng, func(m map[string]interface{}) {
				b, _ := json.Marshal(m)
				f.Write(b)
				f.Write([]byte("\n"))
				events++
			})
			continue
		}
		if s%5 == 2 {
			reuseScenario(rng, func(m map[string]interface{}) {
				b, _ := json.Marshal(m)
				f.Write(b)
				f.Write([]byte("\n"))
				events++
			})
			continue
		}
		if s%5 == 4 {
			timedScenario(rng, func(m map[string]interface{}) {
				b, _ := json.Marshal(m)
				f.Write(b)
				f.Write([]byte("\n"))
				events++
			})
			continue
		}
		// progress marker so that a crash (unrecovered panic) can be attributed
		b, _ := json.Marshal(sc)
		os.WriteFile(*outp+"/limiter_current.json", b, 0o644)
		var tr []map[string]interface{}
		runScenario(sc, func(m map[string]interface{}) {
			b, _ := json.Marshal(m)
			f.Write(b)
			f.Write([]byte("\n"))
			events++
			tr = append(tr, m)
		})
		if s < 2 {
			samples = append(samples, tr)
		}
		if stuckOnce {
			break
		}
	}
	b, _ := json.Marshal(map[string]interface{}{"scenarios": *n, "events": events, "samples": samples, "wall_s": time.Since(t0).Seconds()})
	os.WriteFile(*outp+"/limiter_stats.json", b, 0o644)
	fmt.Printf("limiter: scenarios=%d events=%d\n", *n, events)
}
