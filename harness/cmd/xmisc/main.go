// Case runner for extra X02 (sortz, mathz, strz.KeyGenerator, IPv4 helpers, mapz.Body); cases from Misc.tla.
package main

import (
	"context"
	"encoding/json"
	"fmt"
	"io"
	"runtime"
	"strconv"
	"strings"
	"time"

	"github.com/welllog/golib/ctxz"
	"github.com/welllog/golib/goz"
	"github.com/welllog/golib/mapz"
	"github.com/welllog/golib/mathz"
	"github.com/welllog/golib/sortz"
	"github.com/welllog/golib/strz"
	"verifharness/core"
)

type el struct{ K, I int }

func idx(xs []el) []int {
	out := make([]int, len(xs))
	for i, e := range xs {
		out[i] = e.I
	}
	return out
}

func eqInts(a, b []int) bool {
	if len(a) != len(b) {
		return false
	}
	for i := range a {
		if a[i] != b[i] {
			return false
		}
	}
	return true
}

func run(c *core.Case, st *core.CaseStats, seed int64) {
	rep := func(fn, kind string, in, exp, act interface{}) {
		st.Add(core.Mismatch{Fn: fn, Kind: kind, Case: c, Input: in, Expected: exp, Actual: act})
	}
	guard := func(fn string, in interface{}, f func()) bool {
		st.Calls++
		msg, p, hung := core.GuardTimed(f, 20*time.Second)
		if hung {
			rep(fn, "hang", in, "returns", msg)
			return false
		}
		if p {
			rep(fn, "panic", in, "no panic", msg)
			return false
		}
		return true
	}
	switch c.Fn {
	case "sort":
		ks := core.RawInts(c.S)
		var o struct{ Asc, Desc []int }
		json.Unmarshal(c.Out, &o)
		if len(ks) > 1 {
			st.Nontrivial++
		}
		mk := func() []el {
			xs := make([]el, len(ks))
			for i, k := range ks {
				xs[i] = el{k, i + 1}
			}
			return xs
		}
		key := func(e el) int { return e.K }
		keysOf := func(order []int) []int {
			out := make([]int, len(order))
			for i, p := range order {
				out[i] = ks[p-1]
			}
			return out
		}
		// permutation with the keys in order (any order among equal keys)
		okPerm := func(xs []el, wantKeys []int) bool {
			seen := map[int]bool{}
			for i, e := range xs {
				if e.I < 1 || e.I > len(ks) || seen[e.I] || ks[e.I-1] != e.K || e.K != wantKeys[i] {
					return false
				}
				seen[e.I] = true
			}
			return len(xs) == len(ks)
		}
		a := append([]int{}, ks...)
		if guard("Asc", ks, func() { sortz.Asc(a) }) && !eqInts(a, keysOf(o.Asc)) {
			rep("Asc", "value", ks, keysOf(o.Asc), a)
		}
		d := append([]int{}, ks...)
		if guard("Desc", ks, func() { sortz.Desc(d) }) && !eqInts(d, keysOf(o.Desc)) {
			rep("Desc", "value", ks, keysOf(o.Desc), d)
		}
		x := mk()
		if guard("AscByKey", ks, func() { sortz.AscByKey(x, key) }) && !okPerm(x, keysOf(o.Asc)) {
			rep("AscByKey", "value", ks, "a permutation with ascending keys", x)
		}
		x = mk()
		if guard("DescByKey", ks, func() { sortz.DescByKey(x, key) }) && !okPerm(x, keysOf(o.Desc)) {
			rep("DescByKey", "value", ks, "a permutation with descending keys", x)
		}
		x = mk()
		if guard("AscStableByKey", ks, func() { sortz.AscStableByKey(x, key) }) && !eqInts(idx(x), o.Asc) {
			rep("AscStableByKey", "value", ks, o.Asc, idx(x))
		}
		x = mk()
		if guard("DescStableByKey", ks, func() { sortz.DescStableByKey(x, key) }) && !eqInts(idx(x), o.Desc) {
			rep("DescStableByKey", "value", ks, o.Desc, idx(x))
		}
	case "pow":
		a := core.RawInts(c.S)
		want := core.RawInts(c.Out)[0]
		st.Nontrivial++
		var got int
		if guard("Pow", a, func() { got = mathz.Pow(a[0], uint(a[1])) }) && got != want {
			rep("Pow", "value", a, want, got)
		}
	case "int1":
		n := core.RawInts(c.S)[0]
		var o struct {
			Abs    int
			Even   bool
			Lowbit int
		}
		json.Unmarshal(c.Out, &o)
		st.Nontrivial++
		st.Calls += 3
		if g := mathz.Abs(n); g != o.Abs {
			rep("Abs", "value", n, o.Abs, g)
		}
		if g := mathz.IsEven(n); g != o.Even {
			rep("IsEven", "value", n, o.Even, g)
		}
		if g := mathz.MinBitApprox(n); g != o.Lowbit {
			rep("MinBitApprox", "value", n, o.Lowbit, g)
		}
	case "nat1":
		n := core.RawInts(c.S)[0]
		var o struct {
			Bits    int
			Pow2    bool
			Highbit int
			Bin     []int
		}
		json.Unmarshal(c.Out, &o)
		st.Nontrivial++
		st.Calls += 6
		if g := mathz.BitCount(n); g != o.Bits {
			rep("BitCount", "value", n, o.Bits, g)
		}
		if g := mathz.BitCount(uint8(n)); n < 256 && g != o.Bits {
			rep("BitCount[uint8]", "value", n, o.Bits, g)
		}
		if g := mathz.BitCount(int64(n)); g != o.Bits {
			rep("BitCount[int64]", "value", n, o.Bits, g)
		}
		if g := mathz.IsPower2(uint(n)); g != o.Pow2 {
			rep("IsPower2", "value", n, o.Pow2, g)
		}
		if n > 0 {
			if g := mathz.MaxBitApprox(n); g != o.Highbit {
				rep("MaxBitApprox", "value", n, o.Highbit, g)
			}
		}
		var w strings.Builder
		for _, b := range o.Bin {
			w.WriteString(strconv.Itoa(b))
		}
		if g := mathz.Binary(n); g != w.String() {
			rep("Binary", "value", n, w.String(), g)
		}
	case "agg":
		xs := core.RawInts(c.S)
		var o struct{ Max, Min, Sum int }
		json.Unmarshal(c.Out, &o)
		st.Calls += 3
		if len(xs) > 1 {
			st.Nontrivial++
		}
		if g := mathz.Max(xs...); g != o.Max {
			rep("Max", "value", xs, o.Max, g)
		}
		if g := mathz.Min(xs...); g != o.Min {
			rep("Min", "value", xs, o.Min, g)
		}
		if g := mathz.Sum(xs...); g != o.Sum {
			rep("Sum", "value", xs, o.Sum, g)
		}
	case "ctx":
		// extra X06: a chain of contexts with ctxz.WithoutCancel layers (CtxTree.tla)
		kinds := core.RawStrs(c.S)
		var order []int
		json.Unmarshal(c.A[0], &order)
		var want []struct {
			Done     bool   `json:"done"`
			Err      string `json:"err"`
			Deadline bool   `json:"deadline"`
			Vals     []int  `json:"vals"`
		}
		json.Unmarshal(c.Out, &want)
		in := map[string]interface{}{"chain": kinds, "cancelled_in_order": order}
		st.Nontrivial++
		guard("WithoutCancel", in, func() {
			type k1 struct{}
			type k2 struct{}
			type k3 struct{}
			ctxs := make([]context.Context, len(kinds)+1)
			cancels := make([]context.CancelFunc, len(kinds)+1)
			ctxs[0] = context.Background()
			for i, k := range kinds {
				p := ctxs[i]
				switch k {
				case "c":
					ctxs[i+1], cancels[i+1] = context.WithCancel(p)
				case "df":
					ctxs[i+1], cancels[i+1] = context.WithDeadline(p, time.Now().Add(24*time.Hour))
				case "dp":
					ctxs[i+1], cancels[i+1] = context.WithDeadline(p, time.Now().Add(-time.Hour))
				case "v1":
					ctxs[i+1] = context.WithValue(p, k1{}, 1)
				case "v1b":
					ctxs[i+1] = context.WithValue(p, k1{}, 2)
				case "v2":
					ctxs[i+1] = context.WithValue(p, k2{}, 3)
				case "n":
					ctxs[i+1] = ctxz.WithoutCancel(p)
				}
			}
			defer func() {
				for _, cf := range cancels {
					if cf != nil {
						cf()
					}
				}
			}()
			for _, i := range order {
				cancels[i]()
			}
			val := func(cx context.Context, key any) int {
				if v, ok := cx.Value(key).(int); ok {
					return v
				}
				return 0
			}
			for j := 1; j <= len(kinds); j++ {
				cx := ctxs[j]
				done := false
				select {
				case <-cx.Done():
					done = true
				default:
				}
				errS := "nil"
				switch cx.Err() {
				case nil:
				case context.Canceled:
					errS = "canceled"
				case context.DeadlineExceeded:
					errS = "deadline"
				default:
					errS = cx.Err().Error()
				}
				_, hasDl := cx.Deadline()
				vals := []int{val(cx, k1{}), val(cx, k2{}), val(cx, k3{})}
				w := want[j-1]
				if done != w.Done || errS != w.Err || hasDl != w.Deadline || !eqInts(vals, w.Vals) {
					rep("WithoutCancel", "value", in, map[string]interface{}{"layer": j, "obs": w},
						map[string]interface{}{"done": done, "err": errS, "deadline": hasDl, "vals": vals})
					return
				}
			}
		})
	case "swap":
		xs := core.RawInts(c.S)
		want := core.RawInts(c.Out)
		a, b := xs[0], xs[1]
		st.Calls++
		mathz.Swap(&a, &b)
		if a != want[0] || b != want[1] {
			rep("Swap", "value", xs, want, []int{a, b})
		}
	case "key":
		base := core.RawStrs(c.S)
		w1, w2, g := core.RawStrs(c.A[0]), core.RawStrs(c.A[1]), core.RawStrs(c.A[2])
		var o struct{ Self, C1, C2, C12, Spread1 []string }
		json.Unmarshal(c.Out, &o)
		if len(base) > 0 && len(w1) > 0 {
			st.Nontrivial++
		}
		for _, d := range []string{":", "--"} {
			in := map[string]interface{}{"delimiter": d, "base": base, "with1": w1, "with2": w2, "generate": g}
			guard("KeyGenerator", in, func() {
				k := strz.NewKeyGenerator(d, base...)
				c1 := k.With(w1...)
				c2 := k.With(w2...)
				c12 := c1.With(w2...)
				chk := func(name string, got string, want []string) {
					if got != strings.Join(want, d) {
						rep("KeyGenerator."+name, "value", in, strings.Join(want, d), got)
					}
				}
				// the children are used in an order different from the order they were derived in
				chk("With.With.Generate", c12.Generate(g...), o.C12)
				chk("sibling.Generate", c2.Generate(g...), o.C2)
				chk("With.Generate", c1.Generate(g...), o.C1)
				chk("Generate", k.Generate(g...), o.Self)
				sp := c1.Spread()
				if strings.Join(sp, "\x00") != strings.Join(o.Spread1, "\x00") {
					rep("KeyGenerator.Spread", "value", in, o.Spread1, sp)
				}
			})
		}
	case "ipv4":
		q := core.RawInts(c.S)
		st.Calls += 2
		st.Nontrivial++
		n := uint32(q[0])<<24 | uint32(q[1])<<16 | uint32(q[2])<<8 | uint32(q[3])
		txt := fmt.Sprintf("%d.%d.%d.%d", q[0], q[1], q[2], q[3])
		if g := strz.LongToIPv4(n); g != txt {
			rep("LongToIPv4", "value", q, txt, g)
		}
		if g := strz.IPv4ToLong(txt); g != n {
			rep("IPv4ToLong", "value", txt, n, g)
		}
	case "body":
		keys := core.RawStrs(c.S)
		var kind string
		json.Unmarshal(c.A[0], &kind)
		bufs := core.RawInts(c.A[1])
		var pairs [][]string
		json.Unmarshal(c.Out, &pairs)
		val := map[string]interface{}{"int": 5, "str": "x y", "bool": true, "nil": nil, "float": 1.5, "bytes": []byte("zb")}[kind]
		mk := func() mapz.Body {
			b := mapz.Body{}
			for _, k := range keys {
				b[k] = val
			}
			return b
		}
		if len(keys) > 1 {
			st.Nontrivial++
		}
		in := map[string]interface{}{"keys": keys, "kind": kind, "bufs": bufs}
		parts := make([]string, len(pairs))
		for i, p := range pairs {
			parts[i] = p[0] + "=" + p[1]
		}
		want := strings.Join(parts, "&")
		var got string
		if guard("Body.QueryString", in, func() { got = mk().QueryString(nil) }) && got != want {
			rep("Body.QueryString", "value", in, want, got)
		}
		// Read streams the JSON document of the entries, whatever the buffer sizes; afterwards the
		// query string is unchanged (the reader parked in the map is not an entry)
		doc, _ := json.Marshal(map[string]interface{}(mk()))
		guard("Body.Read", in, func() {
			b := mk()
			var acc []byte
			for i := 0; i < 10000; i++ {
				buf := make([]byte, bufs[i%len(bufs)])
				n, err := b.Read(buf)
				if n < 0 || n > len(buf) {
					rep("Body.Read", "value", in, "0 <= n <= len(p)", n)
					return
				}
				acc = append(acc, buf[:n]...)
				if err == io.EOF {
					break
				}
				if err != nil {
					rep("Body.Read", "value", in, "no error", err.Error())
					return
				}
			}
			if string(acc) != string(doc) {
				rep("Body.Read", "value", in, string(doc), string(acc))
			}
			n := 0
			b.All()(func(string, interface{}) bool { n++; return true })
			if n != len(keys) {
				rep("Body.All", "value", in, len(keys), n)
			}
			if q := b.QueryString(nil); q != want {
				rep("Body.QueryString after Read", "value", in, want, q)
			}
		})
	case "recover":
		var fo string
		var hp, hpan bool
		var sc []json.RawMessage
		json.Unmarshal(c.S, &sc)
		json.Unmarshal(sc[0], &fo)
		json.Unmarshal(sc[1], &hp)
		json.Unmarshal(sc[2], &hpan)
		co := make([]string, len(c.A))
		for i, r := range c.A {
			json.Unmarshal(r, &co[i])
		}
		var o struct {
			Log [][]interface{}
			Esc string
		}
		json.Unmarshal(c.Out, &o)
		st.Nontrivial++
		in := map[string]interface{}{"fn": fo, "panicFn": hp, "panicFn_panics": hpan, "cleanups": co}
		var log [][]interface{}
		esc := "none"
		guard("Recover", in, func() {
			done := make(chan struct{})
			go func() {
				defer func() {
					if p := recover(); p != nil {
						if p == interface{}("handler-boom") {
							esc = "handler"
						} else {
							esc = fmt.Sprintf("other: %v", p)
						}
					}
					close(done)
				}()
				var h func(interface{})
				if hp {
					h = func(p interface{}) {
						if s, ok := p.(string); ok && strings.HasPrefix(s, "cleanup panic: ") {
							k := -1
							if j := strings.LastIndex(s, "index: "); j >= 0 {
								k, _ = strconv.Atoi(s[j+7:])
							}
							log = append(log, []interface{}{"handler", "cleanup", k})
						} else {
							log = append(log, []interface{}{"handler", "fn"})
						}
						if hpan {
							panic("handler-boom")
						}
					}
				}
				cl := make([]func(), len(co))
				for i := range co {
					i := i
					cl[i] = func() {
						log = append(log, []interface{}{"cleanup", i + 1})
						if co[i] == "panic" {
							panic("cleanup-boom")
						}
					}
				}
				goz.Recover(func() {
					log = append(log, []interface{}{"fn"})
					switch fo {
					case "panic":
						panic("fn-boom")
					case "goexit":
						runtime.Goexit()
					}
				}, h, cl...)
			}()
			<-done
		})
		got, _ := json.Marshal(log)
		want, _ := json.Marshal(o.Log)
		if len(log) == 0 {
			got = []byte("[]")
		}
		if string(got) != string(want) || esc != o.Esc {
			rep("Recover", "value", in, map[string]interface{}{"log": o.Log, "escapes": o.Esc}, map[string]interface{}{"log": log, "escapes": esc})
		}
	default:
		panic("unknown case kind " + c.Fn)
	}
}

func main() { core.CasesMain("xmisc", run, nil) }
