//go:build !nowb

package main

import "github.com/welllog/golib/ringz"

func (a *ad) Struct() interface{} {
	vals, h, t, c := ringz.VerifRingState(&a.r)
	return map[string]interface{}{"buf": vals, "head": h, "tail": t, "cap": c}
}
