// Conformance harness for ringz.Ring (property C10, sequential Ring part).
package main

import (
	"encoding/json"
	"math/rand"

	"github.com/welllog/golib/ringz"
	"verifharness/core"
)

type ad struct {
	r ringz.Ring[int]
}

func (a *ad) Reset(s json.RawMessage) error {
	var st struct {
		Cap int `json:"cap"`
	}
	if err := json.Unmarshal(s, &st); err != nil {
		return err
	}
	a.r = ringz.New[int](st.Cap)
	return nil
}

func (a *ad) Apply(op core.Op) (interface{}, error) {
	switch op.N {
	case "Push":
		return []interface{}{a.r.Push(core.ArgInt(op, 0))}, nil
	case "Pop":
		v, ok := a.r.Pop()
		return []interface{}{v, ok}, nil
	case "Peek":
		v, ok := a.r.Peek()
		return []interface{}{v, ok}, nil
	case "PushWithExpand":
		a.r.PushWithExpand(core.ArgInt(op, 0))
		return []interface{}{}, nil
	case "Recap":
		return []interface{}{a.r.Recap(core.ArgInt(op, 0))}, nil
	case "Query":
		return []interface{}{a.r.Len(), a.r.IsEmpty(), a.r.IsFull(), a.r.Cap()}, nil
	}
	panic("unknown op " + op.N)
}

func (a *ad) Obs() interface{} {
	v, ok := a.r.Peek()
	return map[string]interface{}{"len": a.r.Len(), "cap": a.r.Cap(), "empty": a.r.IsEmpty(), "full": a.r.IsFull(),
		"peek": []interface{}{v, ok}}
}

func (a *ad) Drain() interface{} {
	out := []int{}
	for i := 0; i < 2*a.r.Cap()+4; i++ {
		v, ok := a.r.Pop()
		if !ok {
			break
		}
		out = append(out, v)
	}
	return out
}

type gen struct{}

func (gen) Init(rng *rand.Rand) json.RawMessage {
	b, _ := json.Marshal(map[string]int{"cap": 1 + rng.Intn(6)})
	return b
}

func (gen) Next(rng *rand.Rand, step int) core.Op {
	switch x := rng.Intn(20); {
	case x < 6:
		return core.MkOp("Push", 1+rng.Intn(9))
	case x < 10:
		return core.MkOp("Pop")
	case x < 11:
		return core.MkOp("Peek")
	case x < 13:
		return core.MkOp("PushWithExpand", 1+rng.Intn(9))
	case x < 17:
		return core.MkOp("Recap", rng.Intn(14)-1)
	default:
		return core.MkOp("Query")
	}
}

func main() { core.Main("Ring", func() core.Adapter { return &ad{} }, gen{}) }
