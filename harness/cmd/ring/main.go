// Conformance harness for ringz.Ring (property C10, sequential Ring part).
package main

import (
	"encoding/json"
	"math/rand"

	"github.com/welllog/golib/ringz"
	"verifharness/core"
)

type ad struct {
	r ringz.Ring[int]
}

func (a *ad) Reset(s json.RawMessage) error {
	var st struct {
		Cap int `json:"cap"`
	}
	if err := json.Unmarshal(s, &st); err != nil {
		return err
	}
	a.r = ringz.New[int](st.Cap)
	return nil
}

func (a *ad) Apply(op core.Op) (interface{}, error) {
	switch op.N {
	case "Push":
		return []interface{}{a.r.Push(core.ArgInt(op, 0))}, nil
	case "Pop":
		v, ok := a.r.Pop()
		return []interface{}{v, ok}, nil
	case "Peek":
		v, ok := a.r.Peek()
		return []interface{}{v, ok}, nil
	case "PushWithExpand":
		a.r.PushWithExpand(core.ArgInt(op, 0))
		return []interface{}{a.r.Cap()}, nil
	case "PushN":
		k, b, m := core.ArgInt(op, 0), core.ArgInt(op, 1), 0
		for i := 1; i <= k; i++ {
			if a.r.Push(b + i) {
				m++
			}
		}
		return []interface{}{m}, nil
	case "PopN":
		out := []interface{}{}
		for i := 0; i < core.ArgInt(op, 0); i++ {
			v, ok := a.r.Pop()
			if !ok {
				break
			}
			out = append(out, v)
		}
		return out, nil
	case "Recap":
		return []interface{}{a.r.Recap(core.ArgInt(op, 0))}, nil
	case "Query":
		return []interface{}{a.r.Len(), a.r.IsEmpty(), a.r.IsFull(), a.r.Cap()}, nil
	}
	panic("unknown op " + op.N)
}

func (a *ad) Obs() interface{} {
	v, ok := a.r.Peek()
	return map[string]interface{}{"len": a.r.Len(), "cap": a.r.Cap(), "empty": a.r.IsEmpty(), "full": a.r.IsFull(),
		"peek": []interface{}{v, ok}}
}

func (a *ad) Drain() interface{} {
	out := []int{}
	for i := 0; i < 2*a.r.Cap()+4; i++ {
		v, ok := a.r.Pop()
		if !ok {
			break
		}
		out = append(out, v)
	}
	return out
}

type gen struct {
	big  int // > 0: a large ring of this capacity, driven through a fixed opening (see Next)
	rot  int
	base int
}

func (g *gen) Init(rng *rand.Rand) json.RawMessage {
	*g = gen{}
	c := 1 + rng.Intn(6)
	if rng.Intn(8) == 0 {
		// a large ring whose head is moved deep into the buffer before the ring is filled and expanded
		g.big = []int{70, 300, 600, 1100, 2100}[rng.Intn(5)]
		g.rot = []int{0, 1, g.big / 2, g.big*9/10 - 1, g.big - 1}[rng.Intn(5)]
		c = g.big
	}
	b, _ := json.Marshal(map[string]int{"cap": c})
	return b
}

func (g *gen) Next(rng *rand.Rand, step int) core.Op {
	if g.big > 0 {
		switch step {
		case 0:
			return core.MkOp("PushN", g.rot, 1000)
		case 1:
			return core.MkOp("PopN", g.rot)
		case 2:
			return core.MkOp("PushN", g.big, 5000)
		case 3, 4:
			return core.MkOp("PushWithExpand", 77+step)
		case 5:
			return core.MkOp("Query")
		case 6:
			return core.MkOp("PopN", g.big/2)
		case 7:
			return core.MkOp("PushN", 3*g.big, 20000) // fills what the expansion added, across the wrap
		case 8:
			return core.MkOp("PushWithExpand", 99)
		case 9:
			return core.MkOp("PopN", 5*g.big)
		}
		if rng.Intn(3) == 0 {
			return core.MkOp("PushN", rng.Intn(3*g.big), 30000+step*4000)
		}
		if rng.Intn(3) == 0 {
			return core.MkOp("PopN", rng.Intn(2*g.big))
		}
	}
	switch x := rng.Intn(20); {
	case x < 6:
		return core.MkOp("Push", 1+rng.Intn(9))
	case x < 10:
		return core.MkOp("Pop")
	case x < 11:
		return core.MkOp("Peek")
	case x < 13:
		return core.MkOp("PushWithExpand", 1+rng.Intn(9))
	case x < 17:
		return core.MkOp("Recap", rng.Intn(14)-1)
	default:
		return core.MkOp("Query")
	}
}

func main() { core.Main("Ring", func() core.Adapter { return &ad{} }, &gen{}) }
