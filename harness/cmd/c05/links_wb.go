//go:build !nowb

package main

import "github.com/welllog/golib/algz"

func linksOf(t *algz.Trie) map[string][]interface{} { return t.VerifLinks() }
