// Case runner for properties C05 (Trie queries) and C06 (Replace / ReplaceWithMask). The cases
// (pattern set, text or key, occurrences, covered stretches) come from MultiMatch.tla.
package main

import (
	"encoding/json"
	"os"
	"sort"
	"strings"
	"time"
	"unicode/utf8"

	"github.com/welllog/golib/algz"
	"verifharness/core"
)

var prop = "C05"

type textOut struct {
	Match bool  `json:"match"`
	Occ   []int `json:"occ"`  // pattern index * 100 + start
	Runs  []int `json:"runs"` // start * 10000 + stop * 100 + occurrences starting inside
}

func pats(c *core.Case) []string {
	var raw [][]int
	json.Unmarshal(mustJoin(c.A), &raw)
	out := make([]string, len(raw))
	for i, p := range raw {
		b := make([]byte, len(p))
		for j, x := range p {
			b[j] = byte(x)
		}
		out[i] = string(b)
	}
	return out
}

func mustJoin(a []json.RawMessage) []byte {
	parts := make([]string, len(a))
	for i, r := range a {
		parts[i] = string(r)
	}
	return []byte("[" + strings.Join(parts, ",") + "]")
}

func bytesStr(r json.RawMessage) string {
	xs := core.RawInts(r)
	b := make([]byte, len(xs))
	for i, x := range xs {
		b[i] = byte(x)
	}
	return string(b)
}

// build follows a build schedule of the specification: a sequence of batches of pattern indices (0 = the
// empty pattern), with BuildFailureLinks after every batch.
func build(ps []string, sched [][]int) *algz.Trie {
	t := new(algz.Trie)
	for _, batch := range sched {
		for _, i := range batch {
			if i == 0 {
				t.Insert("")
			} else {
				t.Insert(ps[i-1])
			}
		}
		t.BuildFailureLinks()
	}
	return t
}

// links: the failure links the specification (AhoImpl.tla) computes for a pattern set, compared with the links of the
// real trie under every build schedule (white box, through the export file of the scratch copy)
func runLinks(c *core.Case, st *core.CaseStats) {
	sym := []string{"", "a", "中", "é", "😀"}
	conv := func(xs []int) string {
		var b strings.Builder
		for _, x := range xs {
			b.WriteString(sym[x])
		}
		return b.String()
	}
	var rawP [][]int
	json.Unmarshal(c.S, &rawP)
	ps := make([]string, len(rawP))
	for i, p := range rawP {
		ps[i] = conv(p)
	}
	var pairs [][][]int
	json.Unmarshal(c.Out, &pairs)
	want := map[string]string{}
	for _, pr := range pairs {
		want[conv(pr[0])] = conv(pr[1])
	}
	n := len(ps)
	all := make([]int, n)
	rev := make([]int, 0, n+2)
	for i := range all {
		all[i] = i + 1
		rev = append(rev, n-i)
	}
	rev = append(rev, n, 0)
	h := n / 2
	if h == 0 {
		h = 1
	}
	scheds := [][][]int{{all}, {rev}, {all[:h], all[h:]}, {all[h:], all[:h]}, {all, {}}}
	st.Nontrivial++
	for _, sc := range scheds {
		in := map[string]interface{}{"patterns": ps, "build_schedule": sc}
		st.Calls++
		var got map[string][]interface{}
		msg, p := core.Guard(func() { got = linksOf(build(ps, sc)) })
		if p {
			st.Add(core.Mismatch{Fn: "BuildFailureLinks", Kind: "panic", Case: c, Input: in, Expected: "no panic", Actual: msg})
			continue
		}
		if got == nil {
			return // no white box in this build
		}
		for node, f := range want {
			g, ok := got[node]
			if !ok || g[0] != f {
				// a wrong link: look for a text on which the queries go wrong because of it (the node's path followed
				// by the rest of a pattern); the verdict is the query result against the byte-wise definition.
				// Without such a witness the difference is reported as drift only.
				kind, witness := "drift", interface{}(nil)
				tr := build(ps, sc)
				for u := range want {
					for _, p := range ps {
						for k := 0; k <= len(p) && kind == "drift"; k++ {
							text := u + p[k:]
							wantOcc := []string{}
							for _, q := range ps {
								for o := 0; o+len(q) <= len(text); o++ {
									if text[o:o+len(q)] == q {
										wantOcc = append(wantOcc, q)
									}
								}
							}
							var fa []string
							core.Guard(func() { fa = tr.FindAll(text) })
							if !eq(sortedCopy(fa), sortedCopy(wantOcc)) {
								kind = "value"
								witness = map[string]interface{}{"text": text, "FindAll": sortedCopy(fa), "occurrences": sortedCopy(wantOcc)}
							}
						}
					}
				}
				st.Add(core.Mismatch{Fn: "BuildFailureLinks", Kind: kind, Case: c, Input: in,
					Expected: map[string]interface{}{"node": node, "link": f}, Actual: map[string]interface{}{"link": g, "witness": witness}})
				break
			}
		}
		if len(got) != len(want) {
			st.Add(core.Mismatch{Fn: "BuildFailureLinks", Kind: "drift", Case: c, Input: in, Expected: len(want), Actual: len(got)})
		}
	}
}

// dfs: the result list TrieDfs.tla computes for PrefixSearch / FuzzySearch - the explicit-stack enumeration with the
// shared byte buffer, step by step - in the order the loops produce it. The real function must return that list;
// the same strings in another order (PrefixSearch) or another list of inserted patterns (FuzzySearch, for which the
// property only asks that every result is an inserted pattern) is drift, anything else a violation.
func runDfs(c *core.Case, st *core.CaseStats) {
	sym := []string{"", "a", "中", "é", "😀"}
	conv := func(xs []int) string {
		var b strings.Builder
		for _, x := range xs {
			b.WriteString(sym[x])
		}
		return b.String()
	}
	key := conv(core.RawInts(c.S))
	ps := make([]string, len(c.A))
	for i, r := range c.A {
		ps[i] = conv(core.RawInts(r))
	}
	var rawOut [][]int
	json.Unmarshal(c.Out, &rawOut)
	want := make([]string, len(rawOut))
	for i, r := range rawOut {
		want[i] = conv(r)
	}
	var mode string
	json.Unmarshal(c.X, &mode)
	n := len(ps)
	all := make([]int, n)
	rev := make([]int, 0, n+2)
	for i := range all {
		all[i] = i + 1
		rev = append(rev, n-i)
	}
	rev = append(rev, n, 0)
	if len(want) > 1 {
		st.Nontrivial++
	}
	fn := "PrefixSearch"
	if mode == "fuzzy" {
		fn = "FuzzySearch"
	}
	for _, sc := range [][][]int{{all}, {rev}, {all, {}}} {
		in := map[string]interface{}{"patterns": ps, "key": key, "build_schedule": sc}
		var got []string
		st.Calls++
		msg, p, hung := core.GuardTimed(func() {
			t := build(ps, sc)
			if mode == "fuzzy" {
				got = t.FuzzySearch(key)
			} else {
				got = t.PrefixSearch(key)
			}
		}, 20*time.Second)
		if hung || p {
			kind := "panic"
			if hung {
				kind = "hang"
			}
			st.Add(core.Mismatch{Fn: fn, Kind: kind, Case: c, Input: in, Expected: "returns", Actual: msg})
			continue
		}
		if eq(got, want) {
			continue
		}
		kind := "drift"
		if mode == "fuzzy" {
			for _, g := range got {
				ok := false
				for _, q := range ps {
					ok = ok || g == q
				}
				if !ok {
					kind = "value"
				}
			}
		} else if !eq(sortedCopy(got), sortedCopy(want)) {
			kind = "value"
		}
		st.Add(core.Mismatch{Fn: fn, Kind: kind, Case: c, Input: in, Expected: want, Actual: got})
	}
}

func run(c *core.Case, st *core.CaseStats, seed int64) {
	if c.Fn == "links" {
		runLinks(c, st)
		return
	}
	if c.Fn == "dfs" {
		runDfs(c, st)
		return
	}
	var scheds [][][]int
	json.Unmarshal(c.X, &scheds)
	if len(scheds) == 0 {
		n := len(c.A)
		all := make([]int, n)
		for i := range all {
			all[i] = i + 1
		}
		scheds = [][][]int{{all}}
	}
	for k, sc := range scheds {
		runSched(c, st, seed+int64(k), sc)
	}
}

func sortedCopy(x []string) []string {
	y := append([]string{}, x...)
	sort.Strings(y)
	return y
}

func eq(a, b []string) bool {
	if len(a) != len(b) {
		return false
	}
	for i := range a {
		if a[i] != b[i] {
			return false
		}
	}
	return true
}

func runSched(c *core.Case, st *core.CaseStats, seed int64, sched [][]int) {
	ps := pats(c)
	in := bytesStr(c.S)
	variant := int(seed) + st.Cases
	input := map[string]interface{}{"patterns": ps, "input": in, "input_bytes": []byte(in), "build_schedule": sched}
	rep := func(fn, kind string, exp, act interface{}) {
		st.Add(core.Mismatch{Fn: fn, Kind: kind, Case: c, Input: input, Expected: exp, Actual: act})
	}
	guard := func(fn string, f func()) bool {
		st.Calls++
		msg, p, hung := core.GuardTimed(f, 20*time.Second)
		if hung {
			rep(fn, "hang", "returns", msg)
			return false
		}
		if p {
			rep(fn, "panic", "no panic", msg)
			return false
		}
		return true
	}
	var t *algz.Trie
	if !guard("Build", func() { t = build(ps, sched) }) {
		return
	}
	if c.Fn == "key" {
		if prop != "C05" {
			return
		}
		idx := core.RawInts(c.Out)
		want := []string{}
		for _, i := range idx {
			want = append(want, ps[i-1])
		}
		if len(want) > 0 {
			st.Nontrivial++
		}
		var got []string
		if guard("PrefixSearch", func() { got = t.PrefixSearch(in) }) {
			if utf8.ValidString(in) {
				// keys made of runes: exactly the patterns that start with the key, each once
				if !eq(sortedCopy(got), sortedCopy(want)) {
					rep("PrefixSearch", "value", sortedCopy(want), sortedCopy(got))
				}
			} else {
				// a key that is not valid UTF-8 (e.g. half a rune): no panic, and nothing that is not an
				// inserted pattern starting with those bytes
				for _, g := range got {
					ok := false
					for _, w := range want {
						if g == w {
							ok = true
						}
					}
					if !ok {
						rep("PrefixSearch", "value", map[string]interface{}{"subset_of": sortedCopy(want)}, sortedCopy(got))
						break
					}
				}
			}
		}
		var fz []string
		if guard("FuzzySearch", func() { fz = t.FuzzySearch(in) }) {
			for _, s := range fz {
				ok := false
				for _, p := range ps {
					if p == s {
						ok = true
					}
				}
				if !ok {
					rep("FuzzySearch", "value", "only inserted patterns", fz)
					break
				}
			}
		}
		return
	}
	var o textOut
	json.Unmarshal(c.Out, &o)
	if len(o.Occ) > 1 {
		st.Nontrivial++
	}
	// A pattern that is itself not valid UTF-8 (a stray continuation byte) can occur byte-wise INSIDE a rune of the
	// text; the property speaks of patterns made of runes, so for such an occurrence only soundness is required
	// (nothing reported that is not a byte-for-byte occurrence). An occurrence is rune-aligned when the text, decoded
	// from its start, falls into the same runes as the pattern does. Occurrences of valid patterns always are.
	bound := map[int]bool{0: true}
	for i := 0; i < len(in); {
		_, sz := utf8.DecodeRuneInString(in[i:])
		i += sz
		bound[i] = true
	}
	allAligned := true
	for _, x := range o.Occ {
		p, at := ps[x/100-1], x%100
		if !bound[at] {
			allAligned = false
		}
		for i := 0; i < len(p); {
			_, sz := utf8.DecodeRuneInString(p[i:])
			_, sz2 := utf8.DecodeRuneInString(in[at+i:])
			if sz != sz2 {
				allAligned = false
			}
			i += sz
		}
	}
	// the queries of one trie share whatever the implementation keeps between calls: before the queries of the property
	// under test, the other family is called on the same text (and on the previous one), results ignored here
	switch variant % 3 {
	case 0:
		if prop == "C05" {
			core.Guard(func() { t.ReplaceWithMask(in, '*'); t.Replace(in, "#") })
		} else {
			core.Guard(func() { t.FindAll(in); t.Match(in) })
		}
	case 1:
		if prop == "C05" {
			core.Guard(func() { t.Replace(lastText, "") })
		} else {
			core.Guard(func() { t.FindAll(lastText) })
		}
	}
	lastText = in
	if prop == "C05" {
		var m bool
		if guard("Match", func() { m = t.Match(in) }) && (m != o.Match) && (allAligned || m) {
			rep("Match", "value", o.Match, m)
		}
		var fa []string
		if guard("FindAll", func() { fa = t.FindAll(in) }) {
			want := []string{}
			for _, x := range o.Occ {
				want = append(want, ps[x/100-1])
			}
			if allAligned {
				if !eq(sortedCopy(fa), sortedCopy(want)) {
					rep("FindAll", "value", sortedCopy(want), sortedCopy(fa))
				}
			} else { // soundness: a sub-multiset of the byte-wise occurrences
				left := map[string]int{}
				for _, w := range want {
					left[w]++
				}
				for _, g := range fa {
					left[g]--
					if left[g] < 0 {
						rep("FindAll", "value", map[string]interface{}{"sub_multiset_of": sortedCopy(want)}, sortedCopy(fa))
						break
					}
				}
			}
		}
		return
	}
	// C06
	type runT struct{ s, e, n int }
	var runs []runT
	for _, x := range o.Runs {
		runs = append(runs, runT{x / 10000, (x / 100) % 100, x % 100})
	}
	sort.Slice(runs, func(i, j int) bool { return runs[i].s < runs[j].s })
	// runes of the text the way Go decodes it (an invalid byte is a rune of its own); the mask clause is exact
	// whenever every covered stretch begins and ends on such a rune boundary (always, for text that is valid UTF-8)
	aligned := allAligned
	for _, r := range runs {
		if !bound[r.s] || !bound[r.e] {
			aligned = false
		}
	}
	if aligned {
		// two masks per case: one of three everyday masks, and one from a pool that sits on every boundary of the
		// UTF-8 encoding (last / first rune of each width, U+0000, U+FFFD, the last code point)
		masks := []rune{[]rune{'*', 'é', '中'}[variant%3], maskPool[(variant/3)%len(maskPool)]}
		for _, mask := range masks {
			var got string
			if guard("ReplaceWithMask", func() { got = t.ReplaceWithMask(in, mask) }) {
				var w strings.Builder
				pos := 0
				for _, r := range runs {
					w.WriteString(in[pos:r.s])
					for i := 0; i < utf8.RuneCountInString(in[r.s:r.e]); i++ {
						w.WriteString(string(mask)) // the UTF-8 encoding of the mask rune, by the language's own conversion
					}
					pos = r.e
				}
				w.WriteString(in[pos:])
				if got != w.String() {
					rep("ReplaceWithMask", "value", map[string]interface{}{"mask": int(mask), "text": w.String()}, got)
				}
			}
		}
	} else {
		guard("ReplaceWithMask", func() { t.ReplaceWithMask(in, '*') })
	}
	repl := []string{"#", "<>", "", "#"}[variant%4]
	var got string
	if guard("Replace", func() { got = t.Replace(in, repl) }) && allAligned {
		// untouched bytes in order, and per covered stretch between 1 and n copies of the replacement
		ok := true
		rest := got
		pos := 0
		for _, r := range runs {
			seg := in[pos:r.s]
			if !strings.HasPrefix(rest, seg) {
				ok = false
				break
			}
			rest = rest[len(seg):]
			k := 0
			if repl != "" {
				for k < r.n && strings.HasPrefix(rest, repl) {
					rest = rest[len(repl):]
					k++
				}
				if k < 1 {
					ok = false
					break
				}
			}
			pos = r.e
		}
		if ok && rest != in[pos:] {
			ok = false
		}
		if !ok {
			rep("Replace", "value", map[string]interface{}{"stretches_start_stop_occurrences": runs2(o.Runs), "repl": repl}, got)
		}
	}
}

var lastText string

// mask runes on the boundaries of the UTF-8 encoding lengths
var maskPool = []rune{0x00, 0x7F, 0x80, 0x81, 0xFF, 0x7FF, 0x800, 0xD7FF, 0xE000, 0xFFFD, 0xFFFF, 0x10000, 0x10FFFF, '#'}

func runs2(x []int) [][]int {
	out := [][]int{}
	for _, v := range x {
		out = append(out, []int{v / 10000, (v / 100) % 100, v % 100})
	}
	return out
}

func main() {
	// -prop must come first: strip it before the common flags
	args := []string{os.Args[0]}
	for i := 1; i < len(os.Args); i++ {
		if os.Args[i] == "-prop" && i+1 < len(os.Args) {
			prop = os.Args[i+1]
			i++
			continue
		}
		args = append(args, os.Args[i])
	}
	os.Args = args
	core.CasesMain("c05", run, nil)
}
