//go:build nowb

package main

import "github.com/welllog/golib/verifshim/sched"

func (o *obj) Describe(rec sched.OpRec) interface{} {
	if rec.Kind == "Gosched" {
		return []interface{}{"Gosched"}
	}
	switch rec.Kind {
	case "CAS":
		return []interface{}{"CAS", "?", rec.Ok}
	case "Add":
		return []interface{}{"Add", "?", rec.Val}
	}
	return []interface{}{rec.Kind, "?"}
}

func (o *obj) Shared() interface{} { return nil }
