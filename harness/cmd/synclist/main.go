// Conformance harness for listz.SyncList under the deterministic scheduler (properties C11).
package main

import (
	"fmt"
	"os"
	"runtime"
	"sync"
	"sync/atomic"
	"encoding/json"
	"math/rand"
	"time"

	"github.com/welllog/golib/listz"
	"github.com/welllog/golib/verifshim/sched"
	"verifharness/conc"
)

type obj struct {
	l     *listz.SyncList[int]
	progs [][][]interface{}
	init  []int
}

type initState struct {
	Prog  [][][]interface{} `json:"prog"`
	Chain []int             `json:"chain"`
}

func factory(s json.RawMessage) (conc.Object, [][]sched.Call, error) {
	var st initState
	if err := json.Unmarshal(s, &st); err != nil {
		return nil, nil, err
	}
	o := &obj{l: listz.NewSync[int](), progs: st.Prog, init: st.Chain}
	for _, v := range st.Chain {
		o.l.Push(v)
	}
	progs := make([][]sched.Call, len(st.Prog))
	for t, p := range st.Prog {
		for _, c := range p {
			progs[t] = append(progs[t], sched.Call{Op: c[0].(string), Arg: c[1:]})
		}
	}
	return o, progs, nil
}

func (o *obj) Exec(tid int, c sched.Call) []interface{} {
	switch c.Op {
	case "push":
		o.l.Push(int(c.Arg[0].(float64)))
		return []interface{}{true}
	case "pop":
		v, ok := o.l.Pop()
		return []interface{}{v, ok}
	case "popwait0":
		v, ok := o.l.PopWait(0)
		return []interface{}{v, ok}
	case "popwaitneg":
		v, ok := o.l.PopWait(-1)
		return []interface{}{v, ok}
	case "popwait20":
		v, ok := o.l.PopWait(20 * time.Millisecond)
		return []interface{}{v, ok}
	case "len":
		return []interface{}{o.l.Len()}
	}
	panic("unknown call " + c.Op)
}

func (o *obj) Probe() map[string]interface{} {
	return map[string]interface{}{"len": o.l.Len()}
}

func (o *obj) ProbeDrain() map[string]interface{} {
	n := o.l.Len()
	popped := []int{}
	for i := 0; i < 1<<12; i++ {
		v, ok := o.l.Pop()
		if !ok {
			break
		}
		popped = append(popped, v)
	}
	return map[string]interface{}{"len": n, "popped": popped}
}

func (o *obj) ResetEvent() map[string]interface{} {
	init := o.init
	if init == nil {
		init = []int{}
	}
	return map[string]interface{}{"cap": 0, "init": init}
}

// random programs for schedule sampling
func gen(rng *rand.Rand) json.RawMessage {
	nt := 2 + rng.Intn(3)
	prog := make([][][]interface{}, nt)
	pushes, pops, waits := 0, 0, 0
	for t := range prog {
		nc := 1 + rng.Intn(4)
		for k := 0; k < nc; k++ {
			switch x := rng.Intn(10); {
			case x < 4:
				prog[t] = append(prog[t], []interface{}{"push", 10*(t+1) + k})
				pushes++
			case x < 7:
				prog[t] = append(prog[t], []interface{}{"pop"})
				pops++
			case x < 8:
				if rng.Intn(3) == 0 { // the timed form (real time only decides when it gives up)
					prog[t] = append(prog[t], []interface{}{"popwait20"})
				} else {
					prog[t] = append(prog[t], []interface{}{"popwait0"})
				}
				pops++
			case x < 9:
				prog[t] = append(prog[t], []interface{}{"len"})
			default:
				prog[t] = append(prog[t], []interface{}{"popwaitneg"})
				waits++
			}
		}
	}
	chain := []int{}
	for i := rng.Intn(3); i > 0; i-- {
		chain = append(chain, 90+i)
	}
	// a blocking PopWait(<0) returns only when a value arrives: whenever one is in the program the
	// initial content alone covers every pop-like call, so no schedule (and no program order, e.g.
	// a Push that comes after a blocked PopWait of the same goroutine) can starve it
	_ = pushes
	if waits > 0 {
		for len(chain) < waits+pops {
			chain = append(chain, 80+len(chain))
		}
	}
	b, _ := json.Marshal(map[string]interface{}{"prog": prog, "chain": chain, "blocking": waits > 0})
	return b
}

func main() {
	if len(os.Args) > 3 && os.Args[1] == "long" && os.Args[2] == "-out" {
		pairs := uint64(1)<<32 + 5
		if len(os.Args) > 5 && os.Args[4] == "-pairs" {
			fmt.Sscan(os.Args[5], &pairs)
		}
		os.Exit(long(os.Args[3], pairs))
	}
	conc.ExtraReal = bigElements
	conc.Main("SyncList", factory, gen)
}

// The list is generic in its element type; the histories use int. bigElements runs producers and consumers on lists
// of 72-byte elements and of elements with a pointer inside, all words carrying the same number: the race detector sees
// unsynchronised accesses to a node's value, and an element whose parts differ is a torn hand-over.
type big72 [9]int64
type withPtr struct {
	A [5]int64
	S string
}

func stressList[T any](mk func(int64) T, ok func(T) bool) {
	l := listz.NewSync[T]()
	var wg sync.WaitGroup
	var torn int32
	const per = 3000
	for p := 0; p < 3; p++ {
		wg.Add(2)
		go func(p int) {
			defer wg.Done()
			for i := 0; i < per; i++ {
				l.Push(mk(int64(p*per + i + 1)))
			}
		}(p)
		go func() {
			defer wg.Done()
			for i := 0; i < per; i++ {
				for {
					if v, got := l.Pop(); got {
						if !ok(v) {
							atomic.StoreInt32(&torn, 1)
						}
						break
					}
					runtime.Gosched()
				}
			}
		}()
	}
	wg.Wait()
	if torn != 0 || l.Len() != 0 {
		fmt.Fprintln(os.Stderr, "WARNING: DATA RACE (observed by the harness: an element of a large element type came out torn, or Len() != 0 at rest)")
	}
}

func bigElements() {
	stressList(func(x int64) big72 {
		var b big72
		for i := range b {
			b[i] = x
		}
		return b
	}, func(b big72) bool {
		for _, w := range b {
			if w != b[0] || w == 0 {
				return false
			}
		}
		return true
	})
	stressList(func(x int64) withPtr {
		var b withPtr
		for i := range b.A {
			b.A[i] = x
		}
		b.S = fmt.Sprint(x)
		return b
	}, func(b withPtr) bool {
		for _, w := range b.A {
			if w != b.A[0] || w == 0 {
				return false
			}
		}
		return b.S == fmt.Sprint(b.A[0])
	})
}
