//go:build !nowb

package main

import (
	"github.com/welllog/golib/listz"
	"github.com/welllog/golib/verifshim/sched"
)

func (o *obj) Describe(rec sched.OpRec) interface{} {
	if rec.Kind == "Gosched" {
		return []interface{}{"Gosched"}
	}
	v := listz.VerifSyncListVar(o.l, rec.Addr)
	switch rec.Kind {
	case "CAS":
		return []interface{}{"CAS", v, rec.Ok}
	case "Add":
		return []interface{}{"Add", v, rec.Val}
	}
	return []interface{}{rec.Kind, v}
}

func (o *obj) Shared() interface{} {
	chain, ti, n := listz.VerifSyncListShared(o.l)
	if chain == nil {
		chain = []int{}
	}
	return map[string]interface{}{"prog": o.progs, "chain": chain, "tailidx": ti, "len": n}
}

func (o *obj) WhiteBox() bool { return true }
