package main

// long: more than 2^32 Push/Pop pairs on one SyncList through the public API (counters of any width the
// implementation keeps are driven past 32 bits), each pair checked on the spot; afterwards the list is observed at
// rest and the observations are written as a history for FifoHist.tla.

import (
	"encoding/json"
	"fmt"
	"os"
	"time"

	"github.com/welllog/golib/listz"
)

func long(out string, pairs uint64) int {
	l := listz.NewSync[int]()
	t0 := time.Now()
	bad := uint64(0)
	for n := uint64(0); n < pairs; n++ {
		l.Push(7)
		if v, ok := l.Pop(); !ok || v != 7 {
			bad = n + 1
			break
		}
	}
	f, _ := os.Create(out + "/long_hist.ndjson")
	defer f.Close()
	enc := json.NewEncoder(f)
	enc.Encode(map[string]interface{}{"ev": "reset", "cap": 0, "init": []int{}})
	if bad != 0 {
		// a pair went wrong: an un-overlapped Pop after a Push that failed or returned another value
		enc.Encode(map[string]interface{}{"ev": "inv", "t": 1, "op": "push", "arg": []int{7}})
		enc.Encode(map[string]interface{}{"ev": "ret", "t": 1, "op": "push", "arg": []int{7}, "ret": []interface{}{true}})
		enc.Encode(map[string]interface{}{"ev": "inv", "t": 1, "op": "pop", "arg": []int{}})
		enc.Encode(map[string]interface{}{"ev": "ret", "t": 1, "op": "pop", "arg": []int{}, "ret": []interface{}{0, false}})
	}
	enc.Encode(map[string]interface{}{"ev": "probe", "len": l.Len()})
	v, ok := l.Pop()
	enc.Encode(map[string]interface{}{"ev": "inv", "t": 1, "op": "pop", "arg": []int{}})
	enc.Encode(map[string]interface{}{"ev": "ret", "t": 1, "op": "pop", "arg": []int{}, "ret": []interface{}{v, ok}})
	for k := 1; k <= 3; k++ {
		l.Push(k)
		enc.Encode(map[string]interface{}{"ev": "inv", "t": 1, "op": "push", "arg": []int{k}})
		enc.Encode(map[string]interface{}{"ev": "ret", "t": 1, "op": "push", "arg": []int{k}, "ret": []interface{}{true}})
	}
	n := l.Len()
	popped := []int{}
	for i := 0; i < 16; i++ {
		v, ok := l.Pop()
		if !ok {
			break
		}
		popped = append(popped, v)
	}
	enc.Encode(map[string]interface{}{"ev": "probedrain", "len": n, "popped": popped})
	enc.Encode(map[string]interface{}{"ev": "probe", "len": l.Len()})
	st, _ := json.Marshal(map[string]interface{}{"pairs": pairs, "wall_s": time.Since(t0).Seconds(), "bad_pair": bad})
	os.WriteFile(out+"/long_stats.json", st, 0o644)
	fmt.Printf("long: %d pairs in %.0fs\n", pairs, time.Since(t0).Seconds())
	return 0
}
