// Case runner for property C14 (slice functions of slicez/slices.go); cases from SliceOps.tla.
package main

import (
	"fmt"
	"encoding/json"
	"errors"
	"math"
	"reflect"
	"sort"
	"time"

	"github.com/welllog/golib/slicez"
	"verifharness/core"
)

func ints(r json.RawMessage) []int { return core.RawInts(r) }

func eq(a, b []int) bool {
	if len(a) != len(b) {
		return false
	}
	for i := range a {
		if a[i] != b[i] {
			return false
		}
	}
	return true
}

func sorted(a []int) []int {
	b := append([]int{}, a...)
	sort.Ints(b)
	return b
}

// layouts of dst for the functions that take one: nil, fresh with capacity, the prefix s1[:0], the prefix s2[:0]
var layouts = []string{"nil", "fresh", "s1", "s2"}

func run(c *core.Case, st *core.CaseStats, seed int64) {
	s := ints(c.S)
	rep := func(fn, kind string, in, exp, act interface{}) {
		st.Add(core.Mismatch{Fn: fn, Kind: kind, Case: c, Input: in, Expected: exp, Actual: act})
	}
	guard := func(fn string, in interface{}, f func()) bool {
		st.Calls++
		msg, p, hung := core.GuardTimed(f, 20*time.Second)
		if hung {
			rep(fn, "hang", in, "returns", msg)
			return false
		}
		if p {
			rep(fn, "panic", in, "no panic", msg)
			return false
		}
		return true
	}
	// nilable copies: the empty slice is passed once as nil and once as empty non-nil
	mk := func(x []int, nilIfEmpty bool) []int {
		if len(x) == 0 && nilIfEmpty {
			return nil
		}
		return append(make([]int, 0, len(x)+2), x...)
	}
	switch c.Fn {
	case "two":
		var s2raw [][]int
		json.Unmarshal([]byte("["+string(c.A[0])+"]"), &s2raw)
		s2 := s2raw[0]
		var o struct {
			Diff  []int `json:"diff"`
			Inter []int `json:"inter"`
			Equal    bool  `json:"equal"`
			EqualNaN bool  `json:"equalnan"`
		}
		json.Unmarshal(c.Out, &o)
		if len(s) > 1 {
			st.Nontrivial++
		}
		for li, lay := range layouts {
			for _, which := range []string{"Diff", "Intersect"} {
				a, b := mk(s, li%2 == 0), mk(s2, li%2 == 1)
				var dst []int
				switch lay {
				case "fresh":
					dst = make([]int, 1, 8)
				case "s1":
					dst = a[:0]
				case "s2":
					dst = b[:0]
				}
				in := map[string]interface{}{"fn": which, "s1": s, "s2": s2, "dst": lay}
				var got []int
				want := o.Diff
				if guard(which, in, func() {
					if which == "Diff" {
						got = slicez.Diff(dst, a, b)
					} else {
						got = slicez.Intersect(dst, a, b)
					}
				}) {
					if which == "Intersect" {
						want = o.Inter
					}
					if !eq(got, want) {
						rep(which, "value", in, want, got)
					}
				}
			}
		}
		// in-place variants: same elements as a multiset, the argument stays a permutation of itself
		for _, which := range []string{"DiffInPlaceFirst", "IntersectInPlaceFirst"} {
			a, b := mk(s, false), mk(s2, false)
			in := map[string]interface{}{"fn": which, "s1": s, "s2": s2}
			var got []int
			want := o.Diff
			if which == "IntersectInPlaceFirst" {
				want = o.Inter
			}
			if guard(which, in, func() {
				if which == "DiffInPlaceFirst" {
					got = slicez.DiffInPlaceFirst(a, b)
				} else {
					got = slicez.IntersectInPlaceFirst(a, b)
				}
			}) {
				if !eq(sorted(got), sorted(want)) {
					rep(which, "value", in, map[string]interface{}{"multiset": sorted(want)}, got)
				}
				if !eq(sorted(a), sorted(s)) {
					rep(which, "value", in, "argument stays a permutation of itself", a)
				}
				if !eq(b, s2) {
					rep(which, "value", in, "second operand untouched", b)
				}
			}
		}
		embedAll(func(name string, f func(typedEnv)) {
			f(typedEnv{name: name, s: s, s2: s2, diff: o.Diff, inter: o.Inter, equal: o.Equal, rep: rep, guard: guard, two: true})
		})
		var e bool
		if guard("Equal", nil, func() { e = slicez.Equal(mk(s, true), mk(s2, false)) }) && e != o.Equal {
			rep("Equal", "value", map[string]interface{}{"s1": s, "s2": s2}, o.Equal, e)
		}
		// the same with float elements, the value 2 being NaN; for equal operands also both arguments in the same memory
		fl := func(x []int) []float64 {
			out := make([]float64, len(x))
			for i, v := range x {
				out[i] = float64(v)
				if v == 2 {
					out[i] = math.NaN()
				}
			}
			return out
		}
		f1, f2 := fl(s), fl(s2)
		if guard("Equal", nil, func() { e = slicez.Equal(f1, f2) }) && e != o.EqualNaN {
			rep("Equal", "value", map[string]interface{}{"s1": s, "s2": s2, "elements": "float64, 2 = NaN", "memory": "separate"}, o.EqualNaN, e)
		}
		if eq(s, s2) {
			if guard("Equal", nil, func() { e = slicez.Equal(f1, f1[0:len(f1):len(f1)]) }) && e != o.EqualNaN {
				rep("Equal", "value", map[string]interface{}{"s1": s, "s2": s2, "elements": "float64, 2 = NaN", "memory": "the same slice twice"}, o.EqualNaN, e)
			}
		}
	case "one":
		var o struct {
			Unique    []int `json:"unique"`
			UniqueKey []int `json:"uniquekey"`
			Filter    []int `json:"filter"`
			Index     []int `json:"index"`
			UniqueNaN []int `json:"uniquenan"`
		}
		json.Unmarshal(c.Out, &o)
		if len(s) > 1 {
			st.Nontrivial++
		}
		// float elements, 2 = NaN: a NaN is no duplicate of anything, itself included
		{
			toF := func(x []int) []float64 {
				out := make([]float64, len(x))
				for i, v := range x {
					out[i] = float64(v)
					if v == 2 {
						out[i] = math.NaN()
					}
				}
				return out
			}
			same := func(a, b []float64) bool {
				if len(a) != len(b) {
					return false
				}
				for i := range a {
					if a[i] != b[i] && !(math.IsNaN(a[i]) && math.IsNaN(b[i])) {
						return false
					}
				}
				return true
			}
			in := map[string]interface{}{"s": s, "elements": "float64, 2 = NaN"}
			var g []float64
			if guard("Unique", in, func() { g = slicez.Unique(nil, toF(s)) }) && !same(g, toF(o.UniqueNaN)) {
				rep("Unique", "value", in, o.UniqueNaN, fmt.Sprint(g))
			}
			fa := toF(s)
			if guard("Unique", in, func() { g = slicez.Unique(fa[:0], fa) }) && !same(g, toF(o.UniqueNaN)) {
				rep("Unique", "value", map[string]interface{}{"s": s, "elements": "float64, 2 = NaN", "dst": "s[:0]"}, o.UniqueNaN, fmt.Sprint(g))
			}
		}
		embedAll(func(name string, f func(typedEnv)) {
			f(typedEnv{name: name, s: s, unique: o.Unique, index: o.Index, rep: rep, guard: guard})
		})
		key := func(e int) int { return e % 2 }
		odd := func(e int) bool { return e%2 == 1 }
		for li, lay := range []string{"nil", "fresh", "s1"} {
			a := mk(s, li == 0)
			var dst []int
			if lay == "fresh" {
				dst = make([]int, 2, 9)
			} else if lay == "s1" {
				dst = a[:0]
			}
			in := map[string]interface{}{"s": s, "dst": lay}
			var g1, g2, g3 []int
			if guard("Unique", in, func() { g1 = slicez.Unique(dst, a) }) && !eq(g1, o.Unique) {
				rep("Unique", "value", in, o.Unique, g1)
			}
			a = mk(s, li == 0)
			if lay == "s1" {
				dst = a[:0]
			}
			if guard("UniqueByKey", in, func() { g2 = slicez.UniqueByKey(dst, a, key) }) && !eq(g2, o.UniqueKey) {
				rep("UniqueByKey", "value", in, o.UniqueKey, g2)
			}
			a = mk(s, li == 0)
			if lay == "s1" {
				dst = a[:0]
			}
			if guard("Filter", in, func() { g3 = slicez.Filter(dst, a, odd) }) && !eq(g3, o.Filter) {
				rep("Filter", "value", in, o.Filter, g3)
			}
		}
		for _, which := range []string{"UniqueInPlace", "UniqueByKeyInPlace", "FilterInPlace"} {
			a := mk(s, false)
			in := map[string]interface{}{"fn": which, "s": s}
			var got []int
			want := o.Unique
			if guard(which, in, func() {
				switch which {
				case "UniqueInPlace":
					got = slicez.UniqueInPlace(a)
				case "UniqueByKeyInPlace":
					got = slicez.UniqueByKeyInPlace(a, key)
				default:
					got = slicez.FilterInPlace(a, odd)
				}
			}) {
				switch which {
				case "UniqueByKeyInPlace":
					// one element per key (any representative? the first occurrence is swapped to the front: the same elements)
					want = o.UniqueKey
				case "FilterInPlace":
					want = o.Filter
				}
				if !eq(sorted(got), sorted(want)) {
					rep(which, "value", in, map[string]interface{}{"multiset": sorted(want)}, got)
				}
				if !eq(sorted(a), sorted(s)) {
					rep(which, "value", in, "argument stays a permutation of itself", a)
				}
			}
		}
		for e := 1; e <= 4; e++ {
			var gi int
			var gc bool
			in := map[string]interface{}{"s": s, "v": e}
			if guard("Index", in, func() {
				gi = slicez.Index(mk(s, true), e)
				gc = slicez.Contains(mk(s, true), e)
				if slicez.IndexFunc(s, func(x int) bool { return x == e }) != gi || slicez.ContainsFunc(s, func(x int) bool { return x == e }) != gc {
					rep("IndexFunc", "value", in, gi, "IndexFunc/ContainsFunc disagree with Index/Contains")
				}
			}) && (gi != o.Index[e-1] || gc != (o.Index[e-1] >= 0)) {
				rep("Index", "value", in, o.Index[e-1], gi)
			}
		}
		// Values returns fresh memory
		guard("Values", nil, func() {
			a := mk(s, false)
			v := slicez.Values(func(x int) int { return x }, a, a)
			if !eq(v, append(append([]int{}, s...), s...)) {
				rep("Values", "value", s, "concatenation", v)
			}
			for i := range v {
				v[i] = -7
			}
			if !eq(a, s) {
				rep("Values", "value", s, "fresh memory", a)
			}
		})
	case "args":
		p, q := huge(core.RawInt(c.A[0])), huge(core.RawInt(c.A[1]))
		var o struct {
			Sub    []int         `json:"sub"`
			Copy   []int         `json:"copy"`
			Chunk  [][]int       `json:"chunk"`
			Remove []interface{} `json:"remove"`
		}
		json.Unmarshal(c.Out, &o)
		in := map[string]interface{}{"s": s, "a": p, "b": q}
		if len(s) > 1 {
			st.Nontrivial++
		}
		var g []int
		if guard("SubSlice", in, func() { g = slicez.SubSlice(mk(s, true), p, q) }) && !eq(g, o.Sub) {
			rep("SubSlice", "value", in, o.Sub, g)
		}
		a := mk(s, false)
		if guard("Copy", in, func() { g = slicez.Copy(a, p, q) }) {
			if !eq(g, o.Copy) {
				rep("Copy", "value", in, o.Copy, g)
			}
			for i := range g {
				g[i] = -7
			}
			if !eq(a, s) {
				rep("Copy", "value", in, "fresh memory", a)
			}
		}
		var ch [][]int
		if guard("Chunk", in, func() { ch = slicez.Chunk(mk(s, true), p) }) {
			if len(ch) != len(o.Chunk) {
				rep("Chunk", "value", in, o.Chunk, ch)
			} else {
				for i := range ch {
					if !eq(ch[i], o.Chunk[i]) {
						rep("Chunk", "value", in, o.Chunk, ch)
						break
					}
				}
			}
		}
		var pieces [][]int
		if guard("ChunkProcess", in, func() {
			slicez.ChunkProcess(mk(s, true), p, func(x []int) error { pieces = append(pieces, append([]int{}, x...)); return nil })
		}) {
			want := o.Chunk
			if len(pieces) != len(want) || (len(want) > 0 && !reflect.DeepEqual(pieces, want)) {
				rep("ChunkProcess", "value", in, want, pieces)
			}
			// an error from the callback stops the iteration and is returned
			stop := errors.New("stop")
			n := 0
			if err := slicez.ChunkProcess(mk(s, true), p, func(x []int) error { n++; return stop }); len(want) > 0 && (err != stop || n != 1) {
				rep("ChunkProcess", "value", in, "stops at the first error", n)
			}
		}
		var rs []int
		var rv int
		var rok bool
		if guard("Remove", in, func() { rs, rv, rok = slicez.Remove(mk(s, false), p) }) {
			var wantS []int
			b, _ := json.Marshal(o.Remove[0])
			json.Unmarshal(b, &wantS)
			if !eq(rs, wantS) || float64(rv) != o.Remove[1].(float64) || rok != o.Remove[2].(bool) {
				rep("Remove", "value", in, o.Remove, []interface{}{rs, rv, rok})
			}
		}
	default:
		panic("unknown fn " + c.Fn)
	}
}

// ---- the same cases with other element types -------------------------------------------------------------------
// The definitions of SliceOps.tla speak of equality of elements only, so every injective embedding of the model
// values 1..4 into a comparable Go type must give the embedded result.  The embeddings below put the values close
// together in the representation of each type (bytes that differ in one bit, integers that differ only above bit 31 or
// only in sign, strings that differ in length or letter case, arrays, structs with a string field).
type typedEnv struct {
	name                       string
	s, s2                      []int
	diff, inter, unique, index []int
	equal, two                 bool
	rep                        func(fn, kind string, in, exp, act interface{})
	guard                      func(fn string, in interface{}, f func()) bool
}

type pairT struct {
	A int32
	B string
}

func embedAll(with func(name string, f func(typedEnv))) {
	with("byte A a ! @", func(e typedEnv) { typed(e, func(v int) byte { return "Aa!@"[v-1] }) })
	with("byte 0 32 64 96", func(e typedEnv) { typed(e, func(v int) byte { return byte(32 * (v - 1)) }) })
	with("byte 200 232 8 72", func(e typedEnv) { typed(e, func(v int) byte { return []byte{200, 232, 8, 72}[v-1] }) })
	with("byte 255 127 63 191", func(e typedEnv) { typed(e, func(v int) byte { return []byte{255, 127, 63, 191}[v-1] }) })
	with("uint64 above bit 31", func(e typedEnv) { typed(e, func(v int) uint64 { return []uint64{1, 1<<32 + 1, 1<<63 + 1, 1<<33 + 1}[v-1] }) })
	with("int64 sign", func(e typedEnv) { typed(e, func(v int) int64 { return []int64{5, -5, math.MinInt64, math.MaxInt64}[v-1] }) })
	with("int8", func(e typedEnv) { typed(e, func(v int) int8 { return []int8{-128, 127, 0, -1}[v-1] }) })
	with("uint16 256 apart", func(e typedEnv) { typed(e, func(v int) uint16 { return []uint16{7, 263, 519, 65535}[v-1] }) })
	with("string", func(e typedEnv) { typed(e, func(v int) string { return []string{"", "a", "A", "aa"}[v-1] }) })
	with("[2]byte", func(e typedEnv) { typed(e, func(v int) [2]byte { return [][2]byte{{0, 1}, {1, 0}, {0, 0}, {1, 1}}[v-1] }) })
	with("struct", func(e typedEnv) {
		typed(e, func(v int) pairT { return []pairT{{1, "x"}, {1, "y"}, {2, "x"}, {0, ""}}[v-1] })
	})
	with("rune", func(e typedEnv) { typed(e, func(v int) rune { return []rune{'a', 0x10061, -1, 0x61 + 1<<17}[v-1] }) })
	with("bool-ish uintptr", func(e typedEnv) { typed(e, func(v int) uintptr { return uintptr(v) << 40 }) })
}

func typed[T comparable](e typedEnv, conv func(int) T) {
	mkT := func(x []int) []T {
		out := make([]T, 0, len(x)+2)
		for _, v := range x {
			out = append(out, conv(v))
		}
		return out
	}
	same := func(a []T, b []int) bool {
		if len(a) != len(b) {
			return false
		}
		for i := range a {
			if a[i] != conv(b[i]) {
				return false
			}
		}
		return true
	}
	sameSet := func(a []T, b []int) bool { // equal as multisets
		if len(a) != len(b) {
			return false
		}
		cnt := map[T]int{}
		for _, v := range b {
			cnt[conv(v)]++
		}
		for _, v := range a {
			cnt[v]--
			if cnt[v] < 0 {
				return false
			}
		}
		return true
	}
	in := func(fn string) map[string]interface{} {
		return map[string]interface{}{"fn": fn, "s1": e.s, "s2": e.s2, "elements": e.name}
	}
	if e.two {
		for _, lay := range []string{"nil", "s1"} {
			a, b := mkT(e.s), mkT(e.s2)
			var dst []T
			if lay == "s1" {
				dst = a[:0]
			}
			var g []T
			if e.guard("Diff", in("Diff"), func() { g = slicez.Diff(dst, a, b) }) && !same(g, e.diff) {
				e.rep("Diff", "value", in("Diff dst="+lay), e.diff, fmt.Sprint(g))
			}
			a, b = mkT(e.s), mkT(e.s2)
			if lay == "s1" {
				dst = a[:0]
			}
			if e.guard("Intersect", in("Intersect"), func() { g = slicez.Intersect(dst, a, b) }) && !same(g, e.inter) {
				e.rep("Intersect", "value", in("Intersect dst="+lay), e.inter, fmt.Sprint(g))
			}
		}
		a, b := mkT(e.s), mkT(e.s2)
		var g []T
		if e.guard("DiffInPlaceFirst", in("DiffInPlaceFirst"), func() { g = slicez.DiffInPlaceFirst(a, b) }) && (!sameSet(g, e.diff) || !sameSet(a, e.s) || !same(b, e.s2)) {
			e.rep("DiffInPlaceFirst", "value", in("DiffInPlaceFirst"), map[string]interface{}{"multiset": e.diff}, fmt.Sprint(g, a, b))
		}
		a, b = mkT(e.s), mkT(e.s2)
		if e.guard("IntersectInPlaceFirst", in("IntersectInPlaceFirst"), func() { g = slicez.IntersectInPlaceFirst(a, b) }) && (!sameSet(g, e.inter) || !sameSet(a, e.s) || !same(b, e.s2)) {
			e.rep("IntersectInPlaceFirst", "value", in("IntersectInPlaceFirst"), map[string]interface{}{"multiset": e.inter}, fmt.Sprint(g, a, b))
		}
		var q bool
		if e.guard("Equal", in("Equal"), func() { q = slicez.Equal(mkT(e.s), mkT(e.s2)) }) && q != e.equal {
			e.rep("Equal", "value", in("Equal"), e.equal, q)
		}
		return
	}
	for _, lay := range []string{"nil", "s1"} {
		a := mkT(e.s)
		var dst []T
		if lay == "s1" {
			dst = a[:0]
		}
		var g []T
		if e.guard("Unique", in("Unique"), func() { g = slicez.Unique(dst, a) }) && !same(g, e.unique) {
			e.rep("Unique", "value", in("Unique dst="+lay), e.unique, fmt.Sprint(g))
		}
	}
	a := mkT(e.s)
	var g []T
	if e.guard("UniqueInPlace", in("UniqueInPlace"), func() { g = slicez.UniqueInPlace(a) }) && (!sameSet(g, e.unique) || !sameSet(a, e.s)) {
		e.rep("UniqueInPlace", "value", in("UniqueInPlace"), map[string]interface{}{"multiset": e.unique}, fmt.Sprint(g, a))
	}
	id := func(x T) T { return x }
	if e.guard("UniqueByKey", in("UniqueByKey"), func() { g = slicez.UniqueByKey(nil, mkT(e.s), id) }) && !same(g, e.unique) {
		e.rep("UniqueByKey", "value", in("UniqueByKey, key = the element"), e.unique, fmt.Sprint(g))
	}
	a = mkT(e.s)
	if e.guard("UniqueByKeyInPlace", in("UniqueByKeyInPlace"), func() { g = slicez.UniqueByKeyInPlace(a, id) }) && (!sameSet(g, e.unique) || !sameSet(a, e.s)) {
		e.rep("UniqueByKeyInPlace", "value", in("UniqueByKeyInPlace, key = the element"), map[string]interface{}{"multiset": e.unique}, fmt.Sprint(g, a))
	}
	for v := 1; v <= 4; v++ {
		var gi int
		var gc bool
		if e.guard("Index", in("Index"), func() { gi = slicez.Index(mkT(e.s), conv(v)); gc = slicez.Contains(mkT(e.s), conv(v)) }) && (gi != e.index[v-1] || gc != (e.index[v-1] >= 0)) {
			e.rep("Index", "value", map[string]interface{}{"s": e.s, "v": v, "elements": e.name}, e.index[v-1], gi)
		}
	}
}

// huge maps the specification's Huge (2^30) and Huge-1 to the largest ints, -Huge to the smallest
func huge(x int) int {
	switch x {
	case 1 << 30:
		return math.MaxInt
	case 1<<30 - 1:
		return math.MaxInt - 1
	case -(1 << 30):
		return math.MinInt
	}
	return x
}

func main() { core.CasesMain("c14", run, nil) }
