// Case runner for the capacity clause of C10 (SyncRing over large requested capacities).
package main

import (
	"time"

	"github.com/welllog/golib/ringz"
	"verifharness/core"
)

func run(c *core.Case, st *core.CaseStats, seed int64) {
	n := core.RawInt(c.A[0])
	want := core.RawInts(c.Out)[0]
	in := map[string]interface{}{"requested": n}
	st.Calls++
	st.Nontrivial++
	msg, p, hung := core.GuardTimed(func() {
		r := ringz.NewSync[int](n)
		if r.Cap() != want {
			st.Add(core.Mismatch{Fn: "SyncRing.Cap", Kind: "value", Case: c, Input: in, Expected: want, Actual: r.Cap()})
			return
		}
		if want > 1<<19 {
			return
		}
		// fill to capacity, one push too many, drain in order, one pop too many
		for i := 0; i < want; i++ {
			if !r.Push(i + 1) {
				st.Add(core.Mismatch{Fn: "SyncRing.Push", Kind: "value", Case: c, Input: in, Expected: "true while fewer than Cap() elements are held", Actual: i})
				return
			}
		}
		if r.Push(-1) || !r.IsFull() || r.Len() != want {
			st.Add(core.Mismatch{Fn: "SyncRing.Push", Kind: "value", Case: c, Input: in, Expected: "false on a full ring, IsFull, Len = Cap", Actual: []interface{}{r.IsFull(), r.Len()}})
			return
		}
		for i := 0; i < want; i++ {
			v, ok := r.Pop()
			if !ok || v != i+1 {
				st.Add(core.Mismatch{Fn: "SyncRing.Pop", Kind: "value", Case: c, Input: in, Expected: i + 1, Actual: []interface{}{v, ok}})
				return
			}
		}
		if _, ok := r.Pop(); ok || !r.IsEmpty() || r.Len() != 0 {
			st.Add(core.Mismatch{Fn: "SyncRing.Pop", Kind: "value", Case: c, Input: in, Expected: "false on an empty ring", Actual: r.Len()})
		}
	}, 60*time.Second)
	if hung {
		st.Add(core.Mismatch{Fn: "SyncRing", Kind: "hang", Case: c, Input: in, Expected: "returns", Actual: msg})
	} else if p {
		st.Add(core.Mismatch{Fn: "SyncRing", Kind: "panic", Case: c, Input: in, Expected: "no panic", Actual: msg})
	}
}

func main() { core.CasesMain("c10cap", run, nil) }
