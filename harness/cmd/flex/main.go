// Conformance harness for slicez.FlexSlice (property C14, FlexSlice part).
package main

import (
	"math"
	"encoding/json"
	"math/rand"

	"github.com/welllog/golib/slicez"
	"verifharness/core"
)

type ad struct{ f slicez.FlexSlice[int] }

func (a *ad) Reset(s json.RawMessage) error {
	var st struct {
		Cap int `json:"cap"`
	}
	json.Unmarshal(s, &st)
	a.f = slicez.FlexSlice[int]{}
	if st.Cap > 0 {
		a.f.Values = make([]int, 0, st.Cap)
	}
	return nil
}

// ix maps the specification's Lo / Hi to the extreme ints
func ix(op core.Op, i int) int {
	v := core.ArgInt(op, i)
	switch v {
	case -2000000000:
		return math.MinInt
	case 2000000000:
		return math.MaxInt
	}
	return v
}

func (a *ad) Apply(op core.Op) (interface{}, error) {
	switch op.N {
	case "Append":
		arg := spare(core.ArgInts(op, 0))
		a.f.Append(arg...)
		scribble(arg)
		return []int{}, nil
	case "Prepend":
		arg := spare(core.ArgInts(op, 0))
		a.f.Prepend(arg...)
		scribble(arg)
		return []int{}, nil
	case "Get":
		v, ok := a.f.Get(ix(op, 0))
		return []interface{}{v, ok}, nil
	case "Remove":
		v, ok := a.f.Remove(ix(op, 0))
		return []interface{}{v, ok}, nil
	case "Pop":
		v, ok := a.f.Pop()
		return []interface{}{v, ok}, nil
	case "Shift":
		v, ok := a.f.Shift()
		return []interface{}{v, ok}, nil
	case "SubSlice":
		nf := a.f.SubSlice(ix(op, 0), ix(op, 1))
		out := append([]int{}, nf.Values...)
		if nf.Len() != len(out) {
			out = append(out, -999)
		}
		return []interface{}{out}, nil
	}
	panic("unknown op " + op.N)
}

// spare gives the argument slice room to spare (as a caller's reused scratch buffer has); scribble is the caller
// reusing that buffer afterwards: a FlexSlice that kept the caller's array as its own shows it at once
func spare(x []int) []int {
	buf := make([]int, len(x), len(x)+96)
	copy(buf, x)
	return buf
}

func scribble(x []int) {
	x = x[:cap(x)]
	for i := range x {
		x[i] = -7777
	}
}

func (a *ad) Obs() interface{} {
	return map[string]interface{}{"len": a.f.Len(), "vals": append([]int{}, a.f.Values...)}
}
func (a *ad) Struct() interface{} { return map[string]interface{}{"cap": cap(a.f.Values)} }
func (a *ad) Drain() interface{} {
	out := []int{}
	for i := 0; i < 1<<20; i++ {
		v, ok := a.f.Shift()
		if !ok {
			break
		}
		out = append(out, v)
	}
	return out
}

type gen struct{}

func (gen) Init(rng *rand.Rand) json.RawMessage {
	b, _ := json.Marshal(map[string]int{"cap": []int{0, 0, 1, 3, 8, 9, 12, 33, 100}[rng.Intn(9)]})
	return b
}
func (gen) Next(rng *rand.Rand, step int) core.Op {
	xs := func() []int {
		n := rng.Intn(4)
		if rng.Intn(8) == 0 {
			n = 10 + rng.Intn(30)
		}
		out := make([]int, n)
		for i := range out {
			out[i] = 1 + rng.Intn(9)
		}
		return out
	}
	idx := func() int { return rng.Intn(24) - 2 }
	// phases of growth and of draining, so that the shrink thresholds are crossed
	grow := (step/30)%2 == 0
	switch x := rng.Intn(20); {
	case x < 4 && grow, x < 1:
		return core.MkOp("Append", xs())
	case x < 8 && grow, x < 2:
		return core.MkOp("Prepend", xs())
	case x < 10:
		return core.MkOp("Get", idx())
	case x < 13:
		return core.MkOp("Remove", idx())
	case x < 15:
		return core.MkOp("Pop")
	case x < 17:
		return core.MkOp("Shift")
	default:
		return core.MkOp("SubSlice", idx(), idx())
	}
}

func main() { core.Main("FlexSlice", func() core.Adapter { return &ad{} }, gen{}) }
