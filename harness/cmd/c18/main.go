// Case runner for property C18 (Knapsack, FindDpSolvers/Best/BestAllowMinOverflow,
// GetMaximalCliques); cases from Algz.tla. Answers are not unique: membership in the set of
// correct answers is checked (distinct items, limits, totals, optimum value, set equality).
package main

import (
	"encoding/json"
	"fmt"
	"math"
	"sort"
	"time"

	"github.com/welllog/golib/algz"
	"verifharness/core"
)

type item struct{ Idx, W, V int }

var (
	sharedG   algz.Graph[int]
	sharedOff int
)

func run(c *core.Case, st *core.CaseStats, seed int64) {
	rep := func(fn, kind string, in, exp, act interface{}) {
		st.Add(core.Mismatch{Fn: fn, Kind: kind, Case: c, Input: in, Expected: exp, Actual: act})
	}
	guard := func(fn string, in interface{}, f func()) bool {
		st.Calls++
		msg, p, hung := core.GuardTimed(f, 30*time.Second)
		if hung {
			rep(fn, "hang", in, "returns", msg)
			return false
		}
		if p {
			rep(fn, "panic", in, "no panic", msg)
			return false
		}
		return true
	}
	distinct := func(sel []item) bool {
		seen := map[int]bool{}
		for _, it := range sel {
			if seen[it.Idx] {
				return false
			}
			seen[it.Idx] = true
		}
		return true
	}
	switch c.Fn {
	case "knapsack":
		var raw [][]int
		json.Unmarshal(c.S, &raw)
		limit := core.RawInt(c.A[0])
		opt := core.RawInts(c.Out)[0]
		items := make([]item, len(raw))
		for i, r := range raw {
			items[i] = item{i, hugeW(r[0]), r[1]}
		}
		in := map[string]interface{}{"items_w_v": raw, "limit": limit, "note": "weight 2^30 stands for MaxInt, 2^30-1 for 2^62"}
		if len(items) > 1 {
			st.Nontrivial++
		}
		for variant := 0; variant < 2; variant++ {
			var sel []item
			var breaker []func(old, new []item) bool
			if variant == 1 { // with a tie breaker: still an optimal, valid selection
				breaker = append(breaker, func(old, new []item) bool { return len(new) < len(old) })
			}
			if !guard("Knapsack", in, func() {
				sel = algz.Knapsack(limit, append([]item{}, items...), func(x item) int { return x.W }, func(x item) int { return x.V }, breaker...)
			}) {
				continue
			}
			w, v := 0, 0
			for _, it := range sel {
				w += it.W
				v += it.V
				if it.Idx < 0 || it.Idx >= len(items) || items[it.Idx] != it {
					rep("Knapsack", "value", in, "only given items", sel)
				}
			}
			if !distinct(sel) || w > limit || v != opt {
				rep("Knapsack", "value", in, fmt.Sprintf("distinct items, weight <= %d, value = %d", limit, opt), map[string]interface{}{"selection": sel, "weight": w, "value": v})
			}
		}
	case "sums":
		vals := core.RawInts(c.S)
		mx := core.RawInt(c.A[0])
		var o struct {
			Totals  []int `json:"totals"`
			MinOver int   `json:"minover"`
		}
		json.Unmarshal(c.Out, &o)
		items := make([]item, len(vals))
		for i, v := range vals {
			items[i] = item{i, 0, v}
		}
		if len(items) > 1 {
			st.Nontrivial++
		}
		for _, allow := range []bool{false, true} {
			for rep3 := 0; rep3 < 2; rep3++ { // map iteration order varies which cells are recycled
				in := map[string]interface{}{"values": vals, "max": mx, "allowOverOnce": allow}
				var dp algz.DpSolvers[item]
				if !guard("FindDpSolvers", in, func() {
					dp = algz.FindDpSolvers(mx, append([]item{}, items...), func(x item) int { return x.V }, allow)
				}) {
					continue
				}
				sum := func(sel []item) int {
					t := 0
					for _, it := range sel {
						t += it.V
					}
					return t
				}
				for k, sel := range dp {
					if sum(sel) != k || !distinct(sel) {
						rep("FindDpSolvers", "value", in, "every entry is a selection of distinct items with exactly that total", map[string]interface{}{"total": k, "selection": sel})
					}
					if k > mx && !allow {
						rep("FindDpSolvers", "value", in, "no total above max", k)
					}
				}
				for _, t := range o.Totals {
					if _, ok := dp[t]; !ok {
						rep("FindDpSolvers", "value", in, fmt.Sprintf("an entry for the attainable total %d", t), keys(dp))
					}
				}
				if allow && o.MinOver > 0 {
					if _, ok := dp[o.MinOver]; !ok {
						rep("FindDpSolvers", "value", in, fmt.Sprintf("an entry for the smallest total above max, %d", o.MinOver), keys(dp))
					}
				}
				best := 0
				for _, t := range o.Totals {
					if t > best {
						best = t
					}
				}
				if b := sum(dp.Best(mx)); b != best {
					rep("Best", "value", in, best, b)
				}
				if allow {
					want := best
					if best != mx && o.MinOver > 0 {
						want = o.MinOver
					}
					if b := sum(dp.BestAllowMinOverflow(mx)); b != want {
						rep("BestAllowMinOverflow", "value", in, want, b)
					}
				}
			}
		}
	case "cliques":
		edges := core.RawInts(c.S)
		n := core.RawInt(c.A[0])
		wantCodes := core.RawInts(c.Out)
		want := map[string]bool{}
		for _, code := range wantCodes {
			var cl []int
			for x := code; x > 0; x /= 8 {
				cl = append(cl, x%8)
			}
			sort.Ints(cl)
			want[fmt.Sprint(cl)] = true
		}
		in := map[string]interface{}{"n": n, "edges": edges}
		if len(edges) > 1 {
			st.Nontrivial++
		}
		for rep3 := 0; rep3 < 3; rep3++ {
			var fresh algz.Graph[int]
			g, off := &fresh, 0
			if rep3 == 1 {
				// one Graph value used for graph after graph (Init, rebuild, query): the vertices are named
				// differently each time, so that nothing remembered from the previous graph can pass for current
				sharedOff = 100 - sharedOff
				g, off = &sharedG, sharedOff
				g.Init(n)
			}
			for v := 1; v <= n; v++ {
				g.AddNode(v + off)
			}
			rot := 0
			if len(c.A) > 1 {
				rot = core.RawInt(c.A[1])
			}
			for k, e := range edges {
				a, b := e/10+off, e%10+off
				form := (k + 1 + rot) % 6 // FormAt of Algz.tla (edges are numbered from 1 there)
				if rep3 == 1 {
					form = 0
				}
				switch form {
				case 0:
					g.AddUndirectedEdge(a, b)
				case 1:
					g.AddUndirectedEdge(b, a)
				case 2:
					g.AddEdge(a, b)
					g.AddEdge(b, a)
				case 3:
					g.AddEdge(a, b)
					g.AddUndirectedEdge(a, b)
				case 4:
					g.AddEdge(b, a)
					g.AddUndirectedEdge(a, b)
				case 5:
					g.AddUndirectedEdge(a, b)
					g.AddUndirectedEdge(a, b)
				}
			}
			var cs [][]int
			if !guard("GetMaximalCliques", in, func() { cs = g.GetMaximalCliques() }) {
				continue
			}
			got := map[string]int{}
			for _, cl := range cs {
				x := append([]int{}, cl...)
				for i := range x {
					x[i] -= off
				}
				sort.Ints(x)
				got[fmt.Sprint(x)]++
			}
			ok := len(got) == len(want)
			for k, cnt := range got {
				if !want[k] || cnt != 1 {
					ok = false
				}
			}
			if !ok {
				rep("GetMaximalCliques", "value", in, keysS(want), cs)
			}
		}
	default:
		panic("unknown fn " + c.Fn)
	}
}

// hugeW maps the specification's Huge (2^30) to the largest int and Huge - 1 to 2^62
func hugeW(w int) int {
	switch w {
	case 1 << 30:
		return math.MaxInt
	case 1<<30 - 1:
		return 1 << 62
	}
	return w
}

func keys(m algz.DpSolvers[item]) []int {
	out := []int{}
	for k := range m {
		out = append(out, k)
	}
	sort.Ints(out)
	return out
}

func keysS(m map[string]bool) []string {
	out := []string{}
	for k := range m {
		out = append(out, k)
	}
	sort.Strings(out)
	return out
}

func main() { core.CasesMain("c18", run, nil) }
