// Conformance harness for the unexported trieNodeQueue of algz (failure-link construction).
package main

import (
	"encoding/json"
	"math/rand"

	"github.com/welllog/golib/algz"
	"verifharness/core"
)

type ad struct {
	q    *algz.VerifQueue
	next int
}

func (a *ad) Reset(s json.RawMessage) error {
	var st struct {
		Cap int `json:"cap"`
	}
	json.Unmarshal(s, &st)
	if st.Cap < 1 {
		st.Cap = 1
	}
	a.q = algz.VerifNewQueue(st.Cap)
	a.next = 0
	return nil
}

func (a *ad) Apply(op core.Op) (interface{}, error) {
	switch op.N {
	case "Push":
		a.q.Push(core.ArgInt(op, 0))
		return []int{}, nil
	case "Pop":
		return []int{a.q.Pop()}, nil
	}
	panic("unknown op " + op.N)
}

func (a *ad) Obs() interface{} {
	return map[string]interface{}{"len": a.q.Len(), "empty": a.q.IsEmpty()}
}
func (a *ad) Struct() interface{} {
	return map[string]interface{}{"cap": a.q.Cap(), "len": a.q.Len()}
}
func (a *ad) Drain() interface{} {
	out := []int{}
	for i := 0; i < 1<<16 && !a.q.IsEmpty(); i++ {
		out = append(out, a.q.Pop())
	}
	return out
}

type gen struct{ n int }

func (g *gen) Init(rng *rand.Rand) json.RawMessage {
	g.n = 0
	b, _ := json.Marshal(map[string]int{"cap": []int{1, 2, 3, 10, 10}[rng.Intn(5)]})
	return b
}
func (g *gen) Next(rng *rand.Rand, step int) core.Op {
	// bursts of pushes with some pops in between (the BFS frontier), so that the ring grows while rotated
	if rng.Intn(10) < 6 {
		g.n++
		return core.MkOp("Push", g.n)
	}
	return core.MkOp("Pop")
}

func main() { core.Main("NodeQueue", func() core.Adapter { return &ad{} }, &gen{}) }
