// Case runner for property C07 (backslash escape codecs of strz/enc.go); cases from Escape.tla.
package main

import (
	"bytes"
	"encoding/json"
	"strings"
	"time"

	"github.com/welllog/golib/strz"
	"verifharness/core"
)

func toBytes(r json.RawMessage) []byte {
	xs := core.RawInts(r)
	b := make([]byte, len(xs))
	for i, x := range xs {
		b[i] = byte(x)
	}
	return b
}

type codec struct {
	format    func([]byte) []byte
	formatS   func(string) string
	parse     func(dst, src []byte) int
	parseSB   func([]byte) string
	parseSS   func(string) string
}

var codecs = map[string]codec{
	"octal": {func(b []byte) []byte { return strz.OctalFormat(b) }, func(s string) string { return strz.OctalFormatToString(s) }, strz.OctalParse,
		func(b []byte) string { return strz.OctalParseToString(b) }, func(s string) string { return strz.OctalParseToString(s) }},
	"hex": {func(b []byte) []byte { return strz.HexFormat(b) }, func(s string) string { return strz.HexFormatToString(s) }, strz.HexParse,
		func(b []byte) string { return strz.HexParseToString(b) }, func(s string) string { return strz.HexParseToString(s) }},
	"U": {func(b []byte) []byte { return strz.UnicodeFormat(b) }, func(s string) string { return strz.UnicodeFormatToString(s) }, strz.UnicodeParse,
		func(b []byte) string { return strz.UnicodeParseToString(b) }, func(s string) string { return strz.UnicodeParseToString(s) }},
	"u": {func(b []byte) []byte { return strz.Utf16Format(b) }, func(s string) string { return strz.Utf16FormatToString(s) }, strz.Utf16Parse,
		func(b []byte) string { return strz.Utf16ParseToString(b) }, func(s string) string { return strz.Utf16ParseToString(s) }},
}

func run(c *core.Case, st *core.CaseStats, seed int64) {
	var k string
	json.Unmarshal(c.A[0], &k)
	cd := codecs[k]
	rep := func(fn, kind string, in, exp, act interface{}) {
		st.Add(core.Mismatch{Fn: fn, Kind: kind, Case: c, Input: in, Expected: exp, Actual: act})
	}
	guard := func(fn string, in interface{}, f func()) bool {
		st.Calls++
		msg, p, hung := core.GuardTimed(f, 20*time.Second)
		if hung {
			rep(fn, "hang", in, "returns", msg)
			return false
		}
		if p {
			rep(fn, "panic", in, "no panic", msg)
			return false
		}
		return true
	}
	switch c.Fn {
	case "format", "formatbad":
		var input []byte
		if c.Fn == "formatbad" {
			n := core.RawInts(c.S)[0]
			input = bytes.Repeat([]byte{0xff}, n)
			if n > 1 {
				input[1] = 0xc0
			}
		} else {
			vals := core.RawInts(c.S)
			if k == "octal" || k == "hex" {
				for _, v := range vals {
					input = append(input, byte(v))
				}
			} else {
				var sb strings.Builder
				for _, v := range vals {
					sb.WriteRune(rune(v))
				}
				input = []byte(sb.String())
			}
		}
		want := toBytes(c.Out)
		in := map[string]interface{}{"codec": k, "input": input}
		if len(input) > 1 {
			st.Nontrivial++
		}
		orig := append([]byte{}, input...)
		var got []byte
		var gotS string
		if guard(k+"Format", in, func() { got = cd.format(input); gotS = cd.formatS(string(input)) }) {
			core.Retain(st, c, k+"FormatToString", in, gotS)
			core.RetainBytes(st, c, k+"Format", in, got)
			if !bytes.Equal(got, want) || gotS != string(want) {
				rep(k+"Format", "value", in, string(want), []string{string(got), gotS})
			}
			if !bytes.Equal(input, orig) {
				rep(k+"Format", "value", in, "input unchanged", input)
			}
			if c.Fn == "format" { // round trip
				dst := make([]byte, len(got))
				var n int
				if guard(k+"Parse", in, func() { n = cd.parse(dst, got) }) && !bytes.Equal(dst[:n], orig) {
					rep(k+"Parse", "value", in, orig, dst[:n])
				}
			}
		}
	case "parse":
		src := toBytes(c.S)
		exact := core.RawInt(c.A[1]) == 1
		want := toBytes(c.Out)
		in := map[string]interface{}{"codec": k, "input": string(src), "input_bytes": src}
		if len(src) > 4 {
			st.Nontrivial++
		}
		orig := append([]byte{}, src...)
		dst := make([]byte, len(src))
		var n int
		var s1, s2 string
		src = core.Spare(src)
		if !guard(k+"Parse", in, func() { n = cd.parse(dst, src) }) {
			return
		}
		if !core.SpareIntact(src) {
			rep(k+"Parse", "value", in, "nothing written behind the end of the input slice", "the caller's memory behind src changed")
		}
		if !guard(k+"ParseToString", in, func() { s1 = cd.parseSB(append([]byte{}, orig...)); s2 = cd.parseSS(string(orig)) }) {
			return
		}
		if n < 0 || n > len(src) {
			rep(k+"Parse", "value", in, "at most len(input) bytes", n)
			return
		}
		out := dst[:n]
		core.Retain(st, c, k+"ParseToString", in, s1)
		core.Retain(st, c, k+"ParseToString", in, s2)
		if s1 != string(out) || s2 != string(out) {
			rep(k+"ParseToString", "value", in, string(out), []string{s1, s2})
		}
		if !bytes.Equal(src, orig) {
			rep(k+"Parse", "value", in, "input unchanged", src)
		}
		if exact {
			if !bytes.Equal(out, want) {
				rep(k+"Parse", "value", in, want, out)
			}
		} else if bytes.IndexByte(orig, '\\') < 0 && !bytes.Equal(out, orig) {
			rep(k+"Parse", "value", in, "backslash-free input unchanged", out)
		}
	case "parseimpl":
		// the output the step-level specification of the parser (ScanParse.tla) computes for this input
		src := toBytes(c.S)
		exact := core.RawInt(c.A[1]) == 1
		want := toBytes(c.Out)
		in := map[string]interface{}{"codec": k, "input": string(src), "input_bytes": src}
		if len(src) > 4 {
			st.Nontrivial++
		}
		dst := make([]byte, len(src))
		var n int
		if !guard(k+"Parse", in, func() { n = cd.parse(dst, append([]byte{}, src...)) }) {
			return
		}
		if n < 0 || n > len(src) {
			rep(k+"Parse", "value", in, "at most len(input) bytes", n)
			return
		}
		if !bytes.Equal(dst[:n], want) {
			kind := "drift" // malformed input: the property leaves the exact output open
			if exact {
				kind = "value"
			}
			rep(k+"Parse", kind, in, want, dst[:n])
		}
	default:
		panic("unknown fn " + c.Fn)
	}
}

func main() { core.CasesMain("c07", run, nil) }
