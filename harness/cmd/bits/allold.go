//go:build !go1.23

package main

import "github.com/welllog/golib/setz"

func allBits(b *setz.Bits) []uint {
	out := []uint{}
	b.Range(func(v uint) bool { out = append(out, v); return true })
	return out
}

func heldBits(b *setz.Bits) func(func(uint) bool) { return nil }
