// Conformance harness for setz.Bits, setz.Bitmap and dsz.Bits (property C16).
// VERIF_FLAVOUR = bits | bitmap | dsz selects the type under test.
package main

import (
	"encoding/json"
	"math/rand"
	"os"

	"github.com/welllog/golib/dsz"
	"github.com/welllog/golib/setz"
	"verifharness/core"
)

// set is the common surface the three types are driven through
type set interface {
	Add(n uint) bool
	Remove(n uint) bool
	Contains(n uint) bool
	Grow(n uint)
	Len() int
	Cap() int
	Iter() []uint
	IterPair() [][]uint
	IterRemove(k int) []uint
	Range(k int) []uint
	All() []uint
}

type bitsS struct {
	b    setz.Bits
	held func(func(uint) bool)
}

func (s *bitsS) Add(n uint) bool      { return s.b.Add(n) }
func (s *bitsS) Remove(n uint) bool   { return s.b.Remove(n) }
func (s *bitsS) Contains(n uint) bool { return s.b.Contains(n) }
func (s *bitsS) Grow(n uint)          { s.b.Grow(n) }
func (s *bitsS) Len() int             { return s.b.Len() }
func (s *bitsS) Cap() int             { return s.b.Cap() }
func (s *bitsS) Iter() []uint {
	out := []uint{}
	for it := s.b.Iter(); it.Next() && len(out) < 1<<16; {
		out = append(out, it.Value())
	}
	return out
}
func (s *bitsS) IterPair() [][]uint {
	return core.IterPair(func() (func() bool, func() uint) { it := s.b.Iter(); return it.Next, it.Value })
}
func (s *bitsS) IterRemove(k int) []uint {
	out := []uint{}
	for it := s.b.Iter(); it.Next() && len(out) < 1<<16; {
		v := it.Value()
		out = append(out, v)
		if k == 2 || int(v%2) == k {
			s.b.Remove(v)
		}
	}
	return out
}
func (s *bitsS) Range(k int) []uint {
	out := []uint{}
	s.b.Range(func(v uint) bool { out = append(out, v); return len(out) < k })
	return out
}
func (s *bitsS) All() []uint {
	if s.held == nil {
		s.held = heldBits(&s.b)
	}
	if s.held == nil {
		return allBits(&s.b)
	}
	s.held(func(uint) bool { return false })
	out := []uint{}
	s.held(func(v uint) bool { out = append(out, v); return len(out) < 1<<16 })
	return out
}

type bitmapS struct{ b setz.Bitmap }

func (s *bitmapS) Add(n uint) bool      { return s.b.Add(n) }
func (s *bitmapS) Remove(n uint) bool   { return s.b.Remove(n) }
func (s *bitmapS) Contains(n uint) bool { return s.b.Contains(n) }
func (s *bitmapS) Grow(n uint)          { s.b.Grow(n) }
func (s *bitmapS) Len() int             { return s.b.Len() }
func (s *bitmapS) Cap() int             { return s.b.Cap() }
func (s *bitmapS) Iter() []uint {
	out := []uint{}
	for it := s.b.Iter(); it.Next() && len(out) < 1<<16; {
		out = append(out, it.Value())
	}
	return out
}
func (s *bitmapS) IterPair() [][]uint {
	return core.IterPair(func() (func() bool, func() uint) { it := s.b.Iter(); return it.Next, it.Value })
}
func (s *bitmapS) IterRemove(k int) []uint {
	out := []uint{}
	for it := s.b.Iter(); it.Next() && len(out) < 1<<16; {
		v := it.Value()
		out = append(out, v)
		if k == 2 || int(v%2) == k {
			s.b.Remove(v)
		}
	}
	return out
}
func (s *bitmapS) Range(k int) []uint {
	out := []uint{}
	s.b.Range(func(v uint) bool { out = append(out, v); return len(out) < k })
	return out
}
func (s *bitmapS) All() []uint { return s.Range(1 << 30) } // Bitmap has no All(): Range is its full enumeration

type dszS struct{ b dsz.Bits }

// dsz.Bits.Add/Remove return nothing: "changed" is read off Len(), which must be the cardinality
func (s *dszS) Add(n uint) bool      { l := s.b.Len(); s.b.Add(n); return s.b.Len() == l+1 }
func (s *dszS) Remove(n uint) bool   { l := s.b.Len(); s.b.Remove(n); return s.b.Len() == l-1 }
func (s *dszS) Contains(n uint) bool { return s.b.Contains(n) }
func (s *dszS) Grow(n uint)          { s.b.Grow(n) }
func (s *dszS) Len() int             { return s.b.Len() }
func (s *dszS) Cap() int             { return s.b.Cap() }
func (s *dszS) Iter() []uint {
	out := []uint{}
	for it := s.b.Iter(); it.Next() && len(out) < 1<<16; {
		out = append(out, it.Value())
	}
	return out
}
func (s *dszS) IterPair() [][]uint {
	return core.IterPair(func() (func() bool, func() uint) { it := s.b.Iter(); return it.Next, it.Value })
}
func (s *dszS) IterRemove(k int) []uint {
	out := []uint{}
	for it := s.b.Iter(); it.Next() && len(out) < 1<<16; {
		v := it.Value()
		out = append(out, v)
		if k == 2 || int(v%2) == k {
			s.b.Remove(v)
		}
	}
	return out
}
func (s *dszS) Range(k int) []uint { // no Range on dsz.Bits: a prefix of the iterator
	out := s.Iter()
	if len(out) > k {
		out = out[:k]
	}
	return out
}
func (s *dszS) All() []uint { return s.Iter() }

type ad struct {
	flavour string
	x, y    set
}

func (a *ad) mk() set {
	switch a.flavour {
	case "bitmap":
		return &bitmapS{}
	case "dsz":
		return &dszS{}
	}
	return &bitsS{}
}

func (a *ad) Reset(s json.RawMessage) error {
	a.x, a.y = a.mk(), a.mk()
	return nil
}

func (a *ad) bulk(name string) {
	switch x := a.x.(type) {
	case *bitsS:
		y := a.y.(*bitsS)
		switch name {
		case "Diff":
			x.b.Diff(y.b)
		case "Intersect":
			x.b.Intersect(y.b)
		case "Merge":
			x.b.Merge(y.b)
		case "CloneToY", "CloneToYRaw":
			// Bits has no Clone of its own: the embedded Bitmap is cloned and the cardinality recounted
			c := x.b.Bitmap.Clone()
			nb := setz.Bits{Bitmap: c}
			var z setz.Bits
			nb.Merge(z) // recount through a bulk operation with an empty operand
			y.b = nb
		}
	case *bitmapS:
		y := a.y.(*bitmapS)
		switch name {
		case "Diff":
			x.b.Diff(y.b)
		case "Intersect":
			x.b.Intersect(y.b)
		case "Merge":
			x.b.Merge(y.b)
		case "CloneToY", "CloneToYRaw":
			y.b = x.b.Clone()
		}
	case *dszS:
		// dsz.Bits has no bulk operations: emulate them element-wise through its own API so the
		// same graph can be walked (this only exercises Add/Remove/Contains/Iter further)
		y := a.y.(*dszS)
		switch name {
		case "Diff":
			for _, v := range y.Iter() {
				x.b.Remove(v)
			}
		case "Intersect":
			for _, v := range x.Iter() {
				if !y.b.Contains(v) {
					x.b.Remove(v)
				}
			}
		case "Merge":
			for _, v := range y.Iter() {
				x.b.Add(v)
			}
			if y.b.Cap() > 0 {
				x.b.Grow(uint(y.b.Cap() - 1))
			}
		case "CloneToY", "CloneToYRaw":
			var nb dsz.Bits
			if x.b.Cap() > 0 {
				nb.Grow(uint(x.b.Cap() - 1))
			}
			for _, v := range x.Iter() {
				nb.Add(v)
			}
			y.b = nb
		}
	}
}

func boolInt(b bool) int {
	if b {
		return 1
	}
	return 0
}

func (a *ad) Apply(op core.Op) (interface{}, error) {
	switch op.N {
	case "Add":
		return []bool{a.x.Add(uint(core.ArgInt(op, 0)))}, nil
	case "Remove":
		return []bool{a.x.Remove(uint(core.ArgInt(op, 0)))}, nil
	case "Contains":
		return []bool{a.x.Contains(uint(core.ArgInt(op, 0)))}, nil
	case "Grow":
		a.x.Grow(uint(core.ArgInt(op, 0)))
		return []int{}, nil
	case "AddRange", "RemoveRange":
		lo, hi, n := core.ArgInt(op, 0), core.ArgInt(op, 1), 0
		for v := lo; v <= hi; v++ {
			if op.N == "AddRange" && a.x.Add(uint(v)) || op.N == "RemoveRange" && a.x.Remove(uint(v)) {
				n++
			}
		}
		return []int{n}, nil
	case "CloneGrowBoth":
		a.bulk("CloneToYRaw")
		a.x.Add(uint(core.ArgInt(op, 0)))
		a.y.Add(uint(core.ArgInt(op, 1)))
		return []int{}, nil
	case "IterRemove":
		return []interface{}{a.x.IterRemove(core.ArgInt(op, 0))}, nil
	case "AddY":
		return []bool{a.y.Add(uint(core.ArgInt(op, 0)))}, nil
	case "RemoveY":
		return []bool{a.y.Remove(uint(core.ArgInt(op, 0)))}, nil
	case "Diff", "Intersect", "Merge", "CloneToY":
		a.bulk(op.N)
		return []int{}, nil
	}
	panic("unknown op " + op.N)
}

func (a *ad) Obs() interface{} {
	return map[string]interface{}{"len": a.x.Len(), "iter": a.x.Iter(), "iterpair": a.x.IterPair(), "range2": a.x.Range(2), "all": a.x.All(),
		"ylen": a.y.Len(), "yiter": a.y.Iter()}
}

func (a *ad) Struct() interface{} {
	return map[string]interface{}{"xcap": a.x.Cap(), "ycap": a.y.Cap(), "x": a.x.Iter(), "y": a.y.Iter()}
}

func (a *ad) Drain() interface{} {
	// membership through Contains over a window, independent of the iterators
	out := []uint{}
	for n := uint(0); n < uint(a.x.Cap())+130; n++ {
		if a.x.Contains(n) {
			out = append(out, n)
		}
	}
	return out
}

type gen struct{}

func (gen) Init(rng *rand.Rand) json.RawMessage { return json.RawMessage(`{}`) }
func (gen) Next(rng *rand.Rand, step int) core.Op {
	val := func() int {
		switch rng.Intn(3) {
		case 0:
			// word boundaries, and the boundaries of 16- and 17-bit positions (a bitmap of more than 1024 words)
			return []int{0, 1, 62, 63, 64, 65, 127, 128, 129, 191, 192, 4095, 4096, 65535, 65536, 65537, 70000, 131071, 131072, 131135}[rng.Intn(20)]
		case 1:
			return rng.Intn(200)
		}
		return rng.Intn(4200)
	}
	switch x := rng.Intn(28); {
	case x == 24:
		return core.MkOp("IterRemove", rng.Intn(3))
	case x == 25: // dense stretches: whole words, 32 and more of them
		lo := 64 * rng.Intn(8)
		return core.MkOp("AddRange", lo, lo+[]int{7, 63, 64, 255, 2047, 2111}[rng.Intn(6)])
	case x == 26:
		lo := 64*rng.Intn(8) + rng.Intn(2)*8
		return core.MkOp("RemoveRange", lo, lo+[]int{7, 63, 200, 1000}[rng.Intn(4)])
	case x == 27:
		return core.MkOp("CloneGrowBoth", 4300+rng.Intn(400), 4800+rng.Intn(400))
	case x < 7:
		return core.MkOp("Add", val())
	case x < 11:
		return core.MkOp("Remove", val())
	case x < 13:
		return core.MkOp("Contains", val())
	case x < 14:
		return core.MkOp("Grow", val())
	case x < 17:
		return core.MkOp("AddY", val())
	case x < 18:
		return core.MkOp("RemoveY", val())
	case x < 20:
		return core.MkOp("Diff")
	case x < 21:
		return core.MkOp("Intersect")
	case x < 23:
		return core.MkOp("Merge")
	default:
		return core.MkOp("CloneToY")
	}
}

func main() {
	fl := os.Getenv("VERIF_FLAVOUR")
	if fl == "" {
		fl = "bits"
	}
	core.Main("Bits-"+fl, func() core.Adapter { return &ad{flavour: fl} }, gen{})
}
