//go:build go1.23

package main

import "github.com/welllog/golib/setz"

func allBits(b *setz.Bits) []uint {
	out := []uint{}
	b.All()(func(v uint) bool { out = append(out, v); return true })
	return out
}

// the iterator value of Bits.All is taken once (when the adapter is reset) and ranged at every observation: first a
// pass that stops after one value, then a full one
func heldBits(b *setz.Bits) func(func(uint) bool) { return b.All() }
