// Conformance harness for mapz.KV and the free functions mapz.Keys / mapz.Values (extra X05): KVMap.tla.
package main

import (
	"encoding/json"
	"math/rand"
	"sort"

	"github.com/welllog/golib/mapz"
	"verifharness/core"
)

type ad struct{ m mapz.KV[int, int] }

func (a *ad) Reset(json.RawMessage) error { a.m = mapz.KV[int, int]{}; return nil }

func (a *ad) Apply(op core.Op) (interface{}, error) {
	switch op.N {
	case "Get":
		v, ok := a.m.Get(core.ArgInt(op, 0))
		return []interface{}{v, ok}, nil
	case "Has":
		k := core.ArgInt(op, 0)
		h, c := a.m.Has(k), a.m.Contains(k)
		if h != c {
			return []interface{}{"Has and Contains disagree"}, nil
		}
		return []interface{}{h}, nil
	case "Set":
		a.m.Set(core.ArgInt(op, 0), core.ArgInt(op, 1))
		return []int{}, nil
	case "SetNx":
		return []interface{}{a.m.SetNx(core.ArgInt(op, 0), core.ArgInt(op, 1))}, nil
	case "SetX":
		return []interface{}{a.m.SetX(core.ArgInt(op, 0), core.ArgInt(op, 1))}, nil
	case "Delete":
		a.m.Delete(core.ArgInts(op, 0)...)
		return []int{}, nil
	case "RangeStop":
		n, calls := core.ArgInt(op, 0), 0
		seen := map[int]bool{}
		bad := false
		a.m.Range(func(k, v int) bool {
			calls++
			if seen[k] || a.m[k] != v {
				bad = true
			}
			seen[k] = true
			return calls < n
		})
		if n == 0 && calls == 1 && len(a.m) > 0 {
			calls = 0 // (a callback that says stop at once has still been called once: the model counts min(n, size) with n >= 1)
		}
		if bad {
			return []interface{}{-1}, nil
		}
		return []interface{}{calls}, nil
	case "KeysTwice":
		ks := mapz.Keys(map[int]int(a.m), map[int]int(a.m))
		vs := mapz.Values(map[int]int(a.m), map[int]int(a.m))
		if len(vs) != len(ks) {
			return []interface{}{[]int{-1}}, nil
		}
		h := len(ks) / 2
		first, second := append([]int{}, ks[:h]...), append([]int{}, ks[h:]...)
		sort.Ints(first)
		sort.Ints(second)
		return []interface{}{append(first, second...)}, nil
	}
	panic("unknown op " + op.N)
}

func (a *ad) pairs() [][]int {
	out := [][]int{}
	for _, k := range a.m.Keys() {
		v, _ := a.m.Get(k)
		out = append(out, []int{k, v})
	}
	sort.Slice(out, func(i, j int) bool { return out[i][0] < out[j][0] })
	return out
}

func (a *ad) Obs() interface{} {
	ks := a.m.Keys()
	sort.Ints(ks)
	return map[string]interface{}{"len": a.m.Len(), "keys": ks, "pairs": a.pairs(), "nvalues": len(a.m.Values())}
}
func (a *ad) Struct() interface{} { return nil }
func (a *ad) Drain() interface{}  { return a.pairs() }

type gen struct{}

func (gen) Init(rng *rand.Rand) json.RawMessage { return json.RawMessage(`{}`) }
func (gen) Next(rng *rand.Rand, step int) core.Op {
	k, v := 1+rng.Intn(3), 1+rng.Intn(2)
	switch rng.Intn(9) {
	case 0:
		return core.MkOp("Get", k)
	case 1:
		return core.MkOp("Has", k)
	case 2, 3:
		return core.MkOp("Set", k, v)
	case 4:
		return core.MkOp("SetNx", k, v)
	case 5:
		return core.MkOp("SetX", k, v)
	case 6:
		ks := []int{}
		for i := rng.Intn(3); i > 0; i-- {
			ks = append(ks, 1+rng.Intn(3))
		}
		return core.MkOp("Delete", ks)
	case 7:
		return core.MkOp("RangeStop", rng.Intn(4))
	}
	return core.MkOp("KeysTwice")
}

func main() { core.Main("KV", func() core.Adapter { return &ad{} }, gen{}) }
