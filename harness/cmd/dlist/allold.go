//go:build !go1.23

package main

import "github.com/welllog/golib/listz"

func heldAll(l *listz.DList[int]) func(func(int) bool) { return nil }

func rangeAll(seq func(func(int) bool), fallback []int) []int { return fallback }
