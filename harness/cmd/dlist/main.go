// Conformance harness for listz.DList (property C13): handles are integers, the adapter keeps the
// map handle <-> *DNode and mirrors every operation on container/list (second oracle).
package main

import (
	"container/list"
	"encoding/json"
	"math/rand"

	"github.com/welllog/golib/listz"
	"verifharness/core"
)

type ad struct {
	held func(func(int) bool)
	a, b  *listz.DList[int]
	node  map[int]*listz.DNode[int]
	id    map[*listz.DNode[int]]int
	sa    *list.List // mirror of a
	sel   map[int]*list.Element
	n     int
	zeroA bool
}

func (x *ad) Reset(s json.RawMessage) error {
	// alternate between a zero-value list and a constructed one
	x.zeroA = !x.zeroA
	if x.zeroA {
		x.a = new(listz.DList[int])
	} else {
		x.a = listz.NewDoubly[int]()
	}
	x.b = new(listz.DList[int])
	x.held = heldAll(x.a)
	x.node = map[int]*listz.DNode[int]{}
	x.id = map[*listz.DNode[int]]int{}
	x.sa = list.New()
	x.sel = map[int]*list.Element{}
	x.n = 0
	return nil
}

func (x *ad) reg(e *listz.DNode[int]) int {
	if e == nil {
		return 0
	}
	if i, ok := x.id[e]; ok {
		return i
	}
	x.n++
	x.node[x.n] = e
	x.id[e] = x.n
	return x.n
}

// discover registers unknown nodes of A in front-to-back order (after a list copy)
func (x *ad) discover() {
	for e := x.a.Front(); e != nil; e = e.Next() {
		x.reg(e)
	}
}

// mirror helpers: the std element of handle h, or a detached dummy when h is not in the mirror
func (x *ad) std(h int) *list.Element {
	if e, ok := x.sel[h]; ok {
		return e
	}
	return &list.Element{}
}

func (x *ad) Apply(op core.Op) (interface{}, error) {
	switch op.N {
	case "PushFront":
		v := core.ArgInt(op, 0)
		h := x.reg(x.a.PushFront(v))
		x.sel[h] = x.sa.PushFront(v)
		return []int{h}, nil
	case "PushBack":
		v := core.ArgInt(op, 0)
		h := x.reg(x.a.PushBack(v))
		x.sel[h] = x.sa.PushBack(v)
		return []int{h}, nil
	case "PushBackB":
		h := x.reg(x.b.PushBack(core.ArgInt(op, 0)))
		return []int{h}, nil
	case "InsertBefore", "InsertAfter":
		v, m := core.ArgInt(op, 0), core.ArgInt(op, 1)
		var e *listz.DNode[int]
		var se *list.Element
		if op.N == "InsertBefore" {
			e = x.a.InsertBefore(v, x.node[m])
			se = x.sa.InsertBefore(v, x.std(m))
		} else {
			e = x.a.InsertAfter(v, x.node[m])
			se = x.sa.InsertAfter(v, x.std(m))
		}
		h := x.reg(e)
		if se != nil && h != 0 {
			x.sel[h] = se
		}
		return []int{h}, nil
	case "Remove":
		h := core.ArgInt(op, 0)
		v := x.a.Remove(x.node[h])
		if se, ok := x.sel[h]; ok {
			x.sa.Remove(se)
			delete(x.sel, h)
		}
		return []int{v}, nil
	case "MoveToFront":
		h := core.ArgInt(op, 0)
		x.a.MoveToFront(x.node[h])
		x.sa.MoveToFront(x.std(h))
		return []int{}, nil
	case "MoveToBack":
		h := core.ArgInt(op, 0)
		x.a.MoveToBack(x.node[h])
		x.sa.MoveToBack(x.std(h))
		return []int{}, nil
	case "MoveBefore":
		h, m := core.ArgInt(op, 0), core.ArgInt(op, 1)
		x.a.MoveBefore(x.node[h], x.node[m])
		x.sa.MoveBefore(x.std(h), x.std(m))
		return []int{}, nil
	case "MoveAfter":
		h, m := core.ArgInt(op, 0), core.ArgInt(op, 1)
		x.a.MoveAfter(x.node[h], x.node[m])
		x.sa.MoveAfter(x.std(h), x.std(m))
		return []int{}, nil
	case "PushFrontNode":
		h := core.ArgInt(op, 0)
		x.a.PushFrontNode(x.node[h])
		x.sel[h] = x.sa.PushFront(x.node[h].Value)
		return []int{}, nil
	case "PushBackNode":
		h := core.ArgInt(op, 0)
		x.a.PushBackNode(x.node[h])
		x.sel[h] = x.sa.PushBack(x.node[h].Value)
		return []int{}, nil
	case "InsertNodeBefore", "InsertNodeAfter":
		h, m := core.ArgInt(op, 0), core.ArgInt(op, 1)
		var se *list.Element
		if op.N == "InsertNodeBefore" {
			x.a.InsertNodeBefore(x.node[h], x.node[m])
			se = x.sa.InsertBefore(x.node[h].Value, x.std(m))
		} else {
			x.a.InsertNodeAfter(x.node[h], x.node[m])
			se = x.sa.InsertAfter(x.node[h].Value, x.std(m))
		}
		if se != nil {
			x.sel[h] = se
		}
		return []int{}, nil
	case "PushBackDList", "PushFrontDList":
		which := core.ArgStr(op, 0)
		src := x.a
		ssrc := x.sa
		if which == "B" {
			src = x.b
			ssrc = list.New()
			for e := x.b.Front(); e != nil; e = e.Next() {
				ssrc.PushBack(e.Value)
			}
		}
		if op.N == "PushBackDList" {
			x.a.PushBackDList(src)
			x.sa.PushBackList(ssrc)
		} else {
			x.a.PushFrontDList(src)
			x.sa.PushFrontList(ssrc)
		}
		x.discover()
		// re-link the mirror elements of the new handles by position
		i := 0
		se := x.sa.Front()
		for e := x.a.Front(); e != nil && se != nil; e, se = e.Next(), se.Next() {
			x.sel[x.id[e]] = se
			i++
		}
		return []int{}, nil
	}
	panic("unknown op " + op.N)
}

func (x *ad) Obs() interface{} {
	fwd, bwd, vals, other, std := []int{}, []int{}, []int{}, []int{}, []int{}
	in := map[int]bool{}
	for e, i := x.a.Front(), 0; e != nil && i < 64; e, i = e.Next(), i+1 {
		fwd = append(fwd, x.reg(e))
		vals = append(vals, e.Value)
		in[x.id[e]] = true
	}
	for e, i := x.a.Back(), 0; e != nil && i < 64; e, i = e.Prev(), i+1 {
		bwd = append(bwd, x.reg(e))
	}
	for e, i := x.b.Front(), 0; e != nil && i < 64; e, i = e.Next(), i+1 {
		other = append(other, x.reg(e))
		in[x.id[e]] = true
	}
	for e := x.sa.Front(); e != nil; e = e.Next() {
		std = append(std, e.Value.(int))
	}
	return map[string]interface{}{"len": x.a.Len(), "fwd": fwd, "bwd": bwd, "vals": vals, "all": rangeAll(x.held, vals), "other": other, "std": std, "out": x.outVec(in)}
}

var nHandles = 3

func (x *ad) outVec(in map[int]bool) []int {
	out := make([]int, nHandles)
	for h := 1; h <= nHandles; h++ {
		if !in[h] {
			out[h-1] = 1
		}
	}
	return out
}

func (x *ad) Struct() interface{} { return x.Obs() }
func (x *ad) Drain() interface{} {
	fwd := []int{}
	for e, i := x.a.Front(), 0; e != nil && i < 64; e, i = e.Next(), i+1 {
		fwd = append(fwd, x.reg(e))
	}
	return fwd
}

func main() {
	core.PreHook = func(edges []*core.Edge) {
		// number of handles of the model = length of the "out" vector
		var o struct {
			Out []int `json:"out"`
		}
		if len(edges) > 0 && json.Unmarshal(edges[0].F.O, &o) == nil && len(o.Out) > 0 {
			nHandles = len(o.Out)
		}
	}
	core.Main("DList", func() core.Adapter { return &ad{} }, nil)
}

var _ = rand.Int
