//go:build go1.23

package main

import "github.com/welllog/golib/listz"

// heldAll takes the iterator value once; rangeAll ranges it later (first a pass that stops after one value, then a
// full one): an iter.Seq is a recipe evaluated when it is ranged, however long it has been held
func heldAll(l *listz.DList[int]) func(func(int) bool) { return l.All() }

func rangeAll(seq func(func(int) bool), fallback []int) []int {
	if seq == nil {
		return fallback
	}
	seq(func(int) bool { return false })
	out := []int{}
	seq(func(v int) bool { out = append(out, v); return len(out) < 1000 })
	return out
}
