//go:build nowb

package main

func (o *obj) WhiteBox() bool     { return false }
func (o *obj) writerInside() bool { return true } // unknown: never look while somebody may be inside
func (o *obj) Shared() interface{} { return nil }
