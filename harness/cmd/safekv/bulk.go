package main

// Large-map scenario (OwnedKeys.tla): W owner goroutines, each the only writer of its own keys, grow the map to
// thousands of entries and then shrink it to a fraction while overwriting what is left; real goroutines, -race build.

import (
	"encoding/json"
	"flag"
	"fmt"
	"math/rand"
	"os"
	"sort"
	"sync"
	"sync/atomic"

	"github.com/welllog/golib/mapz"
)

type snap struct {
	Ev       string `json:"ev"`
	Op       string `json:"op"`
	Versions []int  `json:"versions"`
	N        int    `json:"n"`
	Keys     int    `json:"keys"`
}

// snapshots: a writer re-versions every key atomically through Map(fn) while readers take snapshots of hundreds of keys
func snapshots(rng *rand.Rand, emit func(snap)) {
	keys := []int{300, 1000}[rng.Intn(2)]
	kv := mapz.NewSafeKV[int, int](0)
	for k := 0; k < keys; k++ {
		kv.Set(k, 1)
	}
	var stop int32
	var wg sync.WaitGroup
	wg.Add(1)
	go func() {
		defer wg.Done()
		for v := 2; atomic.LoadInt32(&stop) == 0 && v < 1<<20; v++ {
			ver := v
			kv.Map(func(m mapz.KV[int, int]) {
				for k := range m {
					m[k] = ver
				}
			})
		}
	}()
	distinct := func(vals []int) []int {
		set := map[int]bool{}
		for _, v := range vals {
			set[v] = true
		}
		out := []int{}
		for v := range set {
			out = append(out, v)
		}
		sort.Ints(out)
		if len(out) > 4 {
			out = out[:4]
		}
		return out
	}
	var mu sync.Mutex
	var rw sync.WaitGroup
	for r := 0; r < 3; r++ {
		rw.Add(1)
		go func(r int) {
			defer rw.Done()
			for i := 0; i < 40; i++ {
				var vals []int
				op := []string{"GetWithMap", "Values", "Range"}[(i+r)%3]
				switch op {
				case "GetWithMap":
					req := make(map[int]int, keys)
					for k := 0; k < keys; k++ {
						req[k] = -1
					}
					kv.GetWithMap(req)
					for _, v := range req {
						vals = append(vals, v)
					}
				case "Values":
					vals = kv.Values()
				default:
					kv.Range(func(k, v int) bool { vals = append(vals, v); return true })
				}
				mu.Lock()
				emit(snap{Ev: "Snapshot", Op: op, Versions: distinct(vals), N: len(vals), Keys: keys})
				mu.Unlock()
			}
		}(r)
	}
	rw.Wait()
	atomic.StoreInt32(&stop, 1)
	wg.Wait()
}

// hotKeys: a handful of keys, each written by one owner that reads its own write back at once, while several readers
// hammer the same keys (whatever a Get leaves behind for later Gets is exposed); same trace format as the large maps
func hotKeys(rng *rand.Rand, emit func(bev)) {
	w := 2 + rng.Intn(2)
	kv := mapz.NewSafeKV[int, int](0)
	logs := make([][]bev, w)
	var stop int32
	var rwg, wg sync.WaitGroup
	for rd := 0; rd < 5; rd++ {
		rwg.Add(1)
		go func(rd int) {
			defer rwg.Done()
			for i := 0; atomic.LoadInt32(&stop) == 0; i++ {
				kv.Get(1 + (i+rd)%w)
			}
		}(rd)
	}
	for id := 0; id < w; id++ {
		wg.Add(1)
		go func(id int, rng *rand.Rand) {
			defer wg.Done()
			k := 1 + id
			for i := 1; i <= 1500; i++ {
				switch rng.Intn(8) {
				case 0:
					kv.Delete(k)
					logs[id] = append(logs[id], bev{Ev: "Delete", K: k})
				case 1:
					logs[id] = append(logs[id], bev{Ev: "SetX", K: k, V: i, R: kv.SetX(k, i)})
				default:
					kv.Set(k, i)
					logs[id] = append(logs[id], bev{Ev: "Set", K: k, V: i})
				}
				v, ok := kv.Get(k)
				if !ok {
					v = 0
				}
				logs[id] = append(logs[id], bev{Ev: "Get", K: k, R: v})
			}
		}(id, rand.New(rand.NewSource(rng.Int63())))
	}
	wg.Wait()
	atomic.StoreInt32(&stop, 1)
	rwg.Wait()
	emit(bev{Ev: "Reset", N: w})
	for _, l := range logs {
		for _, e := range l {
			emit(e)
		}
	}
	keys := kv.Keys()
	sort.Ints(keys)
	pairs := [][]int{}
	for _, k := range keys {
		v, _ := kv.Get(k)
		pairs = append(pairs, []int{k, v})
	}
	ln := kv.Len()
	emit(bev{Ev: "Final", Len: &ln, Pairs: pairs})
}

type bev struct {
	Ev    string      `json:"ev"`
	K     int         `json:"k,omitempty"`
	V     int         `json:"v,omitempty"`
	R     interface{} `json:"r,omitempty"`
	N     int         `json:"n,omitempty"`
	Len   *int        `json:"len,omitempty"`
	Pairs [][]int     `json:"pairs,omitempty"`
}

func bulkMain(args []string) {
	fs := flag.NewFlagSet("bulk", flag.ExitOnError)
	out := fs.String("out", ".", "output dir")
	seed := fs.Int64("seed", 1, "seed")
	rounds := fs.Int("rounds", 4, "scenarios")
	fs.Parse(args)
	f, err := os.Create(*out + "/bulk_trace.ndjson")
	if err != nil {
		fmt.Fprintln(os.Stderr, err)
		os.Exit(2)
	}
	defer f.Close()
	enc := json.NewEncoder(f)
	events := 0
	for r := 0; r < *rounds; r++ {
		rng := rand.New(rand.NewSource(*seed*1000 + int64(r)))
		n := []int{1100, 1500, 2100, 4200}[r%4]
		w := 2 + rng.Intn(3)
		kv := mapz.NewSafeKV[int, int]([]int{0, 16, n}[rng.Intn(3)])
		logs := make([][]bev, w)
		var wg, phase2 sync.WaitGroup
		var done0 int32
		// readers of everybody's keys run alongside the owners (their results are not judged): anything a Get leaves
		// behind for later Gets (caches) is exposed to the owners' own Set-then-Get checks
		var rstop int32
		var rwg sync.WaitGroup
		for rd := 0; rd < 3; rd++ {
			rwg.Add(1)
			go func(rng *rand.Rand) {
				defer rwg.Done()
				for atomic.LoadInt32(&rstop) == 0 {
					k := 1 + rng.Intn(n)
					kv.Get(k)
					kv.Has(k)
				}
			}(rand.New(rand.NewSource(rng.Int63())))
		}
		phase2.Add(w)
		for id := 0; id < w; id++ {
			wg.Add(1)
			go func(id int, rng *rand.Rand) {
				defer wg.Done()
				var mine []int
				for k := 1 + id; k <= n; k += w {
					mine = append(mine, k)
				}
				val := 1
				lg := func(e bev) { logs[id] = append(logs[id], e) }
				// grow: every own key is set
				for _, k := range mine {
					if rng.Intn(4) == 0 {
						lg(bev{Ev: "SetNx", K: k, V: val, R: kv.SetNx(k, val)})
					} else {
						kv.Set(k, val)
						lg(bev{Ev: "Set", K: k, V: val})
					}
					val++
				}
				// shrink to a fraction, overwriting survivors in between (length-preserving writes)
				keep := len(mine) / (5 + rng.Intn(8))
				rng.Shuffle(len(mine), func(i, j int) { mine[i], mine[j] = mine[j], mine[i] })
				if id == 0 && r%2 == 0 {
					// this owner shrinks later, alone, so that the map crosses "a quarter of its peak" while the
					// others do nothing but overwrite
					keep = len(mine)
				}
				for i := len(mine) - 1; i >= keep; i-- {
					kv.Delete(mine[i])
					lg(bev{Ev: "Delete", K: mine[i]})
					if keep > 0 {
						k := mine[rng.Intn(keep)]
						switch rng.Intn(4) {
						case 0:
							kv.Set(k, val)
							lg(bev{Ev: "Set", K: k, V: val})
						case 1:
							lg(bev{Ev: "SetX", K: k, V: val, R: kv.SetX(k, val)})
						case 2:
							k = mine[i] // just deleted
							lg(bev{Ev: "SetX", K: k, V: val, R: kv.SetX(k, val)})
						default:
							v, ok := kv.Get(k)
							if !ok {
								v = 0
							}
							lg(bev{Ev: "Get", K: k, R: v})
						}
						val++
					}
				}
				// quiet phase: one owner keeps deleting (one key at a time), the others only overwrite survivors
				// (writes that leave the size unchanged) and read them back
				phase2.Done()
				phase2.Wait()
				if keep == 0 {
					return
				}
				if id == 0 {
					for i := keep - 1; i >= keep/8; i-- {
						kv.Delete(mine[i])
						lg(bev{Ev: "Delete", K: mine[i]})
					}
					atomic.StoreInt32(&done0, 1)
					return
				}
				for i := 0; i < 3*keep || (atomic.LoadInt32(&done0) == 0 && i < 4000); i++ {
					k := mine[rng.Intn(keep)]
					switch rng.Intn(3) {
					case 0:
						kv.Set(k, val)
						lg(bev{Ev: "Set", K: k, V: val})
						v, ok := kv.Get(k) // the owner reads its own write back at once
						if !ok {
							v = 0
						}
						lg(bev{Ev: "Get", K: k, R: v})
					case 1:
						lg(bev{Ev: "SetX", K: k, V: val, R: kv.SetX(k, val)})
					default:
						v, ok := kv.Get(k)
						if !ok {
							v = 0
						}
						lg(bev{Ev: "Get", K: k, R: v})
					}
					val++
				}
			}(id, rand.New(rand.NewSource(rng.Int63())))
		}
		wg.Wait()
		atomic.StoreInt32(&rstop, 1)
		rwg.Wait()
		enc.Encode(bev{Ev: "Reset", N: n})
		events++
		for _, l := range logs {
			for _, e := range l {
				enc.Encode(e)
				events++
			}
		}
		// quiescence: Keys, Values, Len, Get must tell one story
		keys, vals, ln := kv.Keys(), kv.Values(), kv.Len()
		sort.Ints(keys)
		pairs := make([][]int, 0, len(keys))
		for _, k := range keys {
			v, ok := kv.Get(k)
			if !ok {
				v = 0
			}
			pairs = append(pairs, []int{k, v})
		}
		if len(vals) != len(keys) {
			ln = -len(vals) - 1
		}
		enc.Encode(bev{Ev: "Final", Len: &ln, Pairs: pairs})
		events++
		// Clear of a large map while the others keep writing (Set, SetNx, Map): which writes survive depends on the
		// interleaving, so nothing is logged here - a crash or a race report is the verdict
		var wg2 sync.WaitGroup
		var stop int32
		for id := 1; id < w; id++ {
			wg2.Add(1)
			go func(id int) {
				defer wg2.Done()
				for k := 0; atomic.LoadInt32(&stop) == 0 || k < 400; k++ {
					key := 1 + id + (k%300)*w
					switch k % 5 {
					case 0:
						kv.SetNx(key, k)
					case 1:
						kv.Map(func(m mapz.KV[int, int]) { m[key] = k })
					default:
						kv.Set(key, k)
					}
					if k > 200000 {
						break
					}
				}
			}(id)
		}
		// ... and Clear itself from two goroutines at once, on maps of a few thousand entries
		wg2.Add(1)
		go func() {
			defer wg2.Done()
			for k := 0; atomic.LoadInt32(&stop) == 0 && k < 100000; k++ {
				kv.Clear()
				kv.Len()
			}
		}()
		for c := 0; c < 6; c++ {
			for k := 0; k < 3000; k++ {
				kv.Set(1+k*w, k)
			}
			kv.Clear()
		}
		atomic.StoreInt32(&stop, 1)
		wg2.Wait()
		snapshots(rng, func(e snap) { enc.Encode(e); events++ })
		hotKeys(rng, func(e bev) { enc.Encode(e); events++ })
	}
	st, _ := json.Marshal(map[string]int{"scenarios": *rounds, "events": events})
	os.WriteFile(*out+"/bulk_stats.json", st, 0o644)
}
