package main

// Large-map scenario (OwnedKeys.tla): W owner goroutines, each the only writer of its own keys, grow the map to
// thousands of entries and then shrink it to a fraction while overwriting what is left; real goroutines, -race build.

import (
	"encoding/json"
	"flag"
	"fmt"
	"math/rand"
	"os"
	"sort"
	"sync"
	"sync/atomic"

	"github.com/welllog/golib/mapz"
)

type bev struct {
	Ev    string      `json:"ev"`
	K     int         `json:"k,omitempty"`
	V     int         `json:"v,omitempty"`
	R     interface{} `json:"r,omitempty"`
	N     int         `json:"n,omitempty"`
	Len   *int        `json:"len,omitempty"`
	Pairs [][]int     `json:"pairs,omitempty"`
}

func bulkMain(args []string) {
	fs := flag.NewFlagSet("bulk", flag.ExitOnError)
	out := fs.String("out", ".", "output dir")
	seed := fs.Int64("seed", 1, "seed")
	rounds := fs.Int("rounds", 4, "scenarios")
	fs.Parse(args)
	f, err := os.Create(*out + "/bulk_trace.ndjson")
	if err != nil {
		fmt.Fprintln(os.Stderr, err)
		os.Exit(2)
	}
	defer f.Close()
	enc := json.NewEncoder(f)
	events := 0
	for r := 0; r < *rounds; r++ {
		rng := rand.New(rand.NewSource(*seed*1000 + int64(r)))
		n := []int{1100, 1500, 2100, 4200}[r%4]
		w := 2 + rng.Intn(3)
		kv := mapz.NewSafeKV[int, int]([]int{0, 16, n}[rng.Intn(3)])
		logs := make([][]bev, w)
		var wg, phase2 sync.WaitGroup
		var done0 int32
		phase2.Add(w)
		for id := 0; id < w; id++ {
			wg.Add(1)
			go func(id int, rng *rand.Rand) {
				defer wg.Done()
				var mine []int
				for k := 1 + id; k <= n; k += w {
					mine = append(mine, k)
				}
				val := 1
				lg := func(e bev) { logs[id] = append(logs[id], e) }
				// grow: every own key is set
				for _, k := range mine {
					if rng.Intn(4) == 0 {
						lg(bev{Ev: "SetNx", K: k, V: val, R: kv.SetNx(k, val)})
					} else {
						kv.Set(k, val)
						lg(bev{Ev: "Set", K: k, V: val})
					}
					val++
				}
				// shrink to a fraction, overwriting survivors in between (length-preserving writes)
				keep := len(mine) / (5 + rng.Intn(8))
				rng.Shuffle(len(mine), func(i, j int) { mine[i], mine[j] = mine[j], mine[i] })
				if id == 0 && r%2 == 0 {
					// this owner shrinks later, alone, so that the map crosses "a quarter of its peak" while the
					// others do nothing but overwrite
					keep = len(mine)
				}
				for i := len(mine) - 1; i >= keep; i-- {
					kv.Delete(mine[i])
					lg(bev{Ev: "Delete", K: mine[i]})
					if keep > 0 {
						k := mine[rng.Intn(keep)]
						switch rng.Intn(4) {
						case 0:
							kv.Set(k, val)
							lg(bev{Ev: "Set", K: k, V: val})
						case 1:
							lg(bev{Ev: "SetX", K: k, V: val, R: kv.SetX(k, val)})
						case 2:
							k = mine[i] // just deleted
							lg(bev{Ev: "SetX", K: k, V: val, R: kv.SetX(k, val)})
						default:
							v, ok := kv.Get(k)
							if !ok {
								v = 0
							}
							lg(bev{Ev: "Get", K: k, R: v})
						}
						val++
					}
				}
				// quiet phase: one owner keeps deleting (one key at a time), the others only overwrite survivors
				// (writes that leave the size unchanged) and read them back
				phase2.Done()
				phase2.Wait()
				if keep == 0 {
					return
				}
				if id == 0 {
					for i := keep - 1; i >= keep/8; i-- {
						kv.Delete(mine[i])
						lg(bev{Ev: "Delete", K: mine[i]})
					}
					atomic.StoreInt32(&done0, 1)
					return
				}
				for i := 0; i < 3*keep || (atomic.LoadInt32(&done0) == 0 && i < 4000); i++ {
					k := mine[rng.Intn(keep)]
					switch rng.Intn(3) {
					case 0:
						kv.Set(k, val)
						lg(bev{Ev: "Set", K: k, V: val})
					case 1:
						lg(bev{Ev: "SetX", K: k, V: val, R: kv.SetX(k, val)})
					default:
						v, ok := kv.Get(k)
						if !ok {
							v = 0
						}
						lg(bev{Ev: "Get", K: k, R: v})
					}
					val++
				}
			}(id, rand.New(rand.NewSource(rng.Int63())))
		}
		wg.Wait()
		enc.Encode(bev{Ev: "Reset", N: n})
		events++
		for _, l := range logs {
			for _, e := range l {
				enc.Encode(e)
				events++
			}
		}
		// quiescence: Keys, Values, Len, Get must tell one story
		keys, vals, ln := kv.Keys(), kv.Values(), kv.Len()
		sort.Ints(keys)
		pairs := make([][]int, 0, len(keys))
		for _, k := range keys {
			v, ok := kv.Get(k)
			if !ok {
				v = 0
			}
			pairs = append(pairs, []int{k, v})
		}
		if len(vals) != len(keys) {
			ln = -len(vals) - 1
		}
		enc.Encode(bev{Ev: "Final", Len: &ln, Pairs: pairs})
		events++
		// Clear of a large map while the others keep writing (Set, SetNx, Map): which writes survive depends on the
		// interleaving, so nothing is logged here - a crash or a race report is the verdict
		var wg2 sync.WaitGroup
		var stop int32
		for id := 1; id < w; id++ {
			wg2.Add(1)
			go func(id int) {
				defer wg2.Done()
				for k := 0; atomic.LoadInt32(&stop) == 0 || k < 400; k++ {
					key := 1 + id + (k%300)*w
					switch k % 5 {
					case 0:
						kv.SetNx(key, k)
					case 1:
						kv.Map(func(m mapz.KV[int, int]) { m[key] = k })
					default:
						kv.Set(key, k)
					}
					if k > 200000 {
						break
					}
				}
			}(id)
		}
		for c := 0; c < 6; c++ {
			for k := 0; k < 200; k++ {
				kv.Set(1+k*w, k)
			}
			kv.Clear()
		}
		atomic.StoreInt32(&stop, 1)
		wg2.Wait()
	}
	st, _ := json.Marshal(map[string]int{"scenarios": *rounds, "events": events})
	os.WriteFile(*out+"/bulk_stats.json", st, 0o644)
}
