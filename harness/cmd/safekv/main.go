// Conformance harness for mapz.SafeKV (property C12): real goroutines on a -race build; call
// histories are validated by TLC against AtomicMapHist.tla.
package main

import (
	"encoding/json"
	"math/rand"
	"os"
	"sort"

	"github.com/welllog/golib/mapz"
	"github.com/welllog/golib/verifshim/sched"
	"verifharness/conc"
)

const nKeys = 4

type obj struct {
	kv   *mapz.SafeKV[int, int]
	init  [][]int
	progs [][][]interface{}
}

type initState struct {
	Prog [][][]interface{} `json:"prog"`
	Init  [][]int           `json:"init"`
	Pairs [][]int           `json:"pairs"`
}

func factory(s json.RawMessage) (conc.Object, [][]sched.Call, error) {
	var st initState
	if err := json.Unmarshal(s, &st); err != nil {
		return nil, nil, err
	}
	o := &obj{kv: mapz.NewSafeKV[int, int](0), init: st.Init, progs: st.Prog}
	if st.Init == nil && len(st.Pairs) > 0 { // model form: the initial map as pairs
		o.init = st.Pairs
	}
	for _, p := range o.init {
		o.kv.Set(p[0], p[1])
	}
	progs := make([][]sched.Call, len(st.Prog))
	for t, p := range st.Prog {
		for _, c := range p {
			progs[t] = append(progs[t], sched.Call{Op: c[0].(string), Arg: c[1:]})
		}
	}
	return o, progs, nil
}

func ai(c sched.Call, i int) int { return int(c.Arg[i].(float64)) }

func sortedPairs(m map[int]int) [][]int {
	out := [][]int{}
	for k, v := range m {
		out = append(out, []int{k, v})
	}
	sort.Slice(out, func(i, j int) bool { return out[i][0] < out[j][0] })
	return out
}

func (o *obj) Exec(tid int, c sched.Call) []interface{} {
	kv := o.kv
	switch c.Op {
	case "get":
		v, ok := kv.Get(ai(c, 0))
		return []interface{}{v, ok}
	case "getwithlock":
		v, ok := 0, false
		kv.GetWithLock(ai(c, 0), func(x int) { v, ok = x, true })
		return []interface{}{v, ok}
	case "has":
		return []interface{}{kv.Has(ai(c, 0))}
	case "contains":
		return []interface{}{kv.Contains(ai(c, 0))}
	case "set":
		kv.Set(ai(c, 0), ai(c, 1))
		return []interface{}{}
	case "setnx":
		return []interface{}{kv.SetNx(ai(c, 0), ai(c, 1))}
	case "setx":
		return []interface{}{kv.SetX(ai(c, 0), ai(c, 1))}
	case "delete":
		ks := make([]int, len(c.Arg))
		for i := range ks {
			ks[i] = ai(c, i)
		}
		kv.Delete(ks...)
		return []interface{}{}
	case "len":
		return []interface{}{kv.Len()}
	case "keys":
		ks := kv.Keys()
		sort.Ints(ks)
		if ks == nil {
			ks = []int{}
		}
		return []interface{}{ks}
	case "values":
		vs := kv.Values()
		sort.Ints(vs)
		if vs == nil {
			vs = []int{}
		}
		return []interface{}{vs}
	case "range":
		m := map[int]int{}
		kv.Range(func(k, v int) bool { m[k] = v; return true })
		return []interface{}{sortedPairs(m)}
	case "all":
		return []interface{}{sortedPairs(allPairs(kv))}
	case "getwithmap":
		m := map[int]int{}
		for i := range c.Arg {
			m[ai(c, i)] = -1
		}
		kv.GetWithMap(m)
		for k, v := range m {
			if v == -1 {
				delete(m, k)
			}
		}
		return []interface{}{sortedPairs(m)}
	case "mapadd":
		seen := map[int]int{}
		kv.Map(func(m mapz.KV[int, int]) {
			for k, v := range m {
				seen[k] = v
				m[k] = v + 100
			}
		})
		return []interface{}{sortedPairs(seen)}
	case "mapins":
		seen := map[int]int{}
		kv.Map(func(m mapz.KV[int, int]) {
			for k, v := range m {
				seen[k] = v
			}
			m[ai(c, 0)] = ai(c, 1)
		})
		return []interface{}{sortedPairs(seen)}
	case "mapdelall":
		seen := map[int]int{}
		kv.Map(func(m mapz.KV[int, int]) {
			for k, v := range m {
				seen[k] = v
				delete(m, k)
			}
		})
		return []interface{}{sortedPairs(seen)}
	case "clear":
		kv.Clear()
		return []interface{}{}
	}
	panic("unknown call " + c.Op)
}

func (o *obj) Describe(rec sched.OpRec) interface{} { return []interface{}{rec.Kind} }
func (o *obj) Probe() map[string]interface{}        { return map[string]interface{}{} }

// ProbeDrain: an observer reads the whole content through the public API - unless a managed
// goroutine is parked inside a write-locked section (the observer would block for ever).
func (o *obj) ProbeDrain() map[string]interface{} {
	if o.writerInside() {
		return map[string]interface{}{"skipped": true}
	}
	m := map[int]int{}
	o.kv.Range(func(k, v int) bool { m[k] = v; return true })
	return map[string]interface{}{"pairs": sortedPairs(m), "len": o.kv.Len()}
}
func (o *obj) ResetEvent() map[string]interface{} {
	init := o.init
	if init == nil {
		init = [][]int{}
	}
	return map[string]interface{}{"init": init}
}

func gen(rng *rand.Rand) json.RawMessage {
	nt := 2 + rng.Intn(3)
	prog := make([][][]interface{}, nt)
	k := func() int { return 1 + rng.Intn(nKeys) }
	focus := rng.Intn(3) // 0: anything, 1: SetNx races on one key, 2: snapshots vs writers
	for t := range prog {
		nc := 1 + rng.Intn(4)
		for j := 0; j < nc; j++ {
			v := 10*(t+1) + j
			var c []interface{}
			x := rng.Intn(21)
			if focus == 1 {
				x = []int{2, 2, 2, 5, 0, 8}[rng.Intn(6)]
			} else if focus == 2 {
				x = []int{1, 6, 8, 9, 10, 11, 12, 13, 14, 15, 16, 19, 20, 8}[rng.Intn(14)]
			}
			switch x {
			case 0:
				c = []interface{}{"get", k()}
			case 1:
				c = []interface{}{"set", k(), v}
			case 2:
				kk := k()
				if focus == 1 {
					kk = 1
				}
				c = []interface{}{"setnx", kk, v}
			case 3:
				c = []interface{}{"setx", k(), v}
			case 4:
				c = []interface{}{"delete", k()}
			case 5:
				c = []interface{}{"delete", k(), k()}
			case 6:
				c = []interface{}{"has", k()}
			case 7:
				c = []interface{}{"contains", k()}
			case 8:
				c = []interface{}{"len"}
			case 9:
				c = []interface{}{"keys"}
			case 10:
				c = []interface{}{"values"}
			case 11:
				c = []interface{}{"range"}
			case 12:
				c = []interface{}{"all"}
			case 13:
				c = []interface{}{"getwithmap", k(), k()}
			case 14:
				c = []interface{}{"mapadd"}
			case 15:
				c = []interface{}{"clear"}
			case 16:
				c = []interface{}{"getwithlock", k()}
			case 19:
				c = []interface{}{"mapins", k(), v}
			case 20:
				c = []interface{}{"mapdelall"}
			default:
				c = []interface{}{"set", k(), v}
			}
			prog[t] = append(prog[t], c)
		}
	}
	init := [][]int{}
	for kk := 1; kk <= nKeys; kk++ {
		if rng.Intn(2) == 0 {
			init = append(init, []int{kk, 900 + kk})
		}
	}
	b, _ := json.Marshal(map[string]interface{}{"prog": prog, "init": init})
	return b
}

func main() {
	if len(os.Args) > 1 && os.Args[1] == "bulk" {
		bulkMain(os.Args[2:])
		return
	}
	conc.Main("SafeKV", factory, gen)
}
