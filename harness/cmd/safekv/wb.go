//go:build !nowb

package main

import "github.com/welllog/golib/mapz"

func (o *obj) WhiteBox() bool { return true }

func (o *obj) writerInside() bool {
	w, _ := mapz.VerifSafeKVLock(o.kv)
	return w
}

func (o *obj) Shared() interface{} {
	w, r := mapz.VerifSafeKVLock(o.kv)
	return map[string]interface{}{"prog": o.progs, "pairs": sortedPairs(mapz.VerifSafeKVEntries(o.kv)), "w": w, "r": r}
}
