//go:build go1.23

package main

import "github.com/welllog/golib/mapz"

func allPairs(kv *mapz.SafeKV[int, int]) map[int]int {
	m := map[int]int{}
	kv.All()(func(k, v int) bool { m[k] = v; return true })
	return m
}
