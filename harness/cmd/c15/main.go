// Case runner for property C15: the library's re-implemented standard routines against the Go
// standard library (the oracle the property names). Cases from StdRoutines.tla.
package main

import (
	"bytes"
	"crypto/hmac"
	"crypto/md5"
	"crypto/sha1"
	"crypto/sha256"
	"crypto/sha512"
	"encoding/base64"
	"encoding/hex"
	"encoding/json"
	"fmt"
	"hash"
	"io"
	"math/big"
	"math/rand"
	"net"
	"strconv"
	"strings"
	"sync"
	"time"

	"github.com/welllog/golib/hashz"
	"github.com/welllog/golib/strz"
	"verifharness/core"
)

var rng *rand.Rand

func rb(n int) []byte {
	b := make([]byte, n)
	rng.Read(b)
	return b
}
func argS(c *core.Case, i int) string { var s string; json.Unmarshal(c.A[i], &s); return s }
func argI(c *core.Case, i int) int    { return core.RawInt(c.A[i]) }

// effective base and bit size the way strconv defines them (for concretising tokens only)
func effBase(base int, toks []string) int {
	if base >= 2 && base <= 36 {
		return base
	}
	if base == 0 && len(toks) > 0 {
		switch strings.ToLower(toks[0]) {
		case "0x":
			return 16
		case "0b":
			return 2
		case "0o", "0":
			return 8
		}
	}
	return 10
}

func digitChar(v int) string {
	if v < 10 {
		return string(rune('0' + v))
	}
	if v < 36 {
		return string(rune('a' + v - 10))
	}
	return "~"
}

func concretise(toks []string, base, bits int, variant int) string {
	eb := effBase(base, toks)
	b := bits
	if b <= 0 || b > 64 {
		b = 64
	}
	pow := new(big.Int).Lsh(big.NewInt(1), uint(b))
	max := new(big.Int).Sub(pow, big.NewInt(1))
	cut := new(big.Int).Div(new(big.Int).SetUint64(^uint64(0)), big.NewInt(int64(eb)))
	cut.Add(cut, big.NewInt(1))
	var sb strings.Builder
	for _, t := range toks {
		switch t {
		case "lo":
			sb.WriteString("1")
		case "top":
			d := digitChar(eb - 1)
			if variant%2 == 1 {
				d = strings.ToUpper(d)
			}
			sb.WriteString(d)
		case "over":
			sb.WriteString(digitChar(eb))
		case "MAX":
			sb.WriteString(max.Text(eb))
		case "MAX1":
			sb.WriteString(pow.Text(eb))
		case "CUT":
			sb.WriteString(cut.Text(eb))
		case "CUTM":
			sb.WriteString(new(big.Int).Sub(cut, big.NewInt(1)).Text(eb))
		case "sp":
			sb.WriteString(" ")
		default:
			sb.WriteString(t)
		}
	}
	return sb.String()
}

func errClass(err error) string {
	if err == nil {
		return "ok"
	}
	s := err.Error()
	switch {
	case strings.Contains(s, "invalid syntax"):
		return "syntax"
	case strings.Contains(s, "out of range"):
		return "range"
	case strings.Contains(s, "invalid base"):
		return "base"
	case strings.Contains(s, "invalid bit size"):
		return "bitsize"
	}
	return "other:" + s
}

var hexChars = map[string][]byte{"d": []byte("0359"), "l": []byte("abf"), "u": []byte("ADF"), "g": []byte("gGxz@`/:"),
	"c": {0x10, 0x13, 0x19, 0x00}, "h": {0x80, 0xff, 0xe9}}

func hasher(name string) func() hash.Hash {
	switch name {
	case "md5":
		return md5.New
	case "sha1":
		return sha1.New
	case "sha224":
		return sha256.New224
	case "sha256":
		return sha256.New
	case "sha384":
		return sha512.New384
	case "sha512":
		return sha512.New
	case "sha512_224":
		return sha512.New512_224
	case "sha512_256":
		return sha512.New512_256
	}
	panic(name)
}

type chunkReader struct {
	data        []byte
	chunk       int
	eofWithData bool
}

func (r *chunkReader) Read(p []byte) (int, error) {
	if len(r.data) == 0 {
		return 0, io.EOF
	}
	n := r.chunk
	if n > len(p) {
		n = len(p)
	}
	if n > len(r.data) {
		n = len(r.data)
	}
	copy(p, r.data[:n])
	r.data = r.data[n:]
	if len(r.data) == 0 && r.eofWithData {
		return n, io.EOF
	}
	return n, nil
}

// failReader delivers failAfter bytes and then a non-EOF error
type failReader struct {
	data      []byte
	failAfter int
	sent      int
	kind      string // which error
	withData  bool   // the error comes together with the last bytes
}

func (r *failReader) err() error {
	switch r.kind {
	case "unexpected_eof":
		return io.ErrUnexpectedEOF
	case "closed_pipe":
		return io.ErrClosedPipe
	case "no_progress":
		return io.ErrNoProgress
	case "short_buffer":
		return io.ErrShortBuffer
	case "wrapped_eof":
		return fmt.Errorf("connection reset: %w", io.EOF) // not io.EOF itself: io.Copy and friends compare with ==
	}
	return fmt.Errorf("reader failed after %d bytes", r.sent)
}

func (r *failReader) Read(p []byte) (int, error) {
	if r.sent >= r.failAfter {
		return 0, r.err()
	}
	n := r.failAfter - r.sent
	if n > len(p) {
		n = len(p)
	}
	copy(p, r.data[r.sent:r.sent+n])
	r.sent += n
	if r.withData && r.sent >= r.failAfter {
		return n, r.err()
	}
	return n, nil
}

func run(c *core.Case, st *core.CaseStats, seed int64) {
	if rng == nil {
		rng = rand.New(rand.NewSource(seed))
	}
	rep := func(fn, kind string, in, exp, act interface{}) {
		st.Add(core.Mismatch{Fn: fn, Kind: kind, Case: c, Input: in, Expected: exp, Actual: act})
	}
	guard := func(fn string, in interface{}, f func()) bool {
		st.Calls++
		msg, p, hung := core.GuardTimed(f, 30*time.Second)
		if hung {
			rep(fn, "hang", in, "returns", msg)
			return false
		}
		if p {
			rep(fn, "panic", in, "no panic", msg)
			return false
		}
		return true
	}
	switch c.Fn {
	case "parseuint":
		toks := core.RawStrs(c.S)
		base, bits := argI(c, 0), argI(c, 1)
		class := core.RawStrs(c.Out)[0]
		for variant := 0; variant < 2; variant++ {
			s := concretise(toks, base, bits, variant)
			in := map[string]interface{}{"s": s, "base": base, "bitSize": bits}
			if len(toks) > 1 {
				st.Nontrivial++
			}
			wantV, wantE := strconv.ParseUint(s, base, bits)
			var gs, gb uint64
			var es, eb error
			bs := []byte(s)
			if !guard("ParseUint", in, func() { gs, es = strz.ParseUint(s, base, bits); gb, eb = strz.ParseUint(bs, base, bits) }) {
				continue
			}
			we := errClass(wantE)
			if gs != wantV || errClass(es) != we {
				rep("ParseUint", "value", in, fmt.Sprint(wantV, " ", we), fmt.Sprint(gs, " ", errClass(es)))
			}
			if gb != gs || errClass(eb) != errClass(es) {
				rep("ParseUint", "value", in, "same result for string and []byte", fmt.Sprint(gs, es, " / ", gb, eb))
			}
			if string(bs) != s {
				rep("ParseUint", "value", in, "input not modified", string(bs))
			}
			if class != "any" && we != class { // the grammar's own prediction against strconv (sanity of the specification)
				rep("ParseUintSpec", "value", in, class, we)
			}
		}
	case "hexdecode":
		cls := core.RawStrs(c.S)
		var want []interface{}
		json.Unmarshal(c.Out, &want)
		for variant := 0; variant < 3; variant++ {
			src := make([]byte, len(cls))
			for i, k := range cls {
				p := hexChars[k]
				src[i] = p[rng.Intn(len(p))]
			}
			in := map[string]interface{}{"src": string(src), "bytes": src}
			if len(src) > 2 {
				st.Nontrivial++
			}
			ref := make([]byte, hex.DecodedLen(len(src)))
			rn, rerr := hex.Decode(ref, src)
			var got, gotS []byte
			var err, errS error
			orig := append([]byte{}, src...)
			if !guard("HexDecode", in, func() { got, err = strz.HexDecode(src); gotS, errS = strz.HexDecode(string(src)) }) {
				continue
			}
			es := func(e error) string {
				if e == nil {
					return ""
				}
				return e.Error()
			}
			if !bytes.Equal(got, ref[:rn]) || es(err) != es(rerr) {
				rep("HexDecode", "value", in, fmt.Sprint(ref[:rn], " ", es(rerr)), fmt.Sprint(got, " ", es(err)))
			}
			if !bytes.Equal(gotS, got) || es(errS) != es(err) {
				rep("HexDecode", "value", in, "same result for string and []byte", fmt.Sprint(gotS, es(errS)))
			}
			if !bytes.Equal(src, orig) {
				rep("HexDecode", "value", in, "input not modified", src)
			}
			// the specification's own prediction (decoded count, error kind, offending index)
			kind := ""
			if rerr == hex.ErrLength {
				kind = "length"
			} else if rerr != nil {
				kind = "byte"
			}
			if int(want[0].(float64)) != rn || want[1].(string) != kind {
				rep("HexDecodeSpec", "value", in, want, fmt.Sprint(rn, " ", kind))
			} else if kind == "byte" {
				idx := int(want[2].(float64))
				if es(rerr) != fmt.Sprintf("encoding/hex: invalid byte: %#U", rune(src[idx-1])) {
					rep("HexDecodeSpec", "value", in, want, es(rerr))
				}
			}
			s2, e2 := strz.HexDecodeToString(src)
			if s2 != string(got) || es(e2) != es(err) {
				rep("HexDecodeToString", "value", in, string(got), s2)
			}
			core.Retain(st, c, "HexDecodeToString", in, s2)
			ip := append([]byte{}, orig...)
			n3, e3 := strz.HexDecodeInPlace(ip)
			if n3 != rn || es(e3) != es(rerr) || !bytes.Equal(ip[:n3], ref[:rn]) {
				rep("HexDecodeInPlace", "value", in, fmt.Sprint(rn, es(rerr)), fmt.Sprint(n3, es(e3)))
			}
		}
	case "hexencode":
		n := argI(c, 0)
		d := rb(n)
		in := map[string]interface{}{"n": n}
		st.Nontrivial++
		guard("HexEncode", in, func() {
			want := hex.EncodeToString(d)
			orig := append([]byte{}, d...)
			if string(strz.HexEncode(d)) != want || string(strz.HexEncode(string(d))) != want || strz.HexEncodeToString(d) != want || strz.HexEncodeToString(string(d)) != want {
				rep("HexEncode", "value", in, want, string(strz.HexEncode(d)))
			}
			if !bytes.Equal(d, orig) {
				rep("HexEncode", "value", in, "input not modified", d)
			}
			core.Retain(st, c, "HexEncodeToString", in, strz.HexEncodeToString(d))
			core.RetainBytes(st, c, "HexEncode", in, strz.HexEncode(d))
		})
	case "digest":
		name, n := argS(c, 0), argI(c, 1)
		d := rb(n)
		in := map[string]interface{}{"digest": name, "n": n}
		st.Nontrivial++
		h := hasher(name)()
		h.Write(d)
		want := hex.EncodeToString(h.Sum(nil))
		guard("digest", in, func() {
			var gb, gs []byte
			var ts, tb string
			s := string(d)
			switch name {
			case "md5":
				gb, gs, tb, ts = hashz.Md5(d), hashz.Md5(s), hashz.Md5ToString(d), hashz.Md5ToString(s)
			case "sha1":
				gb, gs, tb, ts = hashz.Sha1(d), hashz.Sha1(s), hashz.Sha1ToString(d), hashz.Sha1ToString(s)
			case "sha224":
				gb, gs, tb, ts = hashz.Sha224(d), hashz.Sha224(s), hashz.Sha224ToString(d), hashz.Sha224ToString(s)
			case "sha256":
				gb, gs, tb, ts = hashz.Sha256(d), hashz.Sha256(s), hashz.Sha256ToString(d), hashz.Sha256ToString(s)
			case "sha384":
				gb, gs, tb, ts = hashz.Sha384(d), hashz.Sha384(s), hashz.Sha384ToString(d), hashz.Sha384ToString(s)
			case "sha512":
				gb, gs, tb, ts = hashz.Sha512(d), hashz.Sha512(s), hashz.Sha512ToString(d), hashz.Sha512ToString(s)
			case "sha512_224":
				gb, gs, tb, ts = hashz.Sha512_224(d), hashz.Sha512_224(s), hashz.Sha512_224ToString(d), hashz.Sha512_224ToString(s)
			case "sha512_256":
				gb, gs, tb, ts = hashz.Sha512_256(d), hashz.Sha512_256(s), hashz.Sha512_256ToString(d), hashz.Sha512_256ToString(s)
			}
			if string(gb) != want || string(gs) != want || tb != want || ts != want {
				rep("digest:"+name, "value", in, want, []string{string(gb), string(gs), tb, ts})
			}
			core.RetainBytes(st, c, "digest", in, gb)
			core.Retain(st, c, "digestToString", in, tb)
			core.Retain(st, c, "digestToString", in, ts)
		})
	case "digeststream":
		name, n, chunk, eof := argS(c, 0), argI(c, 1), argI(c, 2), argS(c, 3)
		d := rb(n)
		in := map[string]interface{}{"digest": name, "n": n, "chunk": chunk, "eof": eof}
		st.Nontrivial++
		h := hasher(name)()
		h.Write(d)
		want := hex.EncodeToString(h.Sum(nil))
		guard("digeststream", in, func() {
			r := &chunkReader{data: append([]byte{}, d...), chunk: chunk, eofWithData: eof == "with_data"}
			var got []byte
			var err error
			switch name {
			case "md5":
				got, err = hashz.Md5Stream(r)
			case "sha1":
				got, err = hashz.Sha1Stream(r)
			case "sha224":
				got, err = hashz.Sha224Stream(r)
			case "sha256":
				got, err = hashz.Sha256Stream(r)
			case "sha384":
				got, err = hashz.Sha384Stream(r)
			case "sha512":
				got, err = hashz.Sha512Stream(r)
			}
			if err != nil || string(got) != want {
				rep("stream:"+name, "value", in, want, fmt.Sprint(string(got), err))
			}
		})
	case "digeststreamerr":
		name, n, after, ek, style := argS(c, 0), argI(c, 1), argI(c, 2), argS(c, 3), argS(c, 4)
		d := rb(n)
		in := map[string]interface{}{"digest": name, "n": n, "fails_after": after, "error": ek, "delivered": style}
		st.Nontrivial++
		h := hasher(name)()
		h.Write(d)
		want := hex.EncodeToString(h.Sum(nil))
		call := func(r io.Reader) ([]byte, error) {
			switch name {
			case "md5":
				return hashz.Md5Stream(r)
			case "sha1":
				return hashz.Sha1Stream(r)
			case "sha224":
				return hashz.Sha224Stream(r)
			case "sha256":
				return hashz.Sha256Stream(r)
			case "sha384":
				return hashz.Sha384Stream(r)
			}
			return hashz.Sha512Stream(r)
		}
		guard("digeststreamerr", in, func() {
			for k := 0; k < 3; k++ {
				if _, err := call(&failReader{data: rb(after + 5), failAfter: after, kind: ek, withData: style == "with_data"}); err == nil {
					rep("stream:"+name, "value", in, "the reader's error", "nil")
				}
				got, err := call(bytes.NewReader(d))
				if err != nil || string(got) != want {
					rep("stream:"+name, "value", in, want, fmt.Sprint(string(got), err))
					return
				}
			}
		})
	case "hmac":
		name, kl, n := argS(c, 0), argI(c, 1), argI(c, 2)
		key, d := rb(kl), rb(n)
		in := map[string]interface{}{"digest": name, "keylen": kl, "n": n}
		st.Nontrivial++
		m := hmac.New(hasher(name), key)
		m.Write(d)
		want := hex.EncodeToString(m.Sum(nil))
		guard("hmac", in, func() {
			g1 := string(hashz.Hmac(key, d, hasher(name)))
			g2 := string(hashz.Hmac(string(key), string(d), hasher(name)))
			g3 := hashz.HmacToString(key, string(d), hasher(name))
			if g1 != want || g2 != want || g3 != want {
				rep("Hmac:"+name, "value", in, want, []string{g1, g2, g3})
			}
			// the caller's key buffer rewritten in place between two calls (a reused key buffer), data buffer likewise
			if kl > 0 {
				key[rng.Intn(kl)] ^= 0x5a
				if n > 0 {
					d[rng.Intn(n)] ^= 0x33
				}
				m2 := hmac.New(hasher(name), key)
				m2.Write(d)
				want2 := hex.EncodeToString(m2.Sum(nil))
				h1 := string(hashz.Hmac(key, d, hasher(name)))
				h2 := string(hashz.Hmac(string(key), string(d), hasher(name)))
				if h1 != want2 || h2 != want2 {
					rep("Hmac:"+name, "value", in, map[string]string{"after the key buffer was changed in place": want2}, []string{h1, h2})
				}
			}
		})
	case "base64":
		encName, n, bad := argS(c, 0), argI(c, 1), argS(c, 2)
		enc := map[string]*base64.Encoding{"std": base64.StdEncoding, "url": base64.URLEncoding, "rawstd": base64.RawStdEncoding, "rawurl": base64.RawURLEncoding,
			"std-nopad": base64.StdEncoding.WithPadding(base64.NoPadding), "url-nopad": base64.URLEncoding.WithPadding(base64.NoPadding),
			"rawstd-strict": base64.RawStdEncoding.Strict(), "std-star": base64.StdEncoding.WithPadding('*')}[encName]
		d := rb(n)
		in := map[string]interface{}{"enc": encName, "n": n, "bad": bad}
		st.Nontrivial++
		guard("base64", in, func() {
			want := enc.EncodeToString(d)
			if string(strz.Base64Encode(d, enc)) != want || string(strz.Base64Encode(string(d), enc)) != want || strz.Base64EncodeToString(d, enc) != want {
				rep("Base64Encode", "value", in, want, string(strz.Base64Encode(d, enc)))
			}
			e := []byte(want)
			switch bad {
			case "char":
				if len(e) > 0 {
					e[rng.Intn(len(e))] = '!'
				}
			case "trunc":
				if len(e) > 0 {
					e = e[:len(e)-1]
				}
			case "pad":
				e = append(e, '=')
			}
			ref, rerr := enc.DecodeString(string(e))
			got, err := strz.Base64Decode(e, enc)
			gotS, errS := strz.Base64Decode(string(e), enc)
			gs, errT := strz.Base64DecodeToString(e, enc)
			es := func(x error) string {
				if x == nil {
					return ""
				}
				return x.Error()
			}
			if !bytes.Equal(got, ref) || es(err) != es(rerr) || !bytes.Equal(gotS, ref) || es(errS) != es(rerr) || gs != string(ref) || es(errT) != es(rerr) {
				rep("Base64Decode", "value", in, fmt.Sprint(ref, es(rerr)), fmt.Sprint(got, es(err), gotS, es(errS)))
			}
		})
	case "ipv4":
		o := core.RawInts(c.S)
		v := uint32(o[0])<<24 | uint32(o[1])<<16 | uint32(o[2])<<8 | uint32(o[3])
		in := map[string]interface{}{"octets": o}
		st.Nontrivial++
		guard("ipv4", in, func() {
			s := strz.LongToIPv4(v)
			if s != net.IPv4(byte(o[0]), byte(o[1]), byte(o[2]), byte(o[3])).String() || strz.IPv4ToLong(s) != v {
				rep("IPv4", "value", in, v, fmt.Sprint(s, " ", strz.IPv4ToLong(s)))
			}
		})
	default:
		panic("unknown fn " + c.Fn)
	}
}

// finish: IPv4ToLong(LongToIPv4(x)) = x on a strided sweep (quick) or on all 2^32 addresses (thorough)
func finish(st *core.CaseStats, seed int64, tier string) {
	step := uint64(65521) // prime stride: 65k addresses
	if tier == "thorough" {
		step = 1
	}
	var mu sync.Mutex
	var wg sync.WaitGroup
	bad := 0
	const workers = 16
	for w := 0; w < workers; w++ {
		wg.Add(1)
		go func(w int) {
			defer wg.Done()
			for x := uint64(w) * step; x < 1<<32; x += workers * step {
				v := uint32(x)
				if strz.IPv4ToLong(strz.LongToIPv4(v)) != v {
					mu.Lock()
					if bad < 3 {
						st.Add(core.Mismatch{Fn: "IPv4sweep", Kind: "value", Input: v, Expected: v, Actual: strz.LongToIPv4(v)})
					}
					bad++
					mu.Unlock()
				}
			}
		}(w)
	}
	wg.Wait()
	n := int((uint64(1)<<32 + step - 1) / step)
	st.Calls += n
	st.Extra = map[string]interface{}{"ipv4_sweep_addresses": n, "ipv4_sweep_exhaustive": step == 1}
}

func main() { core.CasesMain("c15", run, finish) }
