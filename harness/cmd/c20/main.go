// Case runner for property C20 (randz identifiers, random strings, count generator).
package main

import (
	srand "crypto/rand"
	"errors"
	"io"
	"sync"
	"sync/atomic"
	"encoding/json"
	"fmt"
	"math/big"
	"strings"
	"time"
	"unicode/utf8"

	"github.com/welllog/golib/hashz"
	"github.com/welllog/golib/randz"
	"verifharness/core"
)

// chunkSource hands out 63-bit words assembled from a stream of index-sized chunks
type chunkSource struct {
	chunks  []int
	bits    int
	perWord int
	pos     int
	words   int
}

func (s *chunkSource) Int63() int64 {
	var w int64
	for j := 0; j < s.perWord; j++ {
		c := 0
		if s.pos < len(s.chunks) {
			c = s.chunks[s.pos]
		}
		s.pos++
		w |= int64(c) << uint(s.bits*j)
	}
	s.words++
	return w
}
func (s *chunkSource) Seed(int64) {}

// faultReader stands in for the system's entropy source: it fails at once, after one byte, or reports EOF
type faultReader struct{ kind string }

func (f faultReader) Read(p []byte) (int, error) {
	switch f.kind {
	case "short":
		if len(p) > 0 {
			p[0] = 0xA5
			return 1, errors.New("entropy source came up short")
		}
		return 0, errors.New("entropy source came up short")
	case "eof":
		return 0, io.EOF
	}
	return 0, errors.New("entropy source unavailable")
}

var charsets = [][]string{
	{"a", "b", "c", "d", "e"},
	{"中", "é", "😀", "x", "�"},
	{"Z", "ß", "文", "𝄞", "0"},
}

func bitLen(n int) int {
	b := 0
	for ; n != 0; n >>= 1 {
		b++
	}
	return b
}

func run(c *core.Case, st *core.CaseStats, seed int64) {
	switch c.Fn {
	case "b32":
		ds := core.RawInts(c.S)
		var v int64
		for _, d := range ds {
			v = v*32 + int64(d)
		}
		want := string(bytesOf(core.RawInts(c.Out)))
		id := randz.ID(v)
		st.Calls += 2
		st.Nontrivial++
		var got string
		var back randz.ID
		var err error
		msg, p := core.Guard(func() {
			got = id.Base32()
			back, err = randz.ParseBase32([]byte(got))
		})
		in := map[string]interface{}{"id": v}
		if p {
			st.Add(core.Mismatch{Fn: c.Fn, Kind: "panic", Case: c, Input: in, Expected: "no panic", Actual: msg})
			return
		}
		if got != want {
			st.Add(core.Mismatch{Fn: c.Fn, Kind: "value", Case: c, Input: in, Expected: want, Actual: got})
		}
		if err != nil || back != id {
			st.Add(core.Mismatch{Fn: "b32parse", Kind: "value", Case: c, Input: in, Expected: v, Actual: fmt.Sprint(back, err)})
		}
		// the other numerals against math/big
		bi := big.NewInt(v)
		for base, s := range map[int]string{2: id.Base2(), 10: id.String(), 36: id.Base36()} {
			if s != bi.Text(base) {
				st.Add(core.Mismatch{Fn: fmt.Sprintf("base%d", base), Kind: "value", Case: c, Input: in, Expected: bi.Text(base), Actual: s})
			}
		}
		if id.Int64() != v {
			st.Add(core.Mismatch{Fn: "Int64", Kind: "value", Case: c, Input: in, Expected: v, Actual: id.Int64()})
		}
	case "b32bad":
		b := bytesOf(core.RawInts(c.S))
		wantErr := core.RawInts(c.Out)[0] == 1
		st.Calls++
		if len(b) > 1 {
			st.Nontrivial++
		}
		var id randz.ID
		var err error
		msg, p := core.Guard(func() { id, err = randz.ParseBase32(b) })
		in := map[string]interface{}{"bytes": b, "string": string(b)}
		if p {
			st.Add(core.Mismatch{Fn: c.Fn, Kind: "panic", Case: c, Input: in, Expected: "no panic", Actual: msg})
		} else if wantErr && err != randz.ErrInvalidBase32 {
			st.Add(core.Mismatch{Fn: c.Fn, Kind: "value", Case: c, Input: in, Expected: "ErrInvalidBase32", Actual: fmt.Sprint(id, err)})
		} else if !wantErr && err != nil {
			st.Add(core.Mismatch{Fn: c.Fn, Kind: "value", Case: c, Input: in, Expected: "a value", Actual: fmt.Sprint(err)})
		}
	case "strconc":
		g, cn := core.RawInt(c.A[0]), core.RawInt(c.A[1])
		set := []string{"a", "€", "中", "😀", "x", "é", "z"}[:cn]
		in := map[string]interface{}{"goroutines": g, "charset": strings.Join(set, "")}
		allowed := map[rune]bool{}
		for _, x := range set {
			allowed[[]rune(x)[0]] = true
		}
		st.Nontrivial++
		randz.SetStrGeneratorCharSet(strings.Join(set, ""))
		var wg sync.WaitGroup
		bad := make([]string, g)
		for w := 0; w < g; w++ {
			wg.Add(1)
			go func(w int) {
				defer wg.Done()
				defer func() {
					if p := recover(); p != nil {
						bad[w] = fmt.Sprint("panic: ", p)
					}
				}()
				for k := 0; k < 1500 && bad[w] == ""; k++ {
					n := (k*7 + w) % 41
					got := randz.String(n)
					ok := utf8.RuneCountInString(got) == n
					for _, r := range got {
						if !allowed[r] {
							ok = false
						}
					}
					if !ok {
						bad[w] = fmt.Sprintf("String(%d) = %q", n, got)
					}
				}
			}(w)
		}
		wg.Wait()
		randz.SetStrGeneratorCharSet(randz.CHAR_SET)
		st.Calls += g * 1500
		for _, b := range bad {
			if b != "" {
				st.Add(core.Mismatch{Fn: c.Fn, Kind: "value", Case: c, Input: in, Expected: "n runes of the character set from every concurrent call", Actual: b})
				break
			}
		}
	case "strswitch":
		g, order := core.RawInt(c.A[0]), ""
		json.Unmarshal(c.A[1], &order)
		sets := map[string][]string{
			"shrinking": {"ABCDEFGHIJKLMNOP", "wxyzuv€é", "中文😀", "01"},
			"growing":   {"01", "中文😀", "wxyzuv€é", "ABCDEFGHIJKLMNOP"},
			"mixed":     {"ABCDEFGH", "wxyz", "中文😀日本語żó", "01", "qrstuQRSTU", "é"},
		}[order]
		in := map[string]interface{}{"goroutines": g, "sets": sets}
		st.Nontrivial++
		var stop int32
		var calls int64
		var wg sync.WaitGroup
		bad := make([]string, g)
		randz.SetStrGeneratorCharSet(sets[0])
		for w := 0; w < g; w++ {
			wg.Add(1)
			go func(w int) {
				defer wg.Done()
				defer func() {
					if p := recover(); p != nil {
						bad[w] = fmt.Sprint("panic: ", p)
					}
				}()
				for k := 0; atomic.LoadInt32(&stop) == 0 && bad[w] == ""; k++ {
					n := 40 + (k*13+w)%160
					got := randz.String(n)
					ok := false
					for _, set := range sets {
						if strings.Trim(got, set) == "" {
							ok = true
						}
					}
					if !ok || utf8.RuneCountInString(got) != n {
						bad[w] = fmt.Sprintf("String(%d) = %q", n, got)
					}
					atomic.AddInt64(&calls, 1)
				}
			}(w)
		}
		for k := 0; k < 6000; k++ {
			randz.SetStrGeneratorCharSet(sets[k%len(sets)])
			if k%8 == 0 {
				time.Sleep(20 * time.Microsecond)
			}
		}
		atomic.StoreInt32(&stop, 1)
		wg.Wait()
		st.Calls += int(calls)
		randz.SetStrGeneratorCharSet(randz.CHAR_SET)
		for _, b := range bad {
			if b != "" {
				st.Add(core.Mismatch{Fn: c.Fn, Kind: "value", Case: c, Input: in, Expected: "n runes, all of one of the character sets configured during the call", Actual: b})
				break
			}
		}
	case "identropy":
		rb, fault := core.RawInt(c.A[0]), ""
		json.Unmarshal(c.A[1], &fault)
		eff := core.RawInts(c.Out)[0]
		el := int64(3600000)
		start := time.Now().Add(-time.Duration(el) * time.Millisecond)
		g := randz.NewIdGenerator(start, rb)
		old := srand.Reader
		srand.Reader = faultReader{fault}
		type obs struct {
			id            randz.ID
			before, after int64
		}
		var got []obs
		msg, p := core.Guard(func() {
			for k := 0; k < 40; k++ {
				before := time.Since(start).Milliseconds()
				id := g.Generate()
				got = append(got, obs{id, before, time.Since(start).Milliseconds()})
			}
		})
		srand.Reader = old
		st.Calls += 40
		st.Nontrivial++
		in := map[string]interface{}{"randBit": rb, "entropy_source": fault}
		if p {
			st.Add(core.Mismatch{Fn: c.Fn, Kind: "panic", Case: c, Input: in, Expected: "no panic", Actual: msg})
			break
		}
		for _, o := range got {
			ms := int64(o.id) >> uint(eff)
			r := int64(o.id) & (int64(1)<<uint(eff) - 1)
			if o.id < 0 || ms < o.before || ms > o.after || r < 0 {
				st.Add(core.Mismatch{Fn: c.Fn, Kind: "value", Case: c, Input: in, Expected: fmt.Sprintf("ms in [%d,%d] above %d random bits", o.before, o.after, eff), Actual: []int64{int64(o.id), ms, r}})
				break
			}
		}
	case "idlayout":
		rb := core.RawInt(c.A[0])
		eff := core.RawInts(c.Out)[0]
		el := int64(12345678)
		if len(c.A) > 3 { // b * 2^k + d
			el = int64(core.RawInt(c.A[1]))<<uint(core.RawInt(c.A[2])) + int64(core.RawInt(c.A[3]))
		}
		start := time.Now().Add(-time.Duration(el) * time.Millisecond)
		g := randz.NewIdGenerator(start, rb)
		var prev randz.ID = -1
		for k := 0; k < 4; k++ {
			st.Calls++
			st.Nontrivial++
			before := time.Since(start).Milliseconds()
			id := g.Generate()
			after := time.Since(start).Milliseconds()
			ms := int64(id) >> uint(eff)
			r := int64(id) & (int64(1)<<uint(eff) - 1)
			in := map[string]interface{}{"randBit": rb, "start_ms_ago": el, "id": int64(id), "window_ms": []int64{before, after}}
			if el < 0 {
				// start time in the future: only sign and random part are fixed by the property
				if id < 0 || r < 0 || r >= int64(1)<<uint(eff) {
					st.Add(core.Mismatch{Fn: c.Fn, Kind: "value", Case: c, Input: in, Expected: "a non-negative id", Actual: []int64{int64(id), r}})
				}
				prev = -1
				time.Sleep(time.Millisecond)
				continue
			}
			if id < 0 || ms < before || ms > after || r < 0 || r >= int64(1)<<uint(eff) {
				st.Add(core.Mismatch{Fn: c.Fn, Kind: "value", Case: c, Input: in, Expected: fmt.Sprintf("ms in [%d,%d] above %d random bits", before, after, eff), Actual: []int64{ms, r}})
			}
			if prev >= 0 && id <= prev {
				st.Add(core.Mismatch{Fn: "idmonotone", Kind: "value", Case: c, Input: in, Expected: "greater than the id taken >= 2 ms earlier", Actual: []int64{int64(prev), int64(id)}})
			}
			prev = id
			time.Sleep(2 * time.Millisecond)
		}
	case "strgen":
		chunks := core.RawInts(c.S)
		cn, n := core.RawInt(c.A[0]), core.RawInt(c.A[1])
		want := core.RawInts(c.Out)
		for _, cs := range charsets {
			set := strings.Join(cs[:cn], "")
			src := &chunkSource{chunks: chunks, bits: bitLen(cn), perWord: 63 / bitLen(cn)}
			g := randz.NewStrGenerator(set, src)
			var got string
			st.Calls++
			if n > 0 {
				st.Nontrivial++
			}
			msg, p, hung := core.GuardTimed(func() { got = g.Generate(n) }, 20*time.Second)
			in := map[string]interface{}{"charset": set, "n": n, "chunks": chunks}
			if hung {
				st.Add(core.Mismatch{Fn: c.Fn, Kind: "hang", Case: c, Input: in, Expected: "returns", Actual: msg})
				return
			}
			if p {
				st.Add(core.Mismatch{Fn: c.Fn, Kind: "panic", Case: c, Input: in, Expected: "no panic", Actual: msg})
				continue
			}
			var w strings.Builder
			for _, i := range want {
				w.WriteString(cs[i])
			}
			core.Retain(st, c, "StrGenerator.Generate", in, got)
			if got != w.String() || utf8.RuneCountInString(got) != n {
				st.Add(core.Mismatch{Fn: c.Fn, Kind: "value", Case: c, Input: in, Expected: w.String(), Actual: got})
			}
		}
	case "count":
		var rules [][]int
		json.Unmarshal(c.S, &rules)
		h := core.RawInt(c.A[0])
		var want [][]int
		json.Unmarshal(c.Out, &want)
		id := idWithHash(h)
		// both insertion orders (AddRule sorts by period)
		for ord := 0; ord < len(rules); ord++ {
			var g randz.CountGenerator
			for k := range rules {
				r := rules[(k+ord)%len(rules)]
				g.AddRule(r[0], r[1], r[2], r[3])
			}
			prev := 0
			for d := 0; d < len(want); d++ {
				st.Calls += 3
				st.Nontrivial++
				mn, gen, mx := g.Min(d), g.Generate(id, d), g.Max(d)
				in := map[string]interface{}{"rules": rules, "order": ord, "id": id, "hash_mod_6": h, "elapsed": d}
				if mn != want[d][0] || gen != want[d][1] || mx != want[d][2] {
					st.Add(core.Mismatch{Fn: c.Fn, Kind: "value", Case: c, Input: in, Expected: want[d], Actual: []int{mn, gen, mx}})
				}
				if gen < mn || gen > mx || gen < prev {
					st.Add(core.Mismatch{Fn: "countbounds", Kind: "value", Case: c, Input: in, Expected: "Min <= Generate <= Max, non-decreasing", Actual: []int{mn, gen, mx, prev}})
				}
				prev = gen
			}
		}
	default:
		panic("unknown fn " + c.Fn)
	}
}

var idCache = map[int]string{}

// idWithHash finds an id whose BKDRHash is h modulo 6 (the multipliers of all rules depend on it only
// modulo their maxima, which are <= 3 and <= 2)
func idWithHash(h int) string {
	if s, ok := idCache[h]; ok {
		return s
	}
	for i := 0; ; i++ {
		s := fmt.Sprintf("id-%d", i)
		if int(hashz.BKDRHash(s)%6) == h {
			idCache[h] = s
			return s
		}
	}
}

func bytesOf(xs []int) []byte {
	b := make([]byte, len(xs))
	for i, x := range xs {
		b[i] = byte(x)
	}
	return b
}

// finish: the default generators (package-level functions) have the documented shape too
func finish(st *core.CaseStats, seed int64, tier string) {
	for _, n := range []int{0, 1, 7, 64} {
		s := randz.String(n)
		st.Calls++
		if utf8.RuneCountInString(s) != n || strings.Trim(s, randz.CHAR_SET) != "" {
			st.Add(core.Mismatch{Fn: "String", Kind: "value", Input: n, Expected: "n runes of CHAR_SET", Actual: s})
		}
	}
	id := randz.Id()
	if id < 0 {
		st.Add(core.Mismatch{Fn: "Id", Kind: "value", Expected: ">= 0", Actual: int64(id)})
	}
}

func main() { core.CasesMain("c20", run, finish) }
