// Case runner for properties C08 (AES-CBC/GCM helpers, PKCS#7) and C09 (secret-based
// envelopes, streams). The case tables come from Pkcs7.tla / SecretEnvelope.tla; the
// uninterpreted symbols of those specifications (block cipher, GCM, MD5, base64, hex) are
// interpreted here with the Go standard library (trusted base). The CBC chaining and the
// EVP_BytesToKey chain are evaluated from the specification's formulas, not through the
// library's own code paths.
package main

import (
	"bytes"
	"crypto/aes"
	"crypto/cipher"
	"crypto/md5"
	"encoding/base64"
	"encoding/hex"
	"encoding/json"
	"fmt"
	"strings"
	"io"
	"math/rand"
	"time"

	"github.com/welllog/golib/cryptz"
	"verifharness/core"
)

var rng *rand.Rand

func rb(n int) []byte {
	b := make([]byte, n)
	rng.Read(b)
	return b
}

func argS(c *core.Case, i int) string {
	var s string
	json.Unmarshal(c.A[i], &s)
	return s
}
func argI(c *core.Case, i int) int { return core.RawInt(c.A[i]) }

// cbcRef: C_i = E(k, P_i xor C_{i-1}), C_0 = iv, over the PKCS#7-padded plaintext
func cbcRef(key, iv, plain []byte) []byte {
	blk, err := aes.NewCipher(key)
	if err != nil {
		panic(err)
	}
	p := 16 - len(plain)%16
	padded := append(append([]byte{}, plain...), bytes.Repeat([]byte{byte(p)}, p)...)
	out := make([]byte, len(padded))
	prev := iv
	for i := 0; i < len(padded); i += 16 {
		var x [16]byte
		for j := 0; j < 16; j++ {
			x[j] = padded[i+j] ^ prev[j]
		}
		blk.Encrypt(out[i:i+16], x[:])
		prev = out[i : i+16]
	}
	return out
}

// cbcRaw encrypts already block-aligned data without padding (to build ciphertexts whose
// plaintext carries a chosen, possibly invalid, padding)
func cbcRaw(key, iv, data []byte) []byte {
	blk, _ := aes.NewCipher(key)
	out := make([]byte, len(data))
	prev := iv
	for i := 0; i < len(data); i += 16 {
		var x [16]byte
		for j := 0; j < 16; j++ {
			x[j] = data[i+j] ^ prev[j]
		}
		blk.Encrypt(out[i:i+16], x[:])
		prev = out[i : i+16]
	}
	return out
}

// ctrTerm: body[i] = plain[i] XOR E(key, iv + i/16)[i%16] with a 128-bit big-endian counter (E = one AES block)
func ctrTerm(key, iv, plain []byte) []byte {
	blk, _ := aes.NewCipher(key)
	ctr := append([]byte{}, iv...)
	out := make([]byte, len(plain))
	var ks [16]byte
	for i := range plain {
		if i%16 == 0 {
			blk.Encrypt(ks[:], ctr)
			for j := 15; j >= 0; j-- {
				ctr[j]++
				if ctr[j] != 0 {
					break
				}
			}
		}
		out[i] = plain[i] ^ ks[i%16]
	}
	return out
}

// defined types over string and []byte (admitted by the constraint ~string | ~[]byte)
type nStr string
type nBytes []byte

// evp: D1 = md5(secret.salt), D_{j+1} = md5(D_j.secret.salt); key = D1.D2, iv = D3
func evp(secret, salt []byte) (key, iv []byte) {
	var d []byte
	var all []byte
	for j := 0; j < 3; j++ {
		h := md5.New()
		h.Write(d)
		h.Write(secret)
		h.Write(salt)
		d = h.Sum(nil)
		all = append(all, d...)
	}
	return all[:32], all[32:48]
}

func run(c *core.Case, st *core.CaseStats, seed int64) {
	if rng == nil {
		rng = rand.New(rand.NewSource(seed))
	}
	rep := func(fn, kind string, in, exp, act interface{}) {
		st.Add(core.Mismatch{Fn: fn, Kind: kind, Case: c, Input: in, Expected: exp, Actual: act})
	}
	guard := func(fn string, in interface{}, f func()) bool {
		st.Calls++
		msg, p, hung := core.GuardTimed(f, 30*time.Second)
		if hung {
			rep(fn, "hang", in, "returns", msg)
			return false
		}
		if p {
			rep(fn, "panic", in, "no panic", msg)
			return false
		}
		return true
	}
	switch c.Fn {
	// ------------------------------------------------------------------ C08
	case "unpad":
		xs := core.RawInts(c.S)
		data := make([]byte, len(xs))
		for i, x := range xs {
			data[i] = byte(x)
		}
		b := argI(c, 0)
		want := core.RawInts(c.Out)
		orig := append([]byte{}, data...)
		var got []byte
		var err error
		if len(data) > 1 {
			st.Nontrivial++
		}
		in := map[string]interface{}{"data": xs, "block": b}
		if guard("PKCS7UnPadding", in, func() { got, err = cryptz.PKCS7UnPadding(data, b) }) {
			if want[0] == 1 && (err != nil || !bytes.Equal(got, orig[:want[1]])) {
				rep("PKCS7UnPadding", "value", in, want, fmt.Sprint(got, err))
			} else if want[0] == 0 && err == nil {
				rep("PKCS7UnPadding", "value", in, "error", got)
			}
		}
		if b == 8 {
			guard("PKCS5UnPadding", in, func() { cryptz.PKCS5UnPadding(data) })
		}
	case "pad":
		n, b := argI(c, 0), argI(c, 1)
		want := core.RawInts(c.Out)
		d := rb(n)
		in := map[string]interface{}{"len": n, "block": b}
		var got []byte
		var err error
		st.Nontrivial++
		if guard("PKCS7Padding", in, func() { got, err = cryptz.PKCS7Padding(append([]byte{}, d...), b) }) {
			ok := err == nil && len(got) == want[1] && bytes.Equal(got[:n], d)
			for i := n; ok && i < len(got); i++ {
				ok = got[i] == byte(want[0])
			}
			if !ok {
				rep("PKCS7Padding", "value", in, want, fmt.Sprint(got, err))
			} else {
				var back []byte
				var err2 error
				if guard("PKCS7UnPadding", in, func() { back, err2 = cryptz.PKCS7UnPadding(got, b) }) && (err2 != nil || !bytes.Equal(back, d)) {
					rep("PKCS7UnPadding", "value", in, "round trip", fmt.Sprint(back, err2))
				}
			}
			if b == 8 {
				g5, e5 := cryptz.PKCS5Padding(append([]byte{}, d...))
				if e5 != nil || !bytes.Equal(g5, got) {
					rep("PKCS5Padding", "value", in, got, fmt.Sprint(g5, e5))
				}
			}
		}
	case "bigunpad":
		b, nb, q, cor := argI(c, 0), argI(c, 1), argI(c, 2), argI(c, 3)
		want := core.RawInts(c.Out)
		data := rb(b * nb)
		for i := range data { // keep accidental paddings out of the random part
			data[i] = data[i]%50 + 200
			if int(data[i]) == q || int(data[i]) == b {
				data[i] = 199
			}
		}
		if q >= 1 && q <= b {
			for i := 0; i < q && i < len(data); i++ {
				data[len(data)-1-i] = byte(q)
			}
		}
		data[len(data)-1] = byte(q)
		if cor > 1 && cor <= len(data) {
			data[len(data)-cor] ^= 0x40
		}
		in := map[string]interface{}{"block": b, "blocks": nb, "last": q, "corrupt_from_end": cor, "data": data}
		st.Nontrivial++
		var back []byte
		var err error
		if guard("PKCS7UnPadding", in, func() { back, err = cryptz.PKCS7UnPadding(append([]byte{}, data...), b) }) {
			if want[0] == 1 && (err != nil || len(back) != want[1] || !bytes.Equal(back, data[:len(back)])) {
				rep("PKCS7UnPadding", "value", in, want, fmt.Sprint(len(back), err))
			} else if want[0] == 0 && err == nil {
				rep("PKCS7UnPadding", "value", in, "error (not a correctly padded multiple of the block size)", len(back))
			}
		}
	case "oddunpad":
		b, n, q := argI(c, 0), argI(c, 1), argI(c, 2)
		data := rb(n)
		for i := 0; i < q && i < n; i++ {
			data[n-1-i] = byte(q)
		}
		in := map[string]interface{}{"block": b, "len": n, "tail": q, "data": data}
		st.Nontrivial++
		var back []byte
		var err error
		if guard("PKCS7UnPadding", in, func() { back, err = cryptz.PKCS7UnPadding(append([]byte{}, data...), b) }) && err == nil {
			rep("PKCS7UnPadding", "value", in, "error (length is not a multiple of the block size)", len(back))
		}
	case "paderr":
		b := argI(c, 1)
		in := map[string]interface{}{"block": b}
		guard("PKCS7Padding", in, func() {
			if _, err := cryptz.PKCS7Padding([]byte{1, 2, 3}, b); err == nil {
				rep("PKCS7Padding", "value", in, "error", "nil")
			}
			if _, err := cryptz.PKCS7UnPadding([]byte{1, 2, 3}, b); err == nil {
				rep("PKCS7UnPadding", "value", in, "error", "nil")
			}
			if _, err := cryptz.PKCS7Padding(nil, 8); err == nil {
				rep("PKCS7Padding", "value", "empty", "error", "nil")
			}
			if _, err := cryptz.PKCS7UnPadding(nil, 8); err == nil {
				rep("PKCS7UnPadding", "value", "empty", "error", "nil")
			}
		})
	case "cbc":
		n, k, lay := argI(c, 0), argI(c, 1), argS(c, 2)
		want := core.RawInts(c.Out)
		key, iv, plain := rb(k), rb(16), rb(n)
		in := map[string]interface{}{"n": n, "keylen": k, "layout": lay, "key": key, "iv": iv, "plain": plain}
		st.Nontrivial++
		if l := cryptz.AESCBCEncryptLen(plain); l != want[0] {
			rep("AESCBCEncryptLen", "value", in, want[0], l)
		}
		if l := cryptz.AESCBCEncryptLen(string(plain)); l != want[0] {
			rep("AESCBCEncryptLen", "value", in, want[0], l)
		}
		ref := cbcRef(key, iv, plain)
		var dst []byte
		var err error
		if guard("AESCBCEncrypt", in, func() {
			switch lay {
			case "shared":
				buf := make([]byte, want[0])
				copy(buf, plain)
				dst = buf
				err = cryptz.AESCBCEncrypt(dst, buf[:n], key, iv)
			case "pool": // two disjoint windows of one allocation; dst holds stale bytes
				pool := rb(256 + want[0])
				copy(pool[:n], plain)
				dst = pool[128 : 128+want[0]]
				err = cryptz.AESCBCEncrypt(dst, pool[:n], key, iv)
			case "shift": // the plaintext sits 16 bytes into the buffer that receives the ciphertext
				frame := rb(16 + want[0])
				copy(frame[16:], plain)
				dst = frame[:want[0]]
				err = cryptz.AESCBCEncrypt(dst, frame[16:16+n], key, iv)
			default:
				dst = make([]byte, want[0])
				err = cryptz.AESCBCEncrypt(dst, plain, key, iv)
			}
		}) {
			if err != nil || !bytes.Equal(dst, ref) {
				rep("AESCBCEncrypt", "value", in, ref, fmt.Sprint(dst, err))
			}
		}
		var out []byte
		var m int
		if guard("AESCBCDecrypt", in, func() {
			ct := append([]byte{}, ref...)
			if cryptz.AESCBCDecryptLen(ct) != len(ct) {
				rep("AESCBCDecryptLen", "value", in, len(ct), cryptz.AESCBCDecryptLen(ct))
			}
			if lay == "shared" {
				out = ct
			} else {
				out = make([]byte, len(ct))
			}
			m, err = cryptz.AESCBCDecrypt(out, ct, key, iv)
		}) {
			if err != nil || m != n || !bytes.Equal(out[:m], plain) {
				rep("AESCBCDecrypt", "value", in, plain, fmt.Sprint(m, err, out))
			}
		}
	case "cbcunpad":
		nb, p, cor := argI(c, 0), argI(c, 1), argI(c, 2)
		want := core.RawInts(c.Out)
		key, iv := rb(32), rb(16)
		data := rb(16 * nb)
		for i := range data { // keep accidental paddings out of the random part
			if data[i] <= 16 {
				data[i] += 100
			}
		}
		run := p
		if run > 16*nb {
			run = 16 * nb
		}
		if p <= 16 {
			for i := 0; i < run; i++ {
				data[len(data)-1-i] = byte(p)
			}
		}
		data[len(data)-1] = byte(p) // (also for p = 0 and p > 16, where no run is written)
		if cor > 0 && cor <= len(data) {
			data[len(data)-cor] ^= 0x40
			if cor == 1 {
				data[len(data)-1] = byte(p)
			}
		}
		ct := cbcRaw(key, iv, data)
		in := map[string]interface{}{"blocks": nb, "last": p, "corrupt_from_end": cor, "plain_with_padding": data}
		st.Nontrivial++
		var m int
		var err error
		out := make([]byte, len(ct))
		if guard("AESCBCDecrypt", in, func() { m, err = cryptz.AESCBCDecrypt(out, ct, key, iv) }) {
			if want[0] == 1 && (err != nil || m != want[1]) {
				rep("AESCBCDecrypt", "value", in, want, fmt.Sprint(m, err))
			} else if want[0] == 0 && err == nil {
				rep("AESCBCDecrypt", "value", in, "error (not a correctly padded plaintext)", m)
			}
		}
	case "cbcbadlen":
		n := argI(c, 0)
		in := map[string]interface{}{"len": n}
		guard("AESCBCDecrypt", in, func() {
			if _, err := cryptz.AESCBCDecrypt(make([]byte, n+16), rb(n), rb(16), rb(16)); err == nil {
				rep("AESCBCDecrypt", "value", in, "error", "nil")
			}
		})
	case "badkey":
		k := argI(c, 0)
		in := map[string]interface{}{"keylen": k}
		guard("badkey", in, func() {
			key := rb(k)
			if err := cryptz.AESCBCEncrypt(make([]byte, 32), rb(5), key, rb(16)); err == nil {
				rep("AESCBCEncrypt", "value", in, "error", "nil")
			}
			if _, err := cryptz.AESCBCDecrypt(make([]byte, 32), rb(32), key, rb(16)); err == nil {
				rep("AESCBCDecrypt", "value", in, "error", "nil")
			}
			if err := cryptz.AESGCMEncrypt(make([]byte, 32), rb(5), key, rb(12), nil); err == nil {
				rep("AESGCMEncrypt", "value", in, "error", "nil")
			}
			if err := cryptz.AESGCMDecrypt(make([]byte, 32), rb(32), key, rb(12), nil); err == nil {
				rep("AESGCMDecrypt", "value", in, "error", "nil")
			}
		})
	case "keyseq":
		lens := core.RawInts(c.S)
		mode := argS(c, 0)
		base := rb(16)
		iv, nonce, plain := rb(16), rb(12), rb(21)
		in := map[string]interface{}{"keylens": lens, "mode": mode}
		st.Nontrivial++
		guard("keyseq", in, func() {
			for step, kl := range lens {
				key := make([]byte, kl) // the same leading bytes, zero-extended
				copy(key, base)
				valid := kl == 16 || kl == 24 || kl == 32
				if mode == "cbc" {
					dst := make([]byte, cryptz.AESCBCEncryptLen(plain))
					err := cryptz.AESCBCEncrypt(dst, plain, key, iv)
					if !valid {
						if err == nil {
							rep("AESCBCEncrypt", "value", in, fmt.Sprintf("error for a %d-byte key (call %d)", kl, step+1), "nil")
						}
						continue
					}
					if ref := cbcRef(key, iv, plain); err != nil || !bytes.Equal(dst, ref) {
						rep("AESCBCEncrypt", "value", in, fmt.Sprintf("standard AES-CBC under the %d-byte key (call %d)", kl, step+1), fmt.Sprint(err))
					}
				} else {
					dst := make([]byte, len(plain)+16)
					err := cryptz.AESGCMEncrypt(dst, plain, key, nonce, nil)
					if !valid {
						if err == nil {
							rep("AESGCMEncrypt", "value", in, fmt.Sprintf("error for a %d-byte key (call %d)", kl, step+1), "nil")
						}
						continue
					}
					blk, _ := aes.NewCipher(key)
					g, _ := cipher.NewGCM(blk)
					if ref := g.Seal(nil, nonce, plain, nil); err != nil || !bytes.Equal(dst, ref) {
						rep("AESGCMEncrypt", "value", in, fmt.Sprintf("standard AES-GCM under the %d-byte key (call %d)", kl, step+1), fmt.Sprint(err))
					}
					// a message sealed under this key must not open under the previous (shorter / longer) one
					if step > 0 {
						prev := make([]byte, lens[step-1])
						copy(prev, base)
						if pl := lens[step-1]; pl == 16 || pl == 24 || pl == 32 {
							if err := cryptz.AESGCMDecrypt(make([]byte, len(plain)), dst, prev, nonce, nil); err == nil {
								rep("AESGCMDecrypt", "value", in, "error under a key of another length", "nil")
							}
						}
					}
				}
			}
		})
	case "gcm":
		n, nl, al, k, lay := argI(c, 0), argI(c, 1), argI(c, 2), argI(c, 3), argS(c, 4)
		key, nonce, aad, plain := rb(k), rb(nl), rb(al), rb(n)
		in := map[string]interface{}{"n": n, "noncelen": nl, "aadlen": al, "keylen": k, "layout": lay}
		st.Nontrivial++
		blk, _ := aes.NewCipher(key)
		g, _ := cipher.NewGCMWithNonceSize(blk, nl)
		ref := g.Seal(nil, nonce, plain, aad)
		if l := cryptz.AESGCMEncryptLen(plain); l != len(ref) {
			rep("AESGCMEncryptLen", "value", in, len(ref), l)
		}
		if l := cryptz.AESGCMDecryptLen(ref); l != n {
			rep("AESGCMDecryptLen", "value", in, n, l)
		}
		var dst []byte
		var err error
		if guard("AESGCMEncrypt", in, func() {
			if lay == "shared" {
				buf := make([]byte, n+16)
				copy(buf, plain)
				dst = buf
				err = cryptz.AESGCMEncrypt(dst, buf[:n], key, nonce, aad)
			} else if lay == "pool" {
				pool := rb(256 + n + 16)
				copy(pool[:n], plain)
				dst = pool[128 : 128+n+16]
				err = cryptz.AESGCMEncrypt(dst, pool[:n], key, nonce, aad)
			} else {
				dst = make([]byte, n+16)
				err = cryptz.AESGCMEncrypt(dst, plain, key, nonce, aad)
			}
		}) {
			if err != nil || !bytes.Equal(dst, ref) {
				rep("AESGCMEncrypt", "value", in, ref, fmt.Sprint(dst, err))
			}
		}
		var out []byte
		if guard("AESGCMDecrypt", in, func() {
			ct := append([]byte{}, ref...)
			if lay == "shared" {
				out = ct[:n]
			} else {
				out = make([]byte, n)
			}
			err = cryptz.AESGCMDecrypt(out, ct, key, nonce, aad)
		}) {
			if err != nil || !bytes.Equal(out[:n], plain) {
				rep("AESGCMDecrypt", "value", in, plain, fmt.Sprint(out, err))
			}
		}
	case "gcmtamper":
		n, nl, al, part, pos, bit := argI(c, 0), argI(c, 1), argI(c, 2), argS(c, 3), argS(c, 4), argI(c, 5)
		key, nonce, aad, plain := rb(32), rb(nl), rb(al), rb(n)
		ct := make([]byte, n+16)
		cryptz.AESGCMEncrypt(ct, plain, key, nonce, aad)
		in := map[string]interface{}{"n": n, "noncelen": nl, "aadlen": al, "part": part, "pos": pos, "bit": bit}
		st.Nontrivial++
		flip := func(b []byte) {
			i := 0
			switch pos {
			case "mid":
				i = len(b) / 2
			case "last":
				i = len(b) - 1
			}
			b[i] ^= 1 << uint(bit)
		}
		switch part {
		case "ct":
			flip(ct[:n])
		case "tag":
			flip(ct[n:])
		case "nonce":
			flip(nonce)
		case "aad":
			flip(aad)
		}
		guard("AESGCMDecrypt", in, func() {
			if err := cryptz.AESGCMDecrypt(make([]byte, n), ct, key, nonce, aad); err == nil {
				rep("AESGCMDecrypt", "value", in, "error after a one-bit change", "nil")
			}
		})
	default:
		runC09(c, st, rep, guard)
	}
}

// ---------------------------------------------------------------------- C09

// chunkReader delivers data in the given chunk sizes; eofWithData: the last chunk comes with io.EOF
type chunkReader struct {
	data        []byte
	pre         []int
	rest        int
	i           int
	eofWithData bool
}

func (r *chunkReader) Read(p []byte) (int, error) {
	if len(r.data) == 0 {
		return 0, io.EOF
	}
	sz := r.rest
	if r.i < len(r.pre) {
		sz = r.pre[r.i]
	}
	r.i++
	if sz > len(p) {
		sz = len(p)
	}
	if sz > len(r.data) {
		sz = len(r.data)
	}
	n := copy(p, r.data[:sz])
	r.data = r.data[n:]
	if len(r.data) == 0 && r.eofWithData && n > 0 {
		return n, io.EOF
	}
	return n, nil
}

type chunkWriter struct {
	buf   bytes.Buffer
	calls int
}

func (w *chunkWriter) Write(p []byte) (int, error) { w.calls++; return w.buf.Write(p) }

// holdWriter blocks inside its first Write until released, and copies what it was given only afterwards
type holdWriter struct {
	buf     bytes.Buffer
	first   bool
	entered chan struct{}
	release chan struct{}
}

func (w *holdWriter) Write(p []byte) (int, error) {
	if !w.first {
		w.first = true
		close(w.entered)
		<-w.release
	}
	return w.buf.Write(p)
}

func runC09(c *core.Case, st *core.CaseStats, rep func(fn, kind string, in, exp, act interface{}), guard func(fn string, in interface{}, f func()) bool) {
	switch c.Fn {
	case "roundtrip":
		n, sl, form := argI(c, 0), argI(c, 1), argS(c, 2)
		var o struct {
			Cbc int `json:"cbc_len"`
			Gcm int `json:"gcm_len"`
		}
		json.Unmarshal(c.Out, &o)
		// the arguments are adjacent windows of one record of the caller (secret | plaintext | additional data | more):
		// whatever a callee writes behind the end of one argument lands in the next one and is noticed
		al := rng.Intn(9)
		rec := rb(sl + n + al + 24)
		rec0 := append([]byte{}, rec...)
		secret, plain, aad := rec[:sl], rec[sl:sl+n], rec[sl+n:sl+n+al]
		in := map[string]interface{}{"n": n, "secretlen": sl, "form": form, "plain": rec0[sl : sl+n], "secret": rec0[:sl]}
		st.Nontrivial++
		var enc, dec []byte
		var err error
		defer func() {
			if !bytes.Equal(rec, rec0) {
				rep("Encrypt/Decrypt", "value", in, "the caller's memory (arguments and what lies behind them) unchanged", rec)
			}
		}()
		if guard("Encrypt", in, func() {
			switch form {
			case "sS":
				enc, err = cryptz.Encrypt(string(plain), nStr(secret))
			case "bB":
				enc, err = cryptz.Encrypt(plain, nBytes(secret))
			case "SB":
				enc, err = cryptz.Encrypt(nStr(plain), nBytes(secret))
			case "Bs":
				enc, err = cryptz.Encrypt(nBytes(plain), string(secret))
			case "ss":
				enc, err = cryptz.Encrypt(string(plain), string(secret))
			case "sb":
				enc, err = cryptz.Encrypt(string(plain), secret)
			case "bs":
				enc, err = cryptz.Encrypt(plain, string(secret))
			default:
				enc, err = cryptz.Encrypt(plain, secret)
			}
		}) && err == nil {
			core.RetainBytes(st, c, "Encrypt", in, enc)
			raw, e2 := base64.StdEncoding.DecodeString(string(enc))
			if e2 != nil || len(raw) != o.Cbc || string(raw[:8]) != "Salted__" {
				rep("Encrypt", "value", in, fmt.Sprintf("base64 of Salted__ + salt + %d bytes", o.Cbc-16), string(enc))
			} else {
				// OpenSSL interoperability: key/iv by the EVP chain, body = AES-256-CBC of the padded plaintext
				key, iv := evp(secret, raw[8:16])
				if want := cbcRef(key, iv, plain); !bytes.Equal(raw[16:], want) {
					rep("Encrypt", "value", in, "AES-256-CBC under EVP_BytesToKey(MD5) key and iv", raw[16:])
				}
				// the other direction: a message assembled from the specification must decrypt
				salt := rb(8)
				k2, iv2 := evp(secret, salt)
				msg := append(append([]byte("Salted__"), salt...), cbcRef(k2, iv2, plain)...)
				if guard("Decrypt", in, func() { dec, err = cryptz.Decrypt(base64.StdEncoding.EncodeToString(msg), secret) }) {
					if err != nil || !bytes.Equal(dec, plain) {
						rep("Decrypt", "value", in, plain, fmt.Sprint(dec, err))
					}
				}
			}
			if guard("Decrypt", in, func() {
				if form[1] == 's' {
					dec, err = cryptz.Decrypt(enc, string(secret))
				} else {
					dec, err = cryptz.Decrypt(string(enc), secret)
				}
			}) {
				if err != nil || !bytes.Equal(dec, plain) {
					rep("Decrypt", "value", in, plain, fmt.Sprint(dec, err))
				}
			}
		} else if err != nil {
			rep("Encrypt", "value", in, "no error", err.Error())
		}
		if guard("GCMEncrypt", in, func() {
			switch form[1] {
			case 'S':
				enc, err = cryptz.GCMEncrypt(nBytes(plain), nStr(secret), nStr(aad))
			case 'B':
				enc, err = cryptz.GCMEncrypt(nStr(plain), nBytes(secret), nBytes(aad))
			default:
				enc, err = cryptz.GCMEncrypt(plain, secret, aad)
			}
		}) && err == nil {
			core.RetainBytes(st, c, "GCMEncrypt", in, enc)
			raw, e2 := hex.DecodeString(string(enc))
			if e2 != nil || len(raw) != o.Gcm || string(raw[:8]) != "Salted__" {
				rep("GCMEncrypt", "value", in, fmt.Sprintf("hex of Salted__ + salt + %d bytes", o.Gcm-16), string(enc))
			} else {
				key, iv := evp(secret, raw[8:16])
				blk, _ := aes.NewCipher(key)
				g, _ := cipher.NewGCM(blk)
				if want := g.Seal(nil, iv[:12], plain, aad); !bytes.Equal(raw[16:], want) {
					rep("GCMEncrypt", "value", in, "AES-256-GCM under the derived key and nonce", raw[16:])
				}
			}
			if guard("GCMDecrypt", in, func() { dec, err = cryptz.GCMDecrypt(string(enc), string(secret), string(aad)) }) {
				if err != nil || !bytes.Equal(dec, plain) {
					rep("GCMDecrypt", "value", in, plain, fmt.Sprint(dec, err))
				}
				core.RetainBytes(st, c, "GCMDecrypt", in, dec)
			}
		}
	case "streamoverlap":
		n, m := argI(c, 0), argI(c, 1)
		pa, pb, secret := rb(n), rb(m), rb(9)
		in := map[string]interface{}{"first_plain": pa, "second_plain": pb}
		st.Nontrivial++
		guard("EncryptStreamTo", in, func() {
			wa := &holdWriter{entered: make(chan struct{}), release: make(chan struct{})}
			done := make(chan error, 1)
			go func() { done <- cryptz.EncryptStreamTo(wa, bytes.NewReader(pa), secret) }()
			select {
			case <-wa.entered:
			case <-time.After(5 * time.Second):
				close(wa.release)
				<-done
				return // the call never wrote (an empty stream written in one piece later): nothing to overlap
			}
			var wb bytes.Buffer
			errB := cryptz.EncryptStreamTo(&wb, bytes.NewReader(pb), secret)
			close(wa.release)
			errA := <-done
			if errA != nil || errB != nil {
				rep("EncryptStreamTo", "value", in, "no error", fmt.Sprint(errA, errB))
				return
			}
			for _, x := range []struct {
				name string
				enc  []byte
				want []byte
			}{{"the call that was held in its first Write", wa.buf.Bytes(), pa}, {"the call that ran meanwhile", wb.Bytes(), pb}} {
				var out bytes.Buffer
				if err := cryptz.DecryptStreamTo(&out, bytes.NewReader(x.enc), secret); err != nil || !bytes.Equal(out.Bytes(), x.want) {
					rep("EncryptStreamTo", "value", in, map[string]interface{}{"round trip of": x.name}, fmt.Sprint(out.Bytes(), err))
				}
			}
		})
	case "opensslform":
		n, wrap := argI(c, 0), argS(c, 1)
		plain, secret, salt := rb(n), rb(11), rb(8)
		k2, iv2 := evp(secret, salt)
		msg := append(append([]byte("Salted__"), salt...), cbcRef(k2, iv2, plain)...)
		one := base64.StdEncoding.EncodeToString(msg)
		width, nl := 64, "\n"
		switch wrap {
		case "oneline":
			width = len(one) + 1
			nl = ""
		case "crlf64":
			nl = "\r\n"
		case "lf76":
			width = 76
		}
		var txt strings.Builder
		for i := 0; i < len(one); i += width {
			j := i + width
			if j > len(one) {
				j = len(one)
			}
			txt.WriteString(one[i:j])
			txt.WriteString(nl)
		}
		in := map[string]interface{}{"n": n, "form": wrap, "text": txt.String()}
		st.Nontrivial++
		var dec []byte
		var err error
		if guard("Decrypt", in, func() { dec, err = cryptz.Decrypt(txt.String(), secret) }) && (err != nil || !bytes.Equal(dec, plain)) {
			rep("Decrypt", "value", in, "the plaintext (text as written by openssl enc -a)", fmt.Sprint(dec, err))
		}
	case "tamper":
		mode, n, part, pos := argS(c, 0), argI(c, 1), argS(c, 2), argS(c, 3)
		plain, secret, aad := rb(n), rb(argI(c, 4)), rb(4)
		in := map[string]interface{}{"mode": mode, "n": n, "part": part, "pos": pos}
		st.Nontrivial++
		var raw []byte
		if mode == "cbc" {
			raw, _ = cryptz.SaltBySecretCBCEncrypt(plain, secret)
		} else {
			raw, _ = cryptz.SaltBySecretGCMEncrypt(plain, secret, aad)
		}
		lo, hi := 0, 8
		switch part {
		case "salt":
			lo, hi = 8, 16
		case "body":
			lo, hi = 16, len(raw)-16
			if hi <= lo {
				hi = len(raw)
			}
		case "tail":
			lo, hi = len(raw)-16, len(raw)
		}
		i := lo
		if pos == "last" {
			i = hi - 1
		}
		// a change of one character of the ENCODED message that changes the decoded byte
		raw[i] ^= byte(1 + rng.Intn(255))
		var err error
		var dec []byte
		if mode == "cbc" {
			// CBC has no integrity protection: a changed byte must never make decryption panic, and a changed
			// magic must be rejected; everything else may decrypt to something else or fail
			if guard("Decrypt", in, func() { dec, err = cryptz.Decrypt(base64.StdEncoding.EncodeToString(raw), secret) }) {
				if part == "magic" && err == nil {
					rep("Decrypt", "value", in, "error (magic changed)", dec)
				}
				if err == nil && bytes.Equal(dec, plain) && part != "magic" && len(plain) > 0 && part == "salt" {
					rep("Decrypt", "value", in, "not the original plaintext under another salt", dec)
				}
			}
		} else {
			if guard("GCMDecrypt", in, func() { dec, err = cryptz.GCMDecrypt(hex.EncodeToString(raw), secret, aad) }) && err == nil {
				rep("GCMDecrypt", "value", in, "error after a one-byte change of the message", dec)
			}
		}
	case "otherkey":
		mode, what := argS(c, 0), argS(c, 1)
		plain, secret, aad := rb(20), rb(9), rb(4)
		in := map[string]interface{}{"mode": mode, "what": what}
		guard("otherkey", in, func() {
			if mode == "gcm" {
				enc, _ := cryptz.GCMEncrypt(plain, secret, aad)
				s2, a2 := append([]byte{}, secret...), append([]byte{}, aad...)
				if what == "secret" {
					s2[rng.Intn(len(s2))] ^= 1
				} else {
					a2[rng.Intn(len(a2))] ^= 1
				}
				if dec, err := cryptz.GCMDecrypt(enc, s2, a2); err == nil {
					rep("GCMDecrypt", "value", in, "error with another "+what, dec)
				}
				// the caller's own buffers: decrypt successfully, change the buffer in place, decrypt the same message
				// again (a flip-and-restore loop over a key buffer is how callers tamper-test)
				s3, a3 := append([]byte{}, secret...), append([]byte{}, aad...)
				if dec, err := cryptz.GCMDecrypt(enc, s3, a3); err != nil || !bytes.Equal(dec, plain) {
					rep("GCMDecrypt", "value", in, plain, fmt.Sprint(dec, err))
				}
				if what == "secret" {
					s3[rng.Intn(len(s3))] ^= 1
				} else {
					a3[rng.Intn(len(a3))] ^= 1
				}
				if dec, err := cryptz.GCMDecrypt(enc, s3, a3); err == nil {
					rep("GCMDecrypt", "value", in, "error after the "+what+" buffer was changed in place between two calls", dec)
				}
			} else {
				enc, _ := cryptz.Encrypt(plain, secret)
				s2 := append([]byte{}, secret...)
				s2[rng.Intn(len(s2))] ^= 1
				if dec, err := cryptz.Decrypt(enc, s2); err == nil && bytes.Equal(dec, plain) {
					rep("Decrypt", "value", in, "not the plaintext under another secret", dec)
				}
				s3 := append([]byte{}, secret...)
				if dec, err := cryptz.Decrypt(enc, s3); err != nil || !bytes.Equal(dec, plain) {
					rep("Decrypt", "value", in, plain, fmt.Sprint(dec, err))
				}
				s3[rng.Intn(len(s3))] ^= 1
				if dec, err := cryptz.Decrypt(enc, s3); err == nil && bytes.Equal(dec, plain) {
					rep("Decrypt", "value", in, "not the plaintext after the secret buffer was changed in place between two calls", dec)
				}
			}
		})
	case "truncate":
		mode, keep := argS(c, 0), argI(c, 1)
		plain, secret, aad := rb(20), rb(9), rb(4)
		in := map[string]interface{}{"mode": mode, "keep_raw_bytes": keep}
		st.Nontrivial++
		guard("truncate", in, func() {
			if mode == "cbc" {
				raw, _ := cryptz.SaltBySecretCBCEncrypt(plain, secret)
				if keep >= len(raw) {
					return
				}
				if dec, err := cryptz.Decrypt(base64.StdEncoding.EncodeToString(raw[:keep]), secret); err == nil && (keep < 32 || keep%16 != 0) {
					rep("Decrypt", "value", in, "error", dec)
				}
				cryptz.SaltBySecretCBCDecrypt(append([]byte{}, raw[:keep]...), secret, false)
			} else {
				raw, _ := cryptz.SaltBySecretGCMEncrypt(plain, secret, aad)
				if keep >= len(raw) {
					return
				}
				if dec, err := cryptz.GCMDecrypt(hex.EncodeToString(raw[:keep]), secret, aad); err == nil {
					rep("GCMDecrypt", "value", in, "error", dec)
				}
				if dec, err := cryptz.SaltBySecretGCMDecrypt(append([]byte{}, raw[:keep]...), secret, aad, false); err == nil {
					rep("SaltBySecretGCMDecrypt", "value", in, "error", dec)
				}
			}
		})
	case "enctamper", "encappend":
		mode, n := argS(c, 0), argI(c, 1)
		plain, secret, aad := rb(n), rb(9), rb(4)
		var enc []byte
		if mode == "cbc" {
			enc, _ = cryptz.Encrypt(plain, secret)
		} else {
			enc, _ = cryptz.GCMEncrypt(plain, secret, aad)
		}
		txt := append([]byte{}, enc...)
		in := map[string]interface{}{"mode": mode, "n": n}
		mustErr, mayEqual := false, false
		if c.Fn == "enctamper" {
			where, b := argS(c, 2), byte(argI(c, 3))
			i := map[string]int{"first": 0, "second": 1, "mid": len(txt) / 2, "last": len(txt) - 1}[where]
			if txt[i] == b {
				return
			}
			old := txt[i]
			txt[i] = b
			in["where"], in["byte"], in["replaces"] = where, b, string([]byte{old})
			if mode == "gcm" {
				// the same hex digit in the other letter case is the same message
				same := (b|0x20) == (old|0x20) && ((b|0x20) >= 'a' && (b|0x20) <= 'f')
				mustErr, mayEqual = !same, same
			} else {
				inAlpha := (b >= 'A' && b <= 'Z') || (b >= 'a' && b <= 'z') || (b >= '0' && b <= '9') || b == '+' || b == '/'
				mustErr = !inAlpha && b != '\n' && b != '\r' && b != '='
			}
		} else {
			cut := argI(c, 2)
			suffix := core.RawInts(c.S)
			if cut > len(txt) {
				cut = len(txt)
			}
			txt = txt[:len(txt)-cut]
			for _, x := range suffix {
				txt = append(txt, byte(x))
			}
			in["cut"], in["suffix"] = cut, suffix
			// (a cut character may be replaced by the same hex digit in the other letter case: the same message)
			mayEqual = mode == "gcm" && strings.EqualFold(string(txt), string(enc))
			mustErr = mode == "gcm" && !mayEqual
		}
		in["text"] = string(txt)
		st.Nontrivial++
		var dec []byte
		var err error
		name := "Decrypt"
		if mode == "gcm" {
			name = "GCMDecrypt"
		}
		if guard(name, in, func() {
			if mode == "cbc" {
				dec, err = cryptz.Decrypt(string(txt), secret)
			} else {
				dec, err = cryptz.GCMDecrypt(string(txt), secret, aad)
			}
		}) {
			if mustErr && err == nil {
				rep(name, "value", in, "error for a corrupted encoded message", dec)
			}
			if mayEqual && (err != nil || !bytes.Equal(dec, plain)) {
				rep(name, "value", in, "the plaintext (hex digits are case-insensitive)", fmt.Sprint(dec, err))
			}
		}
	case "garbage":
		mode, n, kind := argS(c, 0), argI(c, 1), argS(c, 2)
		in := map[string]interface{}{"mode": mode, "n": n, "kind": kind}
		var raw []byte
		switch kind {
		case "zero":
			raw = make([]byte, n)
		case "rand":
			raw = rb(n)
		case "magic":
			raw = append([]byte("Salted__"), rb(n)...)
		}
		st.Nontrivial++
		guard("garbage", in, func() {
			var encoded string
			if kind == "notenc" { // not even valid base64 / hex
				encoded = string(bytes.Repeat([]byte("!*"), n/2+1))
			} else if mode == "cbc" {
				encoded = base64.StdEncoding.EncodeToString(raw)
			} else {
				encoded = hex.EncodeToString(raw)
			}
			if mode == "cbc" {
				dec, err := cryptz.Decrypt(encoded, "secret")
				if err == nil && kind != "magic" && kind != "rand" {
					rep("Decrypt", "value", in, "error", dec)
				}
				cryptz.SaltBySecretCBCDecrypt(raw, "secret", false)
			} else {
				if dec, err := cryptz.GCMDecrypt(encoded, "secret", "aad"); err == nil {
					rep("GCMDecrypt", "value", in, "error", dec)
				}
				cryptz.SaltBySecretGCMDecrypt(raw, "secret", "aad", false)
			}
		})
	case "stream":
		pre := core.RawInts(c.S)
		body, rest, eof, wchunk := argI(c, 0), argI(c, 1), argS(c, 2), argI(c, 3)
		plain, secret := rb(body), rb(7)
		in := map[string]interface{}{"body": body, "first_reads": pre, "then": rest, "eof": eof, "writer_chunk": wchunk}
		st.Nontrivial++
		// encrypt: the plaintext reader is chunked too (wchunk), the writer collects
		var enc chunkWriter
		var err error
		if !guard("EncryptStreamTo", in, func() {
			pr := &chunkReader{data: append([]byte{}, plain...), rest: 1 << 20, eofWithData: eof == "with_data"}
			if wchunk > 0 {
				pr.rest = wchunk
			}
			err = cryptz.EncryptStreamTo(&enc, pr, secret)
		}) {
			return
		}
		msg := enc.buf.Bytes()
		if err != nil || len(msg) != 16+body || string(msg[:8]) != "Salted__" {
			rep("EncryptStreamTo", "value", in, fmt.Sprintf("Salted__ + salt + %d bytes", body), fmt.Sprint(len(msg), err))
			return
		}
		var dec chunkWriter
		if guard("DecryptStreamTo", in, func() {
			r := &chunkReader{data: append([]byte{}, msg...), pre: pre, rest: rest, eofWithData: eof == "with_data"}
			err = cryptz.DecryptStreamTo(&dec, r, secret)
		}) {
			if err != nil || !bytes.Equal(dec.buf.Bytes(), plain) {
				rep("DecryptStreamTo", "value", in, "round trip for every chunking the io.Reader contract allows", fmt.Sprint(err, " ", dec.buf.Len()))
			}
		}
	case "streamshape":
		pc := core.RawInts(c.S)
		body, rest, eof := argI(c, 0), argI(c, 1), argS(c, 2)
		plain, secret := rb(body), rb(9)
		in := map[string]interface{}{"body": body, "plain_reads": pc, "then": rest, "eof": eof}
		st.Nontrivial++
		var enc chunkWriter
		var err error
		if !guard("EncryptStreamTo", in, func() {
			err = cryptz.EncryptStreamTo(&enc, &chunkReader{data: append([]byte{}, plain...), pre: pc, rest: rest, eofWithData: eof == "with_data"}, secret)
		}) {
			return
		}
		msg := enc.buf.Bytes()
		if err != nil || len(msg) != 16+body || string(msg[:8]) != "Salted__" {
			rep("EncryptStreamTo", "value", in, fmt.Sprintf("Salted__ + salt + %d bytes", body), fmt.Sprint(len(msg), err))
			return
		}
		// the body by the specification's term: plain XOR E(key, iv + block number), byte position by byte position
		key, iv := evp(secret, msg[8:16])
		if want := ctrTerm(key, iv, plain); !bytes.Equal(msg[16:], want) {
			rep("EncryptStreamTo", "value", in, map[string]interface{}{"ctr_body": want}, msg[16:])
			return
		}
		var dec chunkWriter
		if guard("DecryptStreamTo", in, func() {
			err = cryptz.DecryptStreamTo(&dec, &chunkReader{data: append([]byte{}, msg...), pre: append([]int{16}, pc...), rest: rest, eofWithData: eof == "with_data"}, secret)
		}) {
			if err != nil || !bytes.Equal(dec.buf.Bytes(), plain) {
				rep("DecryptStreamTo", "value", in, "round trip for every chunking the io.Reader contract allows", fmt.Sprint(err, " ", dec.buf.Len()))
			}
		}
	case "streambad":
		keep, rest := argI(c, 0), argI(c, 1)
		in := map[string]interface{}{"keep": keep, "then": rest}
		guard("DecryptStreamTo", in, func() {
			var enc chunkWriter
			cryptz.EncryptStreamTo(&enc, bytes.NewReader(rb(5)), "s")
			var out chunkWriter
			if err := cryptz.DecryptStreamTo(&out, &chunkReader{data: enc.buf.Bytes()[:keep], rest: rest}, "s"); err == nil {
				rep("DecryptStreamTo", "value", in, "error on a truncated header", "nil")
			}
			bad := append([]byte("Salted_X"), rb(20)...)
			if err := cryptz.DecryptStreamTo(&out, &chunkReader{data: bad, rest: rest}, "s"); err == nil {
				rep("DecryptStreamTo", "value", in, "error on a wrong magic", "nil")
			}
		})
	default:
		panic("unknown fn " + c.Fn)
	}
}

func main() { core.CasesMain("c08", run, nil) }
