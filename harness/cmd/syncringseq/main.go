// Conformance harness for ringz.SyncRing used from one goroutine (property C10, SyncRing part).
package main

import (
	"encoding/json"
	"math/rand"
	"os"

	"github.com/welllog/golib/ringz"
	"verifharness/core"
)

type ad struct {
	r ringz.SyncRing[int]
	m uint32
}

type initState struct {
	Cap  int    `json:"cap"`
	Head uint32 `json:"head"`
	M    uint32 `json:"m"`
	Req  int    `json:"req"`
	// Real: absolute real start position (random driver only); overrides Head/M placement
	Real *uint32 `json:"real"`
}

func (a *ad) Reset(s json.RawMessage) error {
	var st initState
	if err := json.Unmarshal(s, &st); err != nil {
		return err
	}
	req := st.Req
	if req == 0 {
		// a request that has to be rounded up to the model's capacity
		switch {
		case st.Cap <= 2:
			req = 1
		default:
			req = st.Cap/2 + 1
		}
	}
	a.r = ringz.NewSync[int](req)
	a.m = st.M
	if a.m == 0 {
		a.m = 1 << 31
	}
	if st.Real != nil {
		a.place(*st.Real)
	} else {
		// model position Head  <->  real position 2^32 - M + Head (M divides 2^32)
		a.place(uint32(0) - a.m + st.Head)
	}
	return nil
}

func (a *ad) Apply(op core.Op) (interface{}, error) {
	switch op.N {
	case "Push":
		return []interface{}{a.r.Push(core.ArgInt(op, 0))}, nil
	case "PushWait0":
		return []interface{}{a.r.PushWait(core.ArgInt(op, 0), 0)}, nil
	case "PushWaitNeg":
		if a.r.IsFull() { // would spin forever from a single goroutine: not a legal call here
			return []interface{}{"blocked"}, nil
		}
		return []interface{}{a.r.PushWait(core.ArgInt(op, 0), -1)}, nil
	case "Pop":
		v, ok := a.r.Pop()
		return []interface{}{v, ok}, nil
	case "PopWait0":
		v, ok := a.r.PopWait(0)
		return []interface{}{v, ok}, nil
	case "PopWaitNeg":
		if a.r.IsEmpty() {
			return []interface{}{"blocked"}, nil
		}
		v, ok := a.r.PopWait(-1)
		return []interface{}{v, ok}, nil
	case "Query":
		return []interface{}{a.r.Len(), a.r.IsEmpty(), a.r.IsFull(), a.r.Cap()}, nil
	}
	panic("unknown op " + op.N)
}

func (a *ad) Obs() interface{} {
	return map[string]interface{}{"len": a.r.Len(), "cap": a.r.Cap(), "empty": a.r.IsEmpty(), "full": a.r.IsFull()}
}

func (a *ad) Drain() interface{} {
	out := []int{}
	for i := 0; i < 2*a.r.Cap()+4; i++ {
		v, ok := a.r.Pop()
		if !ok {
			break
		}
		out = append(out, v)
	}
	return out
}

type gen struct{ full bool }

func (g *gen) Init(rng *rand.Rand) json.RawMessage {
	reqs := []int{1, 2, 3, 4, 5, 7, 8, 9, 15, 16, 17}
	req := reqs[rng.Intn(len(reqs))]
	// start a few positions before the 32-bit wrap (or anywhere, sometimes)
	var real uint32
	switch rng.Intn(4) {
	case 0:
		real = rng.Uint32()
	default:
		real = uint32(0) - uint32(rng.Intn(40))
	}
	b, _ := json.Marshal(map[string]interface{}{"req": req, "real": real})
	return b
}

func (g *gen) Next(rng *rand.Rand, step int) core.Op {
	// phases: mostly push, then mostly pop, so that full and empty are both reached
	pushBias := 11
	if (step/24)%2 == 1 {
		pushBias = 5
	}
	switch x := rng.Intn(20); {
	case x < pushBias:
		switch rng.Intn(6) {
		case 0:
			return core.MkOp("PushWait0", 1+rng.Intn(9))
		case 1:
			return core.MkOp("PushWaitNeg", 1+rng.Intn(9))
		}
		return core.MkOp("Push", 1+rng.Intn(9))
	case x < 17:
		switch rng.Intn(6) {
		case 0:
			return core.MkOp("PopWait0")
		case 1:
			return core.MkOp("PopWaitNeg")
		}
		return core.MkOp("Pop")
	default:
		return core.MkOp("Query")
	}
}

func main() {
	if len(os.Args) > 3 && os.Args[1] == "honest" && os.Args[2] == "-out" {
		os.Exit(honest(os.Args[3]))
	}
	mainSeq()
}

func mainSeq() { core.Main("SyncRingSeq", func() core.Adapter { return &ad{} }, &gen{}) }
