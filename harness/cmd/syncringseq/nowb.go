//go:build nowb

package main

// Black-box fallback: the start position is reached honestly with Push/Pop pairs, which is
// only feasible for small positions; the 2^32 wrap is then left to the thorough tier's honest run.
func (a *ad) place(real uint32) {
	n := real
	if a.m != 0 && a.m <= 1<<16 {
		n = real % a.m
	} else {
		n = real % 64
	}
	for i := uint32(0); i < n; i++ {
		a.r.Push(1)
		a.r.Pop()
	}
}

func (a *ad) Struct() interface{} { return nil }
