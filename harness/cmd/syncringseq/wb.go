//go:build !nowb

package main

import "github.com/welllog/golib/ringz"

func (a *ad) place(real uint32) { ringz.VerifSyncRingSetBase(&a.r, real) }

func (a *ad) Struct() interface{} {
	h, t, seq, vals, c := ringz.VerifSyncRingState(&a.r)
	for i := range seq {
		seq[i] %= a.m
	}
	return map[string]interface{}{"head": h % a.m, "tail": t % a.m, "seq": seq, "val": vals, "cap": c, "m": a.m}
}
