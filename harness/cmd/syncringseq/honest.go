package main

import (
	"encoding/json"
	"fmt"
	"os"
	"time"

	"github.com/welllog/golib/ringz"
)

// honest reaches the 32-bit wrap through the public API only: more than 2^32 Push/Pop pairs on
// a cap-2 and a cap-8 ring kept at fill level cap-1. Inside a window around the wrap every call
// is logged (distinct values, a failing Push on the full ring included) and TLC validates the
// log against Fifo.tla. Outside the window the ring holds only the value 7 and every pair is
// "Push(7) = true, Pop = (7, true)", checked here and summarised as one SkipPairs event, which
// the trace spec accepts only if the abstract queue holds nothing but 7s.
func honest(out string) int {
	t0 := time.Now()
	f, _ := os.Create(out + "/honest_traces.ndjson")
	defer f.Close()
	emit := func(ev map[string]interface{}) {
		b, _ := json.Marshal(ev)
		f.Write(b)
		f.Write([]byte("\n"))
	}
	total := uint64(0)
	traces := 0
	for _, req := range []int{2, 7} {
		r := ringz.NewSync[int](req)
		c := r.Cap()
		traces++
		emit(map[string]interface{}{"ev": "Reset", "s": map[string]int{"req": req}})
		obs := func() map[string]interface{} {
			return map[string]interface{}{"len": r.Len(), "cap": r.Cap(), "empty": r.IsEmpty(), "full": r.IsFull()}
		}
		push := func(v int) bool {
			ok := r.Push(v)
			emit(map[string]interface{}{"ev": "Push", "a": []int{v}, "r": []bool{ok}, "o": obs()})
			return ok
		}
		pop := func() {
			v, ok := r.Pop()
			emit(map[string]interface{}{"ev": "Pop", "a": []int{}, "r": []interface{}{v, ok}, "o": obs()})
		}
		for i := 0; i < c-1; i++ {
			push(7)
		}
		const win = 1 << 9
		limit := uint64(1)<<32 + 1<<12
		skipped := uint64(0)
		flush := func() {
			if skipped > 0 {
				emit(map[string]interface{}{"ev": "SkipPairs", "v": 7, "n": skipped, "o": obs()})
				skipped = 0
			}
		}
		next := 1
		settle := 0 // explicit pairs still to log after the window so that the content is all 7 again
		for n := uint64(0); n < limit; n++ {
			pos := n + uint64(c-1) // pushes so far
			inWin := pos+win >= 1<<32 && pos <= 1<<32+win
			switch {
			case inWin:
				flush()
				push(next)
				push(next + 10) // ring is full: must fail
				pop()
				next = next%9 + 1
				settle = c
			case settle > 0:
				push(7)
				pop()
				settle--
			default:
				ok := r.Push(7)
				v, ok2 := r.Pop()
				if !ok || !ok2 || v != 7 {
					flush()
					// no spec action is called Anomaly: TLC rejects the log at this line
					emit(map[string]interface{}{"ev": "Anomaly", "pair": n, "push_ok": ok, "pop_ok": ok2, "pop_v": v, "o": obs()})
					fmt.Printf("honest: pair %d: Push(7)=%v Pop=(%d,%v)\n", n, ok, v, ok2)
					return 0
				}
				skipped++
				if n&(1<<22-1) == 0 {
					flush()
				}
			}
			total += 2
		}
		flush()
		d := []int{}
		for {
			v, ok := r.Pop()
			if !ok || len(d) > 2*c {
				break
			}
			d = append(d, v)
		}
		emit(map[string]interface{}{"ev": "Drain", "d": d})
	}
	b, _ := json.Marshal(map[string]interface{}{"ops": total, "traces": traces, "wall_s": time.Since(t0).Seconds()})
	os.WriteFile(out+"/honest_stats.json", b, 0o644)
	fmt.Printf("honest: %d operations in %.0fs\n", total, time.Since(t0).Seconds())
	return 0
}
