// Conformance harness for strz.Reader (extra X01, outside the listed properties): Cursor.tla.
package main

import (
	"encoding/json"
	"errors"
	"io"
	"math/rand"
	"os"

	"github.com/welllog/golib/strz"
	"verifharness/core"
)

// the two instantiations of Reader[T] behind one interface
type reader interface {
	Len() int
	Size() int64
	Read(p []byte) (int, error)
	ReadAt(p []byte, off int64) (int, error)
	ReadByte() (byte, error)
	UnreadByte() error
	WriteTo(w io.Writer) (int64, error)
	Seek(off int64, whence int) (int64, error)
	Close() error
	Bytes() []byte
}

type ad struct {
	flavour string
	r       reader
	src     []int
	reset   func(b []byte)
}

func toBytes(x []int) []byte {
	b := make([]byte, len(x))
	for i, v := range x {
		b[i] = byte(v)
	}
	return b
}

func toInts(b []byte) []int {
	out := make([]int, len(b))
	for i, v := range b {
		out[i] = int(v)
	}
	return out
}

func (a *ad) Reset(s json.RawMessage) error {
	var st struct {
		Src []int `json:"src"`
	}
	json.Unmarshal(s, &st)
	a.src = append([]int{}, st.Src...)
	b := toBytes(st.Src)
	if a.flavour == "string" {
		r := strz.NewReader(string(b))
		a.r, a.reset = r, func(nb []byte) { r.Reset(string(nb)) }
	} else {
		r := strz.NewReader(b)
		a.r, a.reset = r, func(nb []byte) { r.Reset(nb) }
	}
	return nil
}

func errName(err error) string {
	switch {
	case err == nil:
		return ""
	case err == io.EOF:
		return "EOF"
	case err == io.ErrShortWrite:
		return "short"
	case err == errWriter:
		return "werr"
	}
	return "err"
}

var errWriter = errors.New("writer failed")

// limWriter takes at most k bytes per Write and, if fail is set, reports an error of its own
type limWriter struct {
	k    int
	fail bool
	got  []byte
}

func (w *limWriter) Write(p []byte) (int, error) {
	m := len(p)
	if m > w.k {
		m = w.k
	}
	w.got = append(w.got, p[:m]...)
	if w.fail {
		return m, errWriter
	}
	return m, nil
}

func (a *ad) Apply(op core.Op) (interface{}, error) {
	switch op.N {
	case "Read":
		buf := make([]byte, core.ArgInt(op, 0))
		n, err := a.r.Read(buf)
		if n < 0 || n > len(buf) {
			return []interface{}{[]int{-1, n}, errName(err)}, nil
		}
		return []interface{}{toInts(buf[:n]), errName(err)}, nil
	case "ReadAt":
		buf := make([]byte, core.ArgInt(op, 0))
		n, err := a.r.ReadAt(buf, int64(core.ArgInt(op, 1)))
		if n < 0 || n > len(buf) {
			return []interface{}{[]int{-1, n}, errName(err)}, nil
		}
		return []interface{}{toInts(buf[:n]), errName(err)}, nil
	case "ReadByte":
		b, err := a.r.ReadByte()
		return []interface{}{int(b), errName(err)}, nil
	case "UnreadByte":
		return []interface{}{errName(a.r.UnreadByte())}, nil
	case "WriteTo":
		var fail bool
		json.Unmarshal(op.A[1], &fail)
		w := &limWriter{k: core.ArgInt(op, 0), fail: fail}
		n, err := a.r.WriteTo(w)
		return []interface{}{toInts(w.got), int(n), errName(err)}, nil
	case "Seek":
		p, err := a.r.Seek(int64(core.ArgInt(op, 0)), core.ArgInt(op, 1))
		return []interface{}{int(p), errName(err)}, nil
	case "ResetTo":
		a.src = core.ArgInts(op, 0)
		a.reset(toBytes(a.src))
		return []int{}, nil
	case "Close":
		return []interface{}{errName(a.r.Close())}, nil
	}
	panic("unknown op " + op.N)
}

func (a *ad) Obs() interface{} {
	return map[string]interface{}{"len": a.r.Len(), "size": int(a.r.Size()), "bytes": toInts(a.r.Bytes())}
}

// the cursor is visible through the public API (Seek(0, current) moves nothing)
func (a *ad) Struct() interface{} {
	p, err := a.r.Seek(0, io.SeekCurrent)
	if err != nil {
		return map[string]interface{}{"i": -1, "src": a.src}
	}
	return map[string]interface{}{"i": int(p), "src": a.src}
}

func (a *ad) Drain() interface{} {
	out := []int{}
	for i := 0; i < 1<<20; i++ {
		b, err := a.r.ReadByte()
		if err != nil {
			break
		}
		out = append(out, int(b))
	}
	return out
}

type gen struct{}

func randSrc(rng *rand.Rand) []int {
	n := []int{0, 1, 2, 3, 5, 9, 17}[rng.Intn(7)]
	out := make([]int, n)
	for i := range out {
		out[i] = rng.Intn(256)
	}
	return out
}

func (gen) Init(rng *rand.Rand) json.RawMessage {
	b, _ := json.Marshal(map[string]interface{}{"src": randSrc(rng)})
	return b
}

func (gen) Next(rng *rand.Rand, step int) core.Op {
	off := func() int { return rng.Intn(24) - 4 }
	switch x := rng.Intn(20); {
	case x < 4:
		return core.MkOp("Read", rng.Intn(6))
	case x < 7:
		return core.MkOp("ReadAt", rng.Intn(6), off())
	case x < 10:
		return core.MkOp("ReadByte")
	case x < 12:
		return core.MkOp("UnreadByte")
	case x < 14:
		return core.MkOp("WriteTo", rng.Intn(8), rng.Intn(3) == 0)
	case x < 18:
		return core.MkOp("Seek", off(), rng.Intn(5)-1)
	case x < 19:
		return core.MkOp("ResetTo", randSrc(rng))
	default:
		return core.MkOp("Close")
	}
}

func main() {
	fl := os.Getenv("VERIF_FLAVOUR")
	if fl == "" {
		fl = "string"
	}
	core.Main("Reader-"+fl, func() core.Adapter { return &ad{flavour: fl} }, gen{})
}
