//go:build go1.23

package main

import "github.com/welllog/golib/setz"

// the iterator value is taken once per bitmap and ranged at every observation (a pass that stops after one value,
// then a full one): an iter.Seq is evaluated when it is ranged, however long it has been held
var held = map[*setz.RoaringBitmap]func(func(uint32) bool){}

func allVals(r *setz.RoaringBitmap) []uint32 {
	seq, ok := held[r]
	if !ok {
		if len(held) > 64 {
			held = map[*setz.RoaringBitmap]func(func(uint32) bool){}
		}
		seq = r.All()
		held[r] = seq
	}
	seq(func(uint32) bool { return false })
	out := []uint32{}
	seq(func(v uint32) bool { out = append(out, v); return len(out) < 1<<20 })
	return out
}
