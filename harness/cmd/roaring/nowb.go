//go:build nowb

package main

func (a *ad) Struct() interface{} { return nil }
