// Conformance harness for setz.RoaringBitmap (property C03).
package main

import (
	"encoding/json"
	"math/rand"
	"sort"

	"github.com/welllog/golib/setz"
	"verifharness/core"
)

const (
	fLo  = 2
	fHi  = 4095
	g2Lo = 4096
	g2Hi = 65534
)

type ad struct {
	r    *setz.RoaringBitmap
	his  []int
	los  []int
	flip int
}

type initS struct {
	Kinds []string `json:"kinds"`
}

func (a *ad) Reset(s json.RawMessage) error {
	var st initS
	json.Unmarshal(s, &st)
	a.flip++
	a.r = new(setz.RoaringBitmap) // usable from its zero value
	switch len(st.Kinds) {
	case 3:
		a.his = []int{0, 1, 65535}
	case 2:
		a.his = []int{0, 65535}
	default: // the random driver: as many bucket keys as the trace specification of this tier has
		a.his = genHis()
	}
	a.los = []int{0, 1, 65535}
	return nil
}

func genHis() []int {
	if core.EnvInt("VERIF_NHI", 2) == 3 {
		return []int{0, 1, 65535}
	}
	return []int{0, 65535}
}

func v32(h, l int) uint32 { return uint32(h)<<16 | uint32(l) }

func (a *ad) Apply(op core.Op) (interface{}, error) {
	h := core.ArgInt(op, 0)
	switch op.N {
	case "Add":
		return []bool{a.r.Add(v32(h, core.ArgInt(op, 1)))}, nil
	case "Remove":
		return []bool{a.r.Remove(v32(h, core.ArgInt(op, 1)))}, nil
	case "Contains":
		return []bool{a.r.Contains(v32(h, core.ArgInt(op, 1)))}, nil
	case "Prefill":
		n := 0
		// alternate ascending / descending / interleaved insertion order of the block
		for i := 0; i <= fHi-fLo; i++ {
			l := fLo + i
			switch a.flip % 3 {
			case 1:
				l = fHi - i
			case 2:
				if i%2 == 1 {
					l = fHi - i/2
				} else {
					l = fLo + i/2
				}
			}
			if a.r.Add(v32(h, l)) {
				n++
			}
		}
		return []int{n}, nil
	case "Unfill":
		n := 0
		for l := fLo; l <= fHi; l++ {
			if a.r.Remove(v32(h, l)) {
				n++
			}
		}
		return []int{n}, nil
	case "Prefill2":
		n := 0
		for l := g2Lo; l <= g2Hi; l++ {
			v := l
			if a.flip%2 == 1 {
				v = g2Hi - (l - g2Lo)
			}
			if a.r.Add(v32(h, v)) {
				n++
			}
		}
		return []int{n}, nil
	case "Unfill2":
		n := 0
		for l := g2Lo; l <= g2Hi; l++ {
			if a.r.Remove(v32(h, l)) {
				n++
			}
		}
		return []int{n}, nil
	}
	panic("unknown op " + op.N)
}

// tokens collapses every complete, in-order filler run of a bucket into the token [hi, -1].
func tokens(vals []uint32) [][]int {
	out := [][]int{}
	for i := 0; i < len(vals); {
		h, l := int(vals[i]>>16), int(vals[i]&0xFFFF)
		if l == fLo {
			j := i
			for j < len(vals) && int(vals[j]>>16) == h && int(vals[j]&0xFFFF) == fLo+(j-i) && fLo+(j-i) <= fHi {
				j++
			}
			if j-i == fHi-fLo+1 {
				out = append(out, []int{h, -1})
				i = j
				continue
			}
		}
		if l == g2Lo {
			j := i
			for j < len(vals) && int(vals[j]>>16) == h && int(vals[j]&0xFFFF) == g2Lo+(j-i) && g2Lo+(j-i) <= g2Hi {
				j++
			}
			if j-i == g2Hi-g2Lo+1 {
				out = append(out, []int{h, -2})
				i = j
				continue
			}
		}
		out = append(out, []int{h, l})
		i++
		if len(out) > 64 {
			out = append(out, []int{-9, len(vals)}) // too long for the model: leave a marker
			break
		}
	}
	return out
}

func raw(vals []uint32) [][]int {
	out := [][]int{}
	for _, v := range vals {
		out = append(out, []int{int(v >> 16), int(v & 0xFFFF)})
	}
	return out
}

func (a *ad) iter() []uint32 {
	out := []uint32{}
	it := a.r.Iter()
	for it.Next() && len(out) < 1<<20 {
		out = append(out, it.Value())
	}
	return out
}

func (a *ad) iterPair() [][][]int {
	p := core.IterPair(func() (func() bool, func() uint32) { it := a.r.Iter(); return it.Next, it.Value })
	return [][][]int{tokens(p[0]), tokens(p[1])}
}

func (a *ad) rangeN(n int) []uint32 {
	out := []uint32{}
	a.r.Range(func(v uint32) bool { out = append(out, v); return len(out) < n })
	return out
}

func (a *ad) Obs() interface{} {
	cont := make([][]bool, len(a.his))
	for i, h := range a.his {
		cont[i] = make([]bool, len(a.los))
		for j, l := range a.los {
			cont[i][j] = a.r.Contains(v32(h, l))
		}
	}
	return map[string]interface{}{"len": a.r.Len(), "iter": tokens(a.iter()), "iterpair": a.iterPair(), "range": tokens(a.rangeN(1 << 30)),
		"all": tokens(allVals(a.r)), "range2": raw(a.rangeN(2)), "contains": cont}
}

func (a *ad) Drain() interface{} {
	// an enumeration independent of Iter/Range/All: Contains over the model values and the filler blocks
	out := [][]int{}
	for _, h := range a.his {
		vals := []uint32{}
		for l := 0; l <= 65535; l++ { // every low value: both filler blocks, the scattered values of the random driver
			if a.r.Contains(v32(h, l)) {
				vals = append(vals, v32(h, l))
			}
		}
		out = append(out, tokens(vals)...)
	}
	return out
}

// random driver: values over 8 buckets with bursts that cross the 4096 threshold in both directions
type gen struct {
	burst, hi, next, dir int
	block2               bool // this trace fills buckets up to 65535 / 65536 values instead of scattering single values
}

func (g *gen) Init(rng *rand.Rand) json.RawMessage {
	*g = gen{block2: rng.Intn(4) == 0}
	return json.RawMessage(`{}`)
}
func (g *gen) Next(rng *rand.Rand, step int) core.Op {
	his := genHis()
	// low values: the three of the model, and values scattered over the range above the filler block, so that a
	// densely stored bucket has runs of empty 64-bit words of every length between its members
	if g.block2 && rng.Intn(12) == 0 {
		if rng.Intn(3) == 0 {
			return core.MkOp("Unfill2", his[rng.Intn(len(his))])
		}
		return core.MkOp("Prefill2", his[rng.Intn(len(his))])
	}
	low := func() int {
		if !g.block2 && rng.Intn(3) == 0 {
			return 4096 + 64*rng.Intn(48) + []int{0, 1, 63}[rng.Intn(3)]
		}
		return []int{0, 1, 65535}[rng.Intn(3)]
	}
	switch x := rng.Intn(20); {
	case x < 2:
		return core.MkOp("Prefill", his[rng.Intn(len(his))])
	case x < 3:
		return core.MkOp("Unfill", his[rng.Intn(len(his))])
	case x < 11:
		return core.MkOp("Add", his[rng.Intn(len(his))], low())
	case x < 17:
		return core.MkOp("Remove", his[rng.Intn(len(his))], low())
	default:
		return core.MkOp("Contains", his[rng.Intn(len(his))], low())
	}
}

var _ = sort.Ints

func main() { core.Main("Roaring", func() core.Adapter { return &ad{} }, &gen{}) }
