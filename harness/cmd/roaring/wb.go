//go:build !nowb

package main

import "github.com/welllog/golib/setz"

func (a *ad) Struct() interface{} {
	ks := make([]string, len(a.his))
	for i, h := range a.his {
		ks[i] = setz.VerifRoaringKind(a.r, uint16(h))
	}
	return map[string]interface{}{"kinds": ks}
}
