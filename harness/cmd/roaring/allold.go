//go:build !go1.23

package main

import "github.com/welllog/golib/setz"

func allVals(r *setz.RoaringBitmap) []uint32 {
	out := []uint32{}
	r.Range(func(v uint32) bool { out = append(out, v); return true })
	return out
}
