package listz

import (
	"math/rand"
	"unsafe"

	"github.com/welllog/golib/typez"
)

// Added to a scratch copy of the package by /verif (never to /repo).

// VerifSyncListShared walks the node chain from the dummy head: the values of all linked nodes
// after it, the position of the tail node in that chain (0 = the head itself, -1 = not on the
// chain) and the element counter.
func VerifSyncListShared[T any](l *SyncList[T]) (chain []T, tailIdx int, length int64) {
	tailIdx = -1
	n := (*syncNode[T])(l.head)
	for i := 0; n != nil && i < 1<<16; i++ {
		if unsafe.Pointer(n) == l.tail {
			tailIdx = i
		}
		if i > 0 {
			chain = append(chain, n.value)
		}
		n = (*syncNode[T])(n.next)
	}
	return chain, tailIdx, l.len
}

// VerifSyncListVar names the shared variable an atomic operation touched.
func VerifSyncListVar[T any](l *SyncList[T], addr unsafe.Pointer) string {
	switch addr {
	case unsafe.Pointer(&l.len):
		return "len"
	case unsafe.Pointer(&l.head):
		return "head"
	case unsafe.Pointer(&l.tail):
		return "tail"
	}
	return "next"
}

// VerifSkipSetRand installs the random source of a skip list (heights become a scripted choice).
func VerifSkipSetRand[K typez.Ordered, V any](s *SkipList[K, V], r *rand.Rand) {
	s.rand = r
}

// VerifSkipHasRand reports whether the list has a random source (a zero value has none).
func VerifSkipHasRand[K typez.Ordered, V any](s *SkipList[K, V]) bool {
	return s.rand != nil
}

// VerifSkipLevels returns the top level and, per level, the keys linked on that level in order.
func VerifSkipLevels[K typez.Ordered, V any](s *SkipList[K, V]) (int, [][]K) {
	lists := make([][]K, 0, s.level)
	for i := 0; i < s.level && i < len(s.head.next); i++ {
		l := []K{}
		for n, c := s.head.next[i], 0; n != nil && c < 1<<16; n, c = n.next[i], c+1 {
			l = append(l, n.key)
		}
		lists = append(lists, l)
	}
	return s.level, lists
}

func VerifSkipCmpSetRand[K any, V any](s *SkipListWithCmp[K, V], r *rand.Rand) { s.rand = r }

func VerifSkipCmpLevels[K any, V any](s *SkipListWithCmp[K, V]) (int, [][]K) {
	lists := make([][]K, 0, s.level)
	for i := 0; i < s.level && i < len(s.head.next); i++ {
		l := []K{}
		for n, c := s.head.next[i], 0; n != nil && c < 1<<16; n, c = n.next[i], c+1 {
			l = append(l, n.key)
		}
		lists = append(lists, l)
	}
	return s.level, lists
}
