package listz

import "unsafe"

// Added to a scratch copy of the package by /verif (never to /repo).

// VerifSyncListShared walks the node chain from the dummy head: the values of all linked nodes
// after it, the position of the tail node in that chain (0 = the head itself, -1 = not on the
// chain) and the element counter.
func VerifSyncListShared[T any](l *SyncList[T]) (chain []T, tailIdx int, length int64) {
	tailIdx = -1
	n := (*syncNode[T])(l.head)
	for i := 0; n != nil && i < 1<<16; i++ {
		if unsafe.Pointer(n) == l.tail {
			tailIdx = i
		}
		if i > 0 {
			chain = append(chain, n.value)
		}
		n = (*syncNode[T])(n.next)
	}
	return chain, tailIdx, l.len
}

// VerifSyncListVar names the shared variable an atomic operation touched.
func VerifSyncListVar[T any](l *SyncList[T], addr unsafe.Pointer) string {
	switch addr {
	case unsafe.Pointer(&l.len):
		return "len"
	case unsafe.Pointer(&l.head):
		return "head"
	case unsafe.Pointer(&l.tail):
		return "tail"
	}
	return "next"
}
