package mapz

// Added to a scratch copy of the package by /verif (never to /repo); used only together with the
// scheduler shim, where s.mu is the shim's RWMutex.

// VerifSafeKVLock reports whether a managed goroutine holds the write lock and how many hold read locks.
func VerifSafeKVLock[K comparable, V any](s *SafeKV[K, V]) (bool, int) { return s.mu.VerifState() }

// VerifSafeKVEntries reads the map without locking (only while every goroutine is parked).
func VerifSafeKVEntries[K comparable, V any](s *SafeKV[K, V]) map[K]V {
	out := make(map[K]V, len(s.entries))
	for k, v := range s.entries {
		out[k] = v
	}
	return out
}
