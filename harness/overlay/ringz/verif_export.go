package ringz

import "unsafe"

// Added to a scratch copy of the package by /verif (never to /repo): read-only
// access to the representation for the structural projection.

func VerifRingState[T any](r *Ring[T]) (values []T, head, tail, cap int) {
	return r.values, r.head, r.tail, r.cap
}

func VerifSyncRingState[T any](r *SyncRing[T]) (head, tail uint32, seq []uint32, vals []T, cap uint32) {
	seq = make([]uint32, len(r.values))
	vals = make([]T, len(r.values))
	for i := range r.values {
		seq[i] = r.values[i].pos
		vals[i] = r.values[i].value
	}
	return r.head, r.tail, seq, vals, r.cap
}

// VerifSyncRingSetBase puts a fresh (empty) ring into exactly the state that `base`
// Push/Pop pairs produce: both counters at base, every slot carrying the position at
// which it will next be written.
func VerifSyncRingSetBase[T any](r *SyncRing[T], base uint32) {
	r.head, r.tail = base, base
	for i := range r.values {
		r.values[i].pos = base + ((uint32(i) - base) & r.mask)
	}
}

// VerifSyncRingVar names the shared variable an atomic operation touched: "head", "tail" or
// "seq" with the slot index.
func VerifSyncRingVar[T any](r *SyncRing[T], addr unsafe.Pointer) (string, int) {
	switch addr {
	case unsafe.Pointer(&r.head):
		return "head", -1
	case unsafe.Pointer(&r.tail):
		return "tail", -1
	}
	for i := range r.values {
		if addr == unsafe.Pointer(&r.values[i].pos) {
			return "seq", i
		}
	}
	return "?", -1
}
