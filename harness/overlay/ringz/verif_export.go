package ringz

import (
	"reflect"
	"unsafe"
)

// Added to a scratch copy of the package by /verif (never to /repo): read-only
// access to the representation for the structural projection.

func VerifRingState[T any](r *Ring[T]) (values []T, head, tail, cap int) {
	return r.values, r.head, r.tail, r.cap
}

// The SyncRing accessors go through reflection so that they keep working when the width of the
// counters changes (a refactor to uint64 counters must not blind the checks).

func fieldUint(v reflect.Value) uint64 {
	switch v.Kind() {
	case reflect.Uint, reflect.Uint8, reflect.Uint16, reflect.Uint32, reflect.Uint64, reflect.Uintptr:
		return v.Uint()
	case reflect.Int, reflect.Int8, reflect.Int16, reflect.Int32, reflect.Int64:
		return uint64(v.Int())
	case reflect.Struct: // typed atomics: a struct with one integer field (after noCopy / align markers)
		for i := v.NumField() - 1; i >= 0; i-- {
			switch v.Field(i).Kind() {
			case reflect.Uint32, reflect.Uint64, reflect.Int32, reflect.Int64:
				return fieldUint(v.Field(i))
			}
		}
	}
	panic("verif: counter field of unexpected kind " + v.Kind().String())
}

func setFieldUint(v reflect.Value, x uint64) {
	w := reflect.NewAt(v.Type(), unsafe.Pointer(v.UnsafeAddr())).Elem()
	switch w.Kind() {
	case reflect.Uint, reflect.Uint8, reflect.Uint16, reflect.Uint32, reflect.Uint64, reflect.Uintptr:
		if sz := uint(w.Type().Size()); sz < 8 {
			x &= 1<<(8*sz) - 1
		}
		w.SetUint(x)
	case reflect.Int, reflect.Int8, reflect.Int16, reflect.Int32, reflect.Int64:
		w.SetInt(int64(x))
	case reflect.Struct:
		for i := w.NumField() - 1; i >= 0; i-- {
			switch w.Field(i).Kind() {
			case reflect.Uint32, reflect.Uint64, reflect.Int32, reflect.Int64:
				setFieldUint(w.Field(i), x)
				return
			}
		}
		panic("verif: no integer inside counter struct")
	default:
		panic("verif: counter field of unexpected kind " + w.Kind().String())
	}
}

func VerifSyncRingState[T any](r *SyncRing[T]) (head, tail uint32, seq []uint32, vals []T, cap uint32) {
	rv := reflect.ValueOf(r).Elem()
	head = uint32(fieldUint(rv.FieldByName("head")))
	tail = uint32(fieldUint(rv.FieldByName("tail")))
	seq = make([]uint32, len(r.values))
	vals = make([]T, len(r.values))
	vs := rv.FieldByName("values")
	for i := range r.values {
		seq[i] = uint32(fieldUint(vs.Index(i).FieldByName("pos")))
		vals[i] = r.values[i].value
	}
	return head, tail, seq, vals, uint32(fieldUint(rv.FieldByName("cap")))
}

// VerifSyncRingSetBase puts a fresh (empty) ring into exactly the state that `base`
// Push/Pop pairs produce: both counters at base (not wrapped, if they are wider than 32 bits),
// every slot carrying the position at which it will next be written (in the slot's own width).
func VerifSyncRingSetBase[T any](r *SyncRing[T], base uint32) {
	rv := reflect.ValueOf(r).Elem()
	setFieldUint(rv.FieldByName("head"), uint64(base))
	setFieldUint(rv.FieldByName("tail"), uint64(base))
	mask := uint64(len(r.values) - 1)
	vs := rv.FieldByName("values")
	for i := range r.values {
		pos := uint64(base) + ((uint64(i) - uint64(base)) & mask)
		setFieldUint(vs.Index(i).FieldByName("pos"), pos)
	}
}

// VerifSyncRingVar names the shared variable an atomic operation touched: "head", "tail" or
// "seq" with the slot index.
func VerifSyncRingVar[T any](r *SyncRing[T], addr unsafe.Pointer) (string, int) {
	switch addr {
	case unsafe.Pointer(&r.head):
		return "head", -1
	case unsafe.Pointer(&r.tail):
		return "tail", -1
	}
	for i := range r.values {
		if addr == unsafe.Pointer(&r.values[i].pos) {
			return "seq", i
		}
	}
	return "?", -1
}
