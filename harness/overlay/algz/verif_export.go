package algz

// Added to a scratch copy of the package by /verif (never to /repo): drives the unexported
// ring queue of BuildFailureLinks directly, with integers standing for nodes.

type VerifQueue struct {
	q   trieNodeQueue
	ids map[*trieNode]int
}

func VerifNewQueue(cap int) *VerifQueue {
	v := &VerifQueue{ids: map[*trieNode]int{}}
	v.q.Init(cap)
	return v
}

func (v *VerifQueue) Push(id int) {
	n := &trieNode{size: id}
	v.ids[n] = id
	v.q.Push(n)
}

func (v *VerifQueue) Pop() int {
	n := v.q.Pop()
	if n == nil {
		return 0
	}
	return v.ids[n]
}

func (v *VerifQueue) Len() int      { return v.q.Len() }
func (v *VerifQueue) IsEmpty() bool { return v.q.IsEmpty() }
func (v *VerifQueue) Cap() int      { return int(v.q.cap) }
