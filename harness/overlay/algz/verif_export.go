package algz

// Added to a scratch copy of the package by /verif (never to /repo): drives the unexported
// ring queue of BuildFailureLinks directly, with integers standing for nodes.

type VerifQueue struct {
	q   trieNodeQueue
	ids map[*trieNode]int
}

func VerifNewQueue(cap int) *VerifQueue {
	v := &VerifQueue{ids: map[*trieNode]int{}}
	v.q.Init(cap)
	return v
}

func (v *VerifQueue) Push(id int) {
	n := &trieNode{size: id}
	v.ids[n] = id
	v.q.Push(n)
}

func (v *VerifQueue) Pop() int {
	n := v.q.Pop()
	if n == nil {
		return 0
	}
	return v.ids[n]
}

func (v *VerifQueue) Len() int      { return v.q.Len() }
func (v *VerifQueue) IsEmpty() bool { return v.q.IsEmpty() }
func (v *VerifQueue) Cap() int      { return int(v.q.cap) }

// VerifLinks lists, for every node of the trie but the root, its path and the path of the node its failure link
// points to ("?" if the link is nil or leads outside the trie), plus whether the node ends a pattern and its size.
func (t *Trie) VerifLinks() map[string][]interface{} {
	path := map[*trieNode]string{&t.root: ""}
	var order []*trieNode
	var walk func(n *trieNode, p string)
	walk = func(n *trieNode, p string) {
		for _, ch := range n.children {
			var b []byte
			if ch.val < 0 {
				b = []byte{byte(-1 - ch.val)}
			} else {
				b = []byte(string(ch.val))
			}
			cp := p + string(b)
			path[ch.node] = cp
			order = append(order, ch.node)
			walk(ch.node, cp)
		}
	}
	walk(&t.root, "")
	out := map[string][]interface{}{}
	for _, n := range order {
		f := "?"
		if n.fail != nil {
			if p, ok := path[n.fail]; ok {
				f = p
			}
		}
		out[path[n]] = []interface{}{f, n.isEnd, n.size}
	}
	return out
}
