package setz

// Added to a scratch copy of the package by /verif (never to /repo).

// VerifRoaringKind reports how the bucket with the given high key is stored:
// "none", "array" or "bitmap".
func VerifRoaringKind(r *RoaringBitmap, high uint16) string {
	c, ok := r.containers.Get(high)
	if !ok {
		return "none"
	}
	if c.Type() == 1 {
		return "array"
	}
	return "bitmap"
}
