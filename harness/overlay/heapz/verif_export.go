package heapz

// Added to a scratch copy of the package by /verif (never to /repo).

// VerifHeapElements returns the element handles of h in array order (needed after Heap.Init,
// which creates the handles internally).
func VerifHeapElements[T any](h *Heap[T]) []*Element[T] {
	return append([]*Element[T](nil), h.values...)
}
