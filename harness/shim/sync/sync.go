// Package sync shadows sync.RWMutex / sync.Mutex for code under the deterministic scheduler:
// every lock operation of a managed goroutine is a pair of park points, and a goroutine that
// wants a lock it cannot get is parked as "blocked" (the scheduler does not grant it) instead of
// blocking an OS thread. Unmanaged callers (the harness, real-goroutine runs) get the real lock.
// Everything else of package sync passes through.
package sync

import (
	gosync "sync"

	"github.com/welllog/golib/verifshim/sched"
)

type (
	WaitGroup = gosync.WaitGroup
	Once      = gosync.Once
	Pool      = gosync.Pool
	Map       = gosync.Map
	Cond      = gosync.Cond
	Locker    = gosync.Locker
)

type RWMutex struct {
	real gosync.RWMutex
	// tracked state of managed holders (read while everybody is parked)
	w bool
	r int
}

// VerifState reports whether a managed goroutine holds the write lock and how many hold read locks.
func (m *RWMutex) VerifState() (bool, int) { return m.w, m.r }

func (m *RWMutex) Lock() {
	if sched.PreBlocked(func() bool { return !m.w && m.r == 0 }) {
		m.real.Lock()
		m.w = true
		sched.Post(sched.OpRec{Kind: "Lock"})
		return
	}
	m.real.Lock()
}

func (m *RWMutex) Unlock() {
	if sched.Pre() {
		m.w = false
		m.real.Unlock()
		sched.Post(sched.OpRec{Kind: "Unlock"})
		return
	}
	m.real.Unlock()
}

func (m *RWMutex) RLock() {
	if sched.PreBlocked(func() bool { return !m.w }) {
		m.real.RLock()
		m.r++
		sched.Post(sched.OpRec{Kind: "RLock"})
		return
	}
	m.real.RLock()
}

func (m *RWMutex) RUnlock() {
	if sched.Pre() {
		m.r--
		m.real.RUnlock()
		sched.Post(sched.OpRec{Kind: "RUnlock"})
		return
	}
	m.real.RUnlock()
}

// TryLock / TryRLock of a managed goroutine are one park-point pair each, decided on the tracked state (so the
// scheduler's picture of who holds the lock stays right and nobody is granted into a lock it cannot get)
func (m *RWMutex) TryLock() bool {
	if sched.Pre() {
		ok := !m.w && m.r == 0 && m.real.TryLock()
		if ok {
			m.w = true
		}
		sched.Post(sched.OpRec{Kind: "TryLock", Ok: ok})
		return ok
	}
	return m.real.TryLock()
}

func (m *RWMutex) TryRLock() bool {
	if sched.Pre() {
		ok := !m.w && m.real.TryRLock()
		if ok {
			m.r++
		}
		sched.Post(sched.OpRec{Kind: "TryRLock", Ok: ok})
		return ok
	}
	return m.real.TryRLock()
}

func (m *RWMutex) RLocker() gosync.Locker { return (*rlocker)(m) }

type rlocker RWMutex

func (r *rlocker) Lock()   { (*RWMutex)(r).RLock() }
func (r *rlocker) Unlock() { (*RWMutex)(r).RUnlock() }

type Mutex struct {
	real gosync.Mutex
	held bool
}

func (m *Mutex) Lock() {
	if sched.PreBlocked(func() bool { return !m.held }) {
		m.real.Lock()
		m.held = true
		sched.Post(sched.OpRec{Kind: "Lock"})
		return
	}
	m.real.Lock()
}

func (m *Mutex) Unlock() {
	if sched.Pre() {
		m.held = false
		m.real.Unlock()
		sched.Post(sched.OpRec{Kind: "Unlock"})
		return
	}
	m.real.Unlock()
}

func (m *Mutex) TryLock() bool {
	if sched.Pre() {
		ok := !m.held && m.real.TryLock()
		if ok {
			m.held = true
		}
		sched.Post(sched.OpRec{Kind: "TryLock", Ok: ok})
		return ok
	}
	return m.real.TryLock()
}
