// Package sched is a deterministic scheduler for code whose atomic operations (and
// runtime.Gosched calls) have been redirected to the sibling shim packages. It lives in
// /verif and is copied into a scratch copy of the library, never into /repo.
//
// Exactly one managed goroutine runs at a time. A managed goroutine parks
//   - before every atomic operation          ("pre"),
//   - after every atomic operation           ("post"),
//   - at runtime.Gosched                     ("yield"),
//   - before each call of its program        ("invoke"),
//
// so one grant executes either exactly one atomic operation or exactly one segment of
// plain code. While everything is parked the harness may inspect shared memory and may
// itself call the library (calls from unmanaged goroutines pass straight through).
package sched

import (
	"fmt"
	"time"
	"unsafe"
)

// OpRec describes one executed atomic operation.
type OpRec struct {
	Kind string // Load, Store, CAS, Add, Swap, Gosched
	Addr unsafe.Pointer
	Var  string      // resolved by the harness
	Val  interface{} // loaded / stored / added value (numbers) or nil for pointers
	Ok   bool        // CAS result
}

// HistEv is an invocation or response of a library call.
type HistEv struct {
	Ev  string        `json:"ev"` // inv | ret
	T   int           `json:"t"`
	Op  string        `json:"op"`
	Arg []interface{} `json:"arg"`
	Ret []interface{} `json:"ret,omitempty"`
}

type Call struct {
	Op  string
	Arg []interface{}
}

type parkMsg struct {
	t    int
	kind string // pre, post, yield, invoke, done, panic
	pan  interface{}
}

type thread struct {
	id     int
	grant  chan bool // true: go on, false: abort
	kind   string    // where it is parked
	done   bool
	idx    int         // index of the next call to invoke
	yields int         // consecutive yields (for fairness heuristics)
	ready  func() bool // non-nil while parked before a lock operation: can it be acquired now?
}

// Run is one controlled execution of a multi-goroutine program.
type Run struct {
	threads []*thread
	parked  chan parkMsg
	ops     []OpRec  // ops executed during the current step
	hist    []HistEv // invocation / response events of the whole run
	stepEv  []HistEv // events of the current step
	Timeout time.Duration
	Hung    bool
	Panic   interface{}
	Steps   int
}

var cur *Run      // the run whose goroutine is executing (nil: pass through)
var curT int = -1 // the managed thread that is executing

type abortSentinel struct{}

// NewRun starts one goroutine per program; all are parked at their first invoke.
func NewRun(progs [][]Call, exec func(tid int, c Call) []interface{}) *Run {
	r := &Run{parked: make(chan parkMsg, len(progs)+1), Timeout: 20 * time.Second}
	for i := range progs {
		th := &thread{id: i, grant: make(chan bool), kind: "invoke"}
		if len(progs[i]) == 0 {
			th.done = true
			th.kind = "done"
		}
		r.threads = append(r.threads, th)
	}
	for i := range progs {
		if len(progs[i]) == 0 {
			continue
		}
		go func(t int, prog []Call) {
			th := r.threads[t]
			defer func() {
				if x := recover(); x != nil {
					if _, ok := x.(abortSentinel); ok {
						return
					}
					r.parked <- parkMsg{t: t, kind: "panic", pan: x}
				}
			}()
			// initial park (no message: NewRun's caller knows everybody starts parked)
			if !<-th.grant {
				panic(abortSentinel{})
			}
			for k, c := range prog {
				if k > 0 {
					r.park(t, "invoke")
				}
				th.idx = k + 1
				ev := HistEv{Ev: "inv", T: t, Op: c.Op, Arg: c.Arg}
				r.hist = append(r.hist, ev)
				r.stepEv = append(r.stepEv, ev)
				ret := exec(t, c)
				ev = HistEv{Ev: "ret", T: t, Op: c.Op, Arg: c.Arg, Ret: ret}
				r.hist = append(r.hist, ev)
				r.stepEv = append(r.stepEv, ev)
			}
			r.parked <- parkMsg{t: t, kind: "done"}
		}(i, progs[i])
	}
	return r
}

func (r *Run) park(t int, kind string) {
	r.parked <- parkMsg{t: t, kind: kind}
	if !<-r.threads[t].grant {
		panic(abortSentinel{})
	}
}

// StepInfo is what one grant did.
type StepInfo struct {
	T      int
	From   string // park kind the thread was at
	To     string // park kind it reached (done when the program ended)
	Ops    []OpRec
	Events []HistEv
}

// Enabled lists the threads that can be granted.
func (r *Run) Enabled() []int {
	var out []int
	for _, th := range r.threads {
		if !th.done && (th.ready == nil || th.ready()) {
			out = append(out, th.id)
		}
	}
	return out
}

// Deadlocked: somebody is not done but nobody can be granted.
func (r *Run) Deadlocked() bool {
	if len(r.Enabled()) > 0 {
		return false
	}
	for _, th := range r.threads {
		if !th.done {
			return true
		}
	}
	return false
}

func (r *Run) Kind(t int) string { return r.threads[t].kind }
func (r *Run) Done(t int) bool   { return r.threads[t].done }
func (r *Run) CallIdx(t int) int { return r.threads[t].idx }
func (r *Run) History() []HistEv { return r.hist }
func (r *Run) NThreads() int     { return len(r.threads) }
func (r *Run) Yields(t int) int  { return r.threads[t].yields }
func (r *Run) AllDone() bool     { return len(r.Enabled()) == 0 }

// Step grants thread t one step and waits until it parks again.
func (r *Run) Step(t int) (StepInfo, error) {
	th := r.threads[t]
	if th.done {
		return StepInfo{}, fmt.Errorf("thread %d is done", t)
	}
	if th.ready != nil && !th.ready() {
		return StepInfo{}, fmt.Errorf("thread %d is blocked on a lock", t)
	}
	th.ready = nil
	if r.Hung {
		return StepInfo{}, fmt.Errorf("run is hung")
	}
	r.ops = r.ops[:0]
	r.stepEv = nil
	from := th.kind
	cur, curT = r, t
	th.grant <- true
	var m parkMsg
	select {
	case m = <-r.parked:
	case <-time.After(r.Timeout):
		cur, curT = nil, -1
		r.Hung = true
		return StepInfo{T: t, From: from, To: "hung"}, fmt.Errorf("thread %d did not reach a park point within %v", t, r.Timeout)
	}
	cur, curT = nil, -1
	r.Steps++
	th.kind = m.kind
	if m.kind == "yield" {
		th.yields++
	} else if m.kind == "invoke" || m.kind == "done" {
		th.yields = 0
	}
	switch m.kind {
	case "done":
		th.done = true
	case "panic":
		th.done = true
		r.Panic = m.pan
	}
	info := StepInfo{T: t, From: from, To: m.kind, Ops: append([]OpRec(nil), r.ops...), Events: r.stepEv}
	if m.kind == "panic" {
		return info, fmt.Errorf("thread %d panicked: %v", t, m.pan)
	}
	return info, nil
}

// Abort releases all parked goroutines (they unwind through a sentinel panic).
func (r *Run) Abort() {
	for _, th := range r.threads {
		if !th.done && !r.Hung {
			select {
			case th.grant <- false:
			case <-time.After(time.Second):
			}
			th.done = true
		}
	}
}

// ---- called by the shim packages ---------------------------------------------------

// Pre is called before an atomic operation. It returns true when the caller is managed.
func Pre() bool {
	if cur == nil {
		return false
	}
	cur.park(curT, "pre")
	return true
}

// PreBlocked is Pre for an operation that may have to wait (a lock): the goroutine parks with a
// readiness predicate and is granted only when the predicate holds.
func PreBlocked(ready func() bool) bool {
	r := cur
	if r == nil {
		return false
	}
	r.threads[curT].ready = ready
	r.park(curT, "pre")
	return true
}

// Post is called after an atomic operation of a managed caller.
func Post(rec OpRec) {
	r := cur
	if r == nil {
		return
	}
	r.ops = append(r.ops, rec)
	r.park(curT, "post")
}

// Yield is runtime.Gosched of a managed caller; unmanaged callers get the real thing.
func Yield() bool {
	r := cur
	if r == nil {
		return false
	}
	r.ops = append(r.ops, OpRec{Kind: "Gosched"})
	r.park(curT, "yield")
	return true
}
