// Package runtime shadows the few functions of package runtime that the concurrent
// containers call, so that Gosched becomes a scheduling point of the deterministic scheduler.
package runtime

import (
	goruntime "runtime"

	"github.com/welllog/golib/verifshim/sched"
)

func Gosched() {
	if !sched.Yield() {
		goruntime.Gosched()
	}
}

func NumCPU() int          { return goruntime.NumCPU() }
func GOMAXPROCS(n int) int { return goruntime.GOMAXPROCS(n) }
func NumGoroutine() int    { return goruntime.NumGoroutine() }
func KeepAlive(x any)      { goruntime.KeepAlive(x) }
