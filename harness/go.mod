module verifharness

go 1.18

require github.com/welllog/golib v0.0.0

replace github.com/welllog/golib => ../golib
