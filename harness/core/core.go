// Package core is the component-independent part of the conformance harness:
// it loads the transition graph printed by TLC (one JSON edge per line), walks it
// on a real object through an Adapter, compares every step with what the
// specification predicted, and writes ndjson traces of what the real code did so
// that TLC can validate them against the abstract specification.
package core

import (
	"bufio"
	"bytes"
	"encoding/json"
	"fmt"
	"math/rand"
	"os"
	"reflect"
	"runtime/debug"
	"sort"
	"strings"
	"time"
)

// Op is one API call as the specification names it.
type Op struct {
	N string            `json:"n"`
	A []json.RawMessage `json:"a"`
	R json.RawMessage   `json:"r"`
}

// State is a projected specification state: S structural (white box), O observable
// through non-destructive public calls, D full (possibly destructive) observation.
type State struct {
	K json.RawMessage `json:"k,omitempty"` // complete model state (node identity) when S is only the comparable part
	S json.RawMessage `json:"s"`
	O json.RawMessage `json:"o"`
	D json.RawMessage `json:"d"`
}

type Edge struct {
	I  bool  `json:"i"`
	F  State `json:"f"`
	Op Op    `json:"op"`
	T  State `json:"t"`
	// filled by the loader
	from, to int
	covered  bool
}

// Adapter binds one component of the real library to the walker.
type Adapter interface {
	// Reset builds a fresh real object for the initial specification state s (structural projection).
	Reset(s json.RawMessage) error
	// Apply performs the call on the real object and returns its results in the
	// specification's encoding (anything json.Marshal accepts).
	Apply(op Op) (interface{}, error)
	// Obs is the non-destructive observation through the public API.
	Obs() interface{}
	// Struct is the white-box projection, or nil when unavailable.
	Struct() interface{}
	// Drain is the full observation; it may destroy the object (the path ends).
	Drain() interface{}
}

// Canon returns a canonical form for comparison (numbers as float64, maps sorted by encoding/json).
func Canon(v interface{}) interface{} {
	var b []byte
	switch x := v.(type) {
	case json.RawMessage:
		b = x
	case []byte:
		b = x
	default:
		var err error
		b, err = json.Marshal(v)
		if err != nil {
			panic(err)
		}
	}
	if len(b) == 0 {
		return nil
	}
	var out interface{}
	if err := json.Unmarshal(b, &out); err != nil {
		panic(fmt.Sprintf("canon: %v: %s", err, b))
	}
	return norm(out)
}

// norm maps empty arrays and nil to the same thing so that [] == null == nil slice.
func norm(v interface{}) interface{} {
	switch x := v.(type) {
	case []interface{}:
		if len(x) == 0 {
			return []interface{}{}
		}
		for i := range x {
			x[i] = norm(x[i])
		}
		return x
	case map[string]interface{}:
		for k := range x {
			x[k] = norm(x[k])
		}
		return x
	case nil:
		return []interface{}{}
	}
	return v
}

func Equal(a, b interface{}) bool { return reflect.DeepEqual(Canon(a), Canon(b)) }

func JS(v interface{}) string {
	b, err := json.Marshal(v)
	if err != nil {
		return fmt.Sprintf("<%v>", err)
	}
	return string(b)
}

// LoadEdges reads TLC's stdout: every line that starts with "{ (a TLA+ string holding JSON).
func LoadEdges(path string) ([]*Edge, error) {
	f, err := os.Open(path)
	if err != nil {
		return nil, err
	}
	defer f.Close()
	sc := bufio.NewScanner(f)
	sc.Buffer(make([]byte, 1<<20), 1<<26)
	var edges []*Edge
	for sc.Scan() {
		line := sc.Bytes()
		if !bytes.HasPrefix(line, []byte(`"{`)) {
			continue
		}
		var inner string
		if err := json.Unmarshal(line, &inner); err != nil {
			return nil, fmt.Errorf("edge line: %v", err)
		}
		e := new(Edge)
		if err := json.Unmarshal([]byte(inner), e); err != nil {
			return nil, fmt.Errorf("edge json: %v: %s", err, inner)
		}
		edges = append(edges, e)
	}
	return edges, sc.Err()
}

// Graph is the transition graph keyed by the structural projection.
type Graph struct {
	Edges  []*Edge
	Nodes  []State
	Out    [][]int // node -> edge indices
	Inits  []int
	parent []int // BFS tree: edge index leading to node, -1 for init/unreached
	depth  []int
}

func BuildGraph(edges []*Edge) *Graph {
	g := &Graph{Edges: edges}
	idx := map[string]int{}
	id := func(s State) int {
		k := JS(Canon(s.S))
		if len(s.K) > 0 {
			k = string(s.K)
		}
		if i, ok := idx[k]; ok {
			return i
		}
		idx[k] = len(g.Nodes)
		g.Nodes = append(g.Nodes, s)
		g.Out = append(g.Out, nil)
		return len(g.Nodes) - 1
	}
	isInit := map[int]bool{}
	for i, e := range edges {
		e.from = id(e.F)
		e.to = id(e.T)
		g.Out[e.from] = append(g.Out[e.from], i)
		if e.I {
			isInit[e.from] = true
		}
	}
	for n := range isInit {
		g.Inits = append(g.Inits, n)
	}
	sort.Ints(g.Inits)
	g.parent = make([]int, len(g.Nodes))
	g.depth = make([]int, len(g.Nodes))
	for i := range g.parent {
		g.parent[i] = -1
		g.depth[i] = -1
	}
	queue := append([]int{}, g.Inits...)
	for _, n := range queue {
		g.depth[n] = 0
	}
	for len(queue) > 0 {
		n := queue[0]
		queue = queue[1:]
		for _, ei := range g.Out[n] {
			t := edges[ei].to
			if g.depth[t] < 0 {
				g.depth[t] = g.depth[n] + 1
				g.parent[t] = ei
				queue = append(queue, t)
			}
		}
	}
	return g
}

// PathTo returns the BFS-tree path (edge indices) from an initial node to n.
func (g *Graph) PathTo(n int) []int {
	var rev []int
	for g.parent[n] >= 0 {
		rev = append(rev, g.parent[n])
		n = g.Edges[g.parent[n]].from
	}
	for i, j := 0, len(rev)-1; i < j; i, j = i+1, j-1 {
		rev[i], rev[j] = rev[j], rev[i]
	}
	return rev
}

// Event is one line of an ndjson trace.
type Event map[string]interface{}

// Result of a walk.
type WalkStats struct {
	Paths, Steps, EdgesTotal, EdgesCovered, Nodes int
	Drift                                         int      // structural mismatches (observables fine)
	Suspects                                      []string // files with traces whose observables differ from the prediction
	DriftSamples                                  []string
	Samples                                       []interface{}
	OpCount                                       map[string]int
}

type Walker struct {
	G        *Graph
	Ad       Adapter
	OutDir   string
	Trace    *bufio.Writer // all traces, concatenated with Reset events
	Rng      *rand.Rand
	Stats    WalkStats
	MaxSusp  int
	traceBuf []Event
	NTraces  int
	// TraceEvery: write every k-th path into the trace file (1 = all)
	TraceEvery int
}

type mismatch struct {
	Kind     string      `json:"kind"`
	Step     int         `json:"step"`
	Expected interface{} `json:"expected"`
	Actual   interface{} `json:"actual"`
}

// Replay is the self-contained record of a run of real code that disagreed with the model.
type Replay struct {
	Component string            `json:"component"`
	Init      json.RawMessage   `json:"init"`
	Ops       []Op              `json:"ops"`
	Mismatch  *mismatch         `json:"mismatch,omitempty"`
	Trace     []Event           `json:"trace"`
	Note      string            `json:"note,omitempty"`
	Extra     map[string]string `json:"extra,omitempty"`
}

// shortStack keeps the frames of the library under test and of the adapter.
// InLib: does a frame of the library appear on the stack?  By symbol (github.com/welllog/golib/...) or by source
// file: a closure of a generic library function is instantiated in the calling package and carries the caller's
// package name (main.(*ad).Obs.(*DList[...]).All.func1), but its file is the library's.  The shim packages and the
// add-only export files of the harness that live inside the scratch copy do not count.
func InLib(stack string) bool {
	for _, l := range strings.FieldsFunc(stack, func(r rune) bool { return r == '\n' || r == '|' || r == '@' }) {
		if strings.Contains(l, "verifshim") || strings.Contains(l, "verif_export") {
			continue
		}
		if strings.Contains(l, "welllog/golib") || (strings.Contains(l, "/golib/") && strings.Contains(l, ".go:")) {
			return true
		}
	}
	return false
}

func shortStack() string {
	lines := strings.Split(string(debug.Stack()), "\n")
	var keep []string
	for i := 0; i+1 < len(lines); i++ {
		if strings.Contains(lines[i], "golib") || strings.Contains(lines[i], "main.") || strings.Contains(lines[i+1], "golib") {
			keep = append(keep, strings.TrimSpace(lines[i])+" @ "+strings.TrimSpace(lines[i+1]))
		}
		if len(keep) >= 8 {
			break
		}
	}
	return strings.Join(keep, " | ")
}

func rawArgs(a []json.RawMessage) []interface{} {
	out := make([]interface{}, len(a))
	for i, x := range a {
		out[i] = Canon(x)
	}
	return out
}

// RunPath executes the path on a fresh real object. It returns the trace of what the real
// code did, the first observable mismatch (nil if none) and whether a structural drift was seen.
func RunPath(ad Adapter, init State, ops []Op, expect []State, drain bool) (trace []Event, mm *mismatch, drift string) {
	trace = append(trace, Event{"ev": "Reset", "s": Canon(init.S)})
	defer func() {
		if r := recover(); r != nil {
			st := lastStack + " || " + shortStack()
			inlib := InLib(st)
			trace = append(trace, Event{"ev": "Panic", "msg": fmt.Sprint(r), "stack": st, "inlib": inlib})
			kind := "panic"
			if !inlib {
				kind = "harness-panic" // no frame of the library on the stack: a defect of the harness, not a verdict
			}
			mm = &mismatch{Kind: kind, Step: len(trace) - 1, Expected: "no panic", Actual: fmt.Sprint(r) + " @ " + st}
		}
	}()
	if err := ad.Reset(init.S); err != nil {
		panic("reset: " + err.Error())
	}
	for i, op := range ops {
		ret, err, hung := applyWatched(ad, op)
		if hung {
			// the call did not return within the watchdog period: the goroutine is abandoned
			trace = append(trace, Event{"ev": "Hang", "op": op.N, "a": rawArgs(op.A)})
			return trace, &mismatch{"hang", i, "call returns", "no return within " + HangTimeout.String()}, drift
		}
		if err != nil {
			panic("apply: " + err.Error())
		}
		if expect == nil && SparseObs != nil && SparseObs.Intn(3) != 0 {
			// sparse observation (random driver): the state is NOT read after this call, so that a cached value
			// which only a read would repair (a lazily recomputed length, a cursor) stays as the call left it
			trace = append(trace, Event{"ev": op.N, "a": rawArgs(op.A), "r": Canon(ret)})
			continue
		}
		obs := ad.Obs()
		trace = append(trace, Event{"ev": op.N, "a": rawArgs(op.A), "r": Canon(ret), "o": Canon(obs)})
		if expect == nil {
			continue
		}
		if !Equal(ret, op.R) {
			return trace, &mismatch{"ret", i, Canon(op.R), Canon(ret)}, drift
		}
		if !Equal(obs, expect[i].O) {
			return trace, &mismatch{"obs", i, Canon(expect[i].O), Canon(obs)}, drift
		}
		if drift == "" {
			if st := ad.Struct(); st != nil && !Equal(st, expect[i].S) {
				drift = fmt.Sprintf("step %d op %s%s: model %s code %s", i, op.N, JS(rawArgs(op.A)), JS(Canon(expect[i].S)), JS(Canon(st)))
				// escalate: full observation right here
				d := ad.Drain()
				trace = append(trace, Event{"ev": "Drain", "d": Canon(d)})
				if !Equal(d, expect[i].D) {
					return trace, &mismatch{"drain", i, Canon(expect[i].D), Canon(d)}, drift
				}
				return trace, nil, drift
			}
		}
	}
	if drain {
		d := ad.Drain()
		trace = append(trace, Event{"ev": "Drain", "d": Canon(d)})
		if expect != nil && len(expect) > 0 && !Equal(d, expect[len(expect)-1].D) {
			return trace, &mismatch{"drain", len(ops), Canon(expect[len(expect)-1].D), Canon(d)}, drift
		}
		if expect != nil && len(expect) == 0 && !Equal(d, init.D) {
			return trace, &mismatch{"drain", 0, Canon(init.D), Canon(d)}, drift
		}
	}
	return trace, nil, drift
}

// SparseObs, when set, makes RunPath (without expectations) observe the state only after one call in three.
var SparseObs *rand.Rand

// HangTimeout is how long one API call may take before it is declared hung. Calls take
// microseconds; the generous bound keeps machine load from ever causing a false alarm.
var HangTimeout = 20 * time.Second

// Hung is set once a call has been abandoned (its goroutine may still be spinning).
var Hung bool

var lastStack string

type applyRes struct {
	ret interface{}
	err error
	pan interface{}
}

func applyWatched(ad Adapter, op Op) (interface{}, error, bool) {
	ch := make(chan applyRes, 1)
	go func() {
		defer func() {
			if r := recover(); r != nil {
				lastStack = shortStack()
				ch <- applyRes{pan: r}
			}
		}()
		ret, err := ad.Apply(op)
		ch <- applyRes{ret: ret, err: err}
	}()
	select {
	case r := <-ch:
		if r.pan != nil {
			panic(r.pan)
		}
		return r.ret, r.err, false
	case <-time.After(HangTimeout):
		Hung = true
		return nil, nil, true
	}
}

func (w *Walker) runEdges(component string, path []int) {
	g := w.G
	var init State
	if len(path) == 0 {
		return
	}
	init = g.Edges[path[0]].F
	ops := make([]Op, len(path))
	exp := make([]State, len(path))
	for i, ei := range path {
		ops[i] = g.Edges[ei].Op
		exp[i] = g.Edges[ei].T
	}
	trace, mm, drift := RunPath(w.Ad, init, ops, exp, true)
	if Hung {
		defer func() { w.MaxSusp = len(w.Stats.Suspects) }() // stop walking: an abandoned goroutine may still spin
	}
	w.Stats.Paths++
	w.Stats.Steps += len(ops)
	for _, op := range ops {
		w.Stats.OpCount[op.N]++
	}
	if mm != nil {
		if len(w.Stats.Suspects) < w.MaxSusp {
			fn := fmt.Sprintf("%s/suspect_%03d.json", w.OutDir, len(w.Stats.Suspects))
			rp := Replay{Component: component, Init: init.S, Ops: ops[:min(len(ops), mm.Step+1)], Mismatch: mm, Trace: trace}
			WriteJSON(fn, rp)
			w.Stats.Suspects = append(w.Stats.Suspects, fn)
		}
	} else {
		for _, ei := range path {
			if !g.Edges[ei].covered {
				g.Edges[ei].covered = true
				w.Stats.EdgesCovered++
			}
		}
	}
	if drift != "" {
		w.Stats.Drift++
		if len(w.Stats.DriftSamples) < 5 {
			w.Stats.DriftSamples = append(w.Stats.DriftSamples, drift)
		}
	}
	if w.Trace != nil && (mm == nil) && (w.TraceEvery <= 1 || w.Stats.Paths%w.TraceEvery == 0) {
		WriteTrace(w.Trace, trace)
		w.NTraces++
	}
	if len(w.Stats.Samples) < 3 && len(ops) >= 3 {
		w.Stats.Samples = append(w.Stats.Samples, trace)
	}
}

func min(a, b int) int {
	if a < b {
		return a
	}
	return b
}

// WalkProbe executes, for every edge e = (s, op, t): the BFS path to s, then op, then the full
// observation. Every edge is therefore followed by a complete (destructive) observation once.
func (w *Walker) WalkProbe(component string) {
	g := w.G
	w.Stats.OpCount = map[string]int{}
	w.Stats.EdgesTotal = len(g.Edges)
	w.Stats.Nodes = len(g.Nodes)
	order := w.Rng.Perm(len(g.Edges))
	for _, ei := range order {
		e := g.Edges[ei]
		if g.depth[e.from] < 0 {
			continue // unreachable from an init node (should not happen)
		}
		path := append(g.PathTo(e.from), ei)
		w.runEdges(component, path)
		if len(w.Stats.Suspects) >= w.MaxSusp {
			return
		}
	}
}

// WalkCover covers every edge with long greedy walks (for graphs too large for WalkProbe).
func (w *Walker) WalkCover(component string, maxLen int) {
	g := w.G
	w.Stats.OpCount = map[string]int{}
	w.Stats.EdgesTotal = len(g.Edges)
	w.Stats.Nodes = len(g.Nodes)
	used := make([]bool, len(g.Edges))
	remaining := 0
	for _, e := range g.Edges {
		if g.depth[e.from] >= 0 {
			remaining++
		}
	}
	nextUnused := make([]int, len(g.Nodes)) // cursor into Out[n]
	pick := func(n int) int {
		for nextUnused[n] < len(g.Out[n]) {
			ei := g.Out[n][nextUnused[n]]
			if !used[ei] {
				return ei
			}
			nextUnused[n]++
		}
		return -1
	}
	// nearest node with an unused out-edge, BFS in the graph from n
	bfs := func(n int, limit int) []int {
		prev := map[int]int{n: -1}
		q := []int{n}
		dist := map[int]int{n: 0}
		for len(q) > 0 {
			x := q[0]
			q = q[1:]
			if x != n && pick(x) >= 0 {
				var rev []int
				for prev[x] >= 0 {
					rev = append(rev, prev[x])
					x = g.Edges[prev[x]].from
				}
				for i, j := 0, len(rev)-1; i < j; i, j = i+1, j-1 {
					rev[i], rev[j] = rev[j], rev[i]
				}
				return rev
			}
			if dist[x] >= limit {
				continue
			}
			for _, ei := range g.Out[x] {
				t := g.Edges[ei].to
				if _, ok := prev[t]; !ok {
					prev[t] = ei
					dist[t] = dist[x] + 1
					q = append(q, t)
				}
			}
		}
		return nil
	}
	for remaining > 0 && len(w.Stats.Suspects) < w.MaxSusp {
		// start: an unused edge; reach its source by the BFS tree
		start := -1
		for _, ei := range w.Rng.Perm(len(g.Edges)) {
			if !used[ei] && g.depth[g.Edges[ei].from] >= 0 {
				start = ei
				break
			}
		}
		if start < 0 {
			break
		}
		path := append(g.PathTo(g.Edges[start].from), start)
		used[start] = true
		remaining--
		cur := g.Edges[start].to
		for len(path) < maxLen {
			ei := pick(cur)
			if ei < 0 {
				hop := bfs(cur, 6)
				if hop == nil || len(path)+len(hop) >= maxLen {
					break
				}
				path = append(path, hop...)
				cur = g.Edges[hop[len(hop)-1]].to
				continue
			}
			used[ei] = true
			remaining--
			path = append(path, ei)
			cur = g.Edges[ei].to
		}
		before := len(w.Stats.Suspects)
		w.runEdges(component, path)
		if len(w.Stats.Suspects) > before {
			// edges after the mismatch were not exercised: give them back
			for _, ei := range path {
				if !g.Edges[ei].covered && used[ei] {
					// keep them used to guarantee termination; they are reported as uncovered
				}
			}
		}
	}
}

func WriteTrace(w *bufio.Writer, trace []Event) {
	for _, ev := range trace {
		b, _ := json.Marshal(ev)
		w.Write(b)
		w.WriteByte('\n')
	}
}

func WriteJSON(path string, v interface{}) {
	b, err := json.MarshalIndent(v, "", " ")
	if err != nil {
		panic(err)
	}
	if err := os.WriteFile(path, b, 0o644); err != nil {
		panic(err)
	}
}

func ReadJSON(path string, v interface{}) error {
	b, err := os.ReadFile(path)
	if err != nil {
		return err
	}
	return json.Unmarshal(b, v)
}

// ArgInt decodes argument i of op as int.
func ArgInt(op Op, i int) int {
	var v int
	if err := json.Unmarshal(op.A[i], &v); err != nil {
		panic(fmt.Sprintf("arg %d of %s: %v", i, op.N, err))
	}
	return v
}

func ArgStr(op Op, i int) string {
	var v string
	if err := json.Unmarshal(op.A[i], &v); err != nil {
		panic(fmt.Sprintf("arg %d of %s: %v", i, op.N, err))
	}
	return v
}

func ArgInts(op Op, i int) []int {
	var v []int
	if err := json.Unmarshal(op.A[i], &v); err != nil {
		panic(fmt.Sprintf("arg %d of %s: %v", i, op.N, err))
	}
	return v
}

func MkOp(n string, args ...interface{}) Op {
	op := Op{N: n}
	for _, a := range args {
		b, _ := json.Marshal(a)
		op.A = append(op.A, b)
	}
	if op.A == nil {
		op.A = []json.RawMessage{}
	}
	return op
}

// Getenv helpers
func EnvInt(name string, def int) int {
	s := strings.TrimSpace(os.Getenv(name))
	if s == "" {
		return def
	}
	var v int
	if _, err := fmt.Sscan(s, &v); err != nil {
		return def
	}
	return v
}

// IterPair runs two iterators over the same container at the same time: the first takes one step, then the second is
// created, then they advance alternately until both are exhausted. Each must yield what a lone iterator yields.
func IterPair[T any](mk func() (next func() bool, value func() T)) [][]T {
	out := [][]T{{}, {}}
	n1, v1 := mk()
	live1 := n1()
	if live1 {
		out[0] = append(out[0], v1())
	}
	n2, v2 := mk()
	live2 := true
	for steps := 0; (live1 || live2) && steps < 1<<21; steps++ {
		if live2 {
			if live2 = n2(); live2 {
				out[1] = append(out[1], v2())
			}
		}
		if live1 {
			if live1 = n1(); live1 {
				out[0] = append(out[0], v1())
			}
		}
	}
	return out
}
