package core

import (
	"bufio"
	"encoding/json"
	"flag"
	"fmt"
	"math/rand"
	"os"
	"time"
)

// RandGen produces random operation sequences for the code -> model direction.
type RandGen interface {
	Init(rng *rand.Rand) json.RawMessage // structural projection of an initial state
	Next(rng *rand.Rand, step int) Op
}

// PreHook, when set, sees the loaded edges before the walk starts.
var PreHook func(edges []*Edge)

// MainHook, when set, runs after a walk / replay finished (before the process exits).
var MainHook func()

// Main is the command line shared by all sequential components:
//
//	walk   -edges F -out DIR [-mode probe|cover] [-maxlen N] [-traceevery K] [-seed S]
//	rand   -out DIR -n TRACES -len L [-seed S]
//	replay -file F -out DIR
func Main(component string, newAdapter func() Adapter, gen RandGen) {
	if len(os.Args) < 2 {
		fmt.Fprintln(os.Stderr, "usage: walk|rand|replay ...")
		os.Exit(2)
	}
	cmd := os.Args[1]
	fs := flag.NewFlagSet(cmd, flag.ExitOnError)
	edges := fs.String("edges", "", "TLC output with edges")
	out := fs.String("out", ".", "output directory")
	mode := fs.String("mode", "probe", "probe|cover")
	maxlen := fs.Int("maxlen", 60, "max path length in cover mode")
	every := fs.Int("traceevery", 1, "write every k-th path to the trace file")
	seed := fs.Int64("seed", int64(EnvInt("VERIF_SEED", 1)), "seed")
	n := fs.Int("n", 100, "number of random traces")
	ln := fs.Int("len", 50, "length of a random trace")
	file := fs.String("file", "", "replay file")
	maxsusp := fs.Int("maxsusp", 5, "stop after this many suspect traces")
	fs.Parse(os.Args[2:])
	t0 := time.Now()
	switch cmd {
	case "walk":
		es, err := LoadEdges(*edges)
		if err != nil || len(es) == 0 {
			fmt.Fprintf(os.Stderr, "cannot load edges from %s: %v (n=%d)\n", *edges, err, len(es))
			os.Exit(2)
		}
		if PreHook != nil {
			PreHook(es)
		}
		g := BuildGraph(es)
		tf, err := os.Create(*out + "/walk_traces.ndjson")
		if err != nil {
			fmt.Fprintln(os.Stderr, err)
			os.Exit(2)
		}
		bw := bufio.NewWriterSize(tf, 1<<20)
		w := &Walker{G: g, Ad: newAdapter(), OutDir: *out, Trace: bw, Rng: rand.New(rand.NewSource(*seed)), MaxSusp: *maxsusp, TraceEvery: *every}
		if *mode == "cover" {
			w.WalkCover(component, *maxlen)
		} else {
			w.WalkProbe(component)
		}
		bw.Flush()
		tf.Close()
		if w.Stats.Suspects == nil {
			w.Stats.Suspects = []string{}
		}
		if w.Stats.DriftSamples == nil {
			w.Stats.DriftSamples = []string{}
		}
		if w.Stats.Samples == nil {
			w.Stats.Samples = []interface{}{}
		}
		st := map[string]interface{}{
			"component": component, "mode": *mode, "nodes": w.Stats.Nodes, "edges_total": w.Stats.EdgesTotal,
			"edges_covered": w.Stats.EdgesCovered, "paths": w.Stats.Paths, "steps": w.Stats.Steps,
			"drift": w.Stats.Drift, "drift_samples": w.Stats.DriftSamples, "suspects": w.Stats.Suspects,
			"samples": w.Stats.Samples, "op_count": w.Stats.OpCount, "traces_written": w.NTraces,
			"whitebox": newAdapterHasStruct(newAdapter, g), "wall_s": time.Since(t0).Seconds(),
		}
		WriteJSON(*out+"/walk_stats.json", st)
		fmt.Printf("walk %s: nodes=%d edges=%d covered=%d paths=%d steps=%d drift=%d suspects=%d\n", component,
			w.Stats.Nodes, w.Stats.EdgesTotal, w.Stats.EdgesCovered, w.Stats.Paths, w.Stats.Steps, w.Stats.Drift, len(w.Stats.Suspects))
	case "rand":
		if gen == nil {
			fmt.Fprintln(os.Stderr, "no random driver for", component)
			os.Exit(2)
		}
		tf, err := os.Create(*out + "/rand_traces.ndjson")
		if err != nil {
			fmt.Fprintln(os.Stderr, err)
			os.Exit(2)
		}
		bw := bufio.NewWriterSize(tf, 1<<20)
		rng := rand.New(rand.NewSource(*seed))
		ad := newAdapter()
		events := 0
		opCount := map[string]int{}
		var samples []interface{}
		idx := []map[string]interface{}{}
		for i := 0; i < *n; i++ {
			// every second history is observed sparsely
			if i%2 == 1 {
				SparseObs = rand.New(rand.NewSource(*seed + int64(i)))
			} else {
				SparseObs = nil
			}
			init := State{S: gen.Init(rng)}
			ops := make([]Op, *ln)
			for j := range ops {
				ops[j] = gen.Next(rng, j)
				opCount[ops[j].N]++
			}
			trace, mm, _ := RunPath(ad, init, ops, nil, true)
			idx = append(idx, map[string]interface{}{"first_line": events + 1, "init": Canon(init.S), "ops": ops, "panic": mm != nil})
			events += len(trace)
			WriteTrace(bw, trace)
			if i < 2 {
				samples = append(samples, trace[:min(len(trace), 12)])
			}
			if Hung {
				break // an abandoned goroutine may still be spinning: stop here, the trace so far is judged
			}
		}
		bw.Flush()
		tf.Close()
		WriteJSON(*out+"/rand_index.json", idx)
		WriteJSON(*out+"/rand_stats.json", map[string]interface{}{"component": component, "traces": *n, "events": events,
			"op_count": opCount, "samples": samples, "seed": *seed, "wall_s": time.Since(t0).Seconds()})
		fmt.Printf("rand %s: traces=%d events=%d\n", component, *n, events)
	case "replay":
		var rp Replay
		if err := ReadJSON(*file, &rp); err != nil {
			fmt.Fprintln(os.Stderr, err)
			os.Exit(2)
		}
		trace, mm, _ := RunPath(newAdapter(), State{S: rp.Init}, rp.Ops, nil, true)
		tf, _ := os.Create(*out + "/replay_trace.ndjson")
		bw := bufio.NewWriter(tf)
		WriteTrace(bw, trace)
		bw.Flush()
		tf.Close()
		for _, ev := range trace {
			fmt.Println(JS(ev))
		}
		if mm != nil {
			fmt.Println("PANIC:", JS(mm))
		}
	default:
		fmt.Fprintln(os.Stderr, "unknown command", cmd)
		os.Exit(2)
	}
	if MainHook != nil {
		MainHook()
	}
}

func newAdapterHasStruct(newAdapter func() Adapter, g *Graph) bool {
	defer func() { recover() }()
	ad := newAdapter()
	if len(g.Inits) == 0 {
		return false
	}
	if err := ad.Reset(g.Nodes[g.Inits[0]].S); err != nil {
		return false
	}
	return ad.Struct() != nil
}
