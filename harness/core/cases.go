package core

import (
	"bufio"
	"bytes"
	"encoding/json"
	"flag"
	"fmt"
	"os"
	"runtime/debug"
	"strings"
	"time"
)

// Case is one line printed by a TLC case generator: function name, input, arguments and the
// output the TLA+ definition computes.
type Case struct {
	Fn    string            `json:"fn"`
	S     json.RawMessage   `json:"s"`
	A     []json.RawMessage `json:"a"`
	Out   json.RawMessage   `json:"out"`
	Valid *bool             `json:"valid,omitempty"`
	X     json.RawMessage   `json:"x,omitempty"`
}

// Mismatch is a case on which the real code disagrees with the specification.
type Mismatch struct {
	Fn       string      `json:"fn"`
	Kind     string      `json:"kind"` // value | panic | hang
	Case     interface{} `json:"case"`
	Input    interface{} `json:"input"` // concrete input handed to the real function
	Expected interface{} `json:"expected"`
	Actual   interface{} `json:"actual"`
}

type CaseStats struct {
	Cases      int                    `json:"cases"`
	Calls      int                    `json:"calls"`
	PerFn      map[string]int         `json:"per_fn"`
	Nontrivial int                    `json:"distinct_nontrivial"`
	Mismatches []Mismatch             `json:"mismatches"`
	NMismatch  int                    `json:"n_mismatch"`
	Samples    []interface{}          `json:"samples"`
	Extra      map[string]interface{} `json:"extra,omitempty"`
	WallS      float64                `json:"wall_s"`
}

func (s *CaseStats) Add(m Mismatch) {
	s.NMismatch++
	// keep one example per (fn, kind) first, then up to 12
	for _, x := range s.Mismatches {
		if x.Fn == m.Fn && x.Kind == m.Kind && len(s.Mismatches) >= 3 {
			return
		}
	}
	if len(s.Mismatches) < 12 {
		s.Mismatches = append(s.Mismatches, m)
	}
}

// Guard calls f and converts a panic into (msg, true).
func Guard(f func()) (msg string, panicked bool) {
	defer func() {
		if r := recover(); r != nil {
			st := string(debug.Stack())
			inlib := InLib(st)
			msg = fmt.Sprint(r)
			if !inlib {
				msg = "HARNESS: " + msg + "\n" + st
			}
			panicked = true
		}
	}()
	f()
	return
}

// HungOnce is set when a call had to be abandoned.
var HungOnce bool

// GuardTimed is Guard with a watchdog; hung reports that f did not return in time.
func GuardTimed(f func(), d time.Duration) (msg string, panicked, hung bool) {
	done := make(chan struct{})
	go func() {
		msg, panicked = Guard(f)
		close(done)
	}()
	select {
	case <-done:
		return msg, panicked, false
	case <-time.After(d):
		HungOnce = true // the abandoned goroutine may spin for ever: the runner stops after this case
		return "no return within " + d.String(), false, true
	}
}

// LoadCases reads every JSON case line from the given TLC outputs.
func LoadCases(paths []string, each func(c *Case)) error {
	for _, p := range paths {
		f, err := os.Open(p)
		if err != nil {
			return err
		}
		sc := bufio.NewScanner(f)
		sc.Buffer(make([]byte, 1<<20), 1<<26)
		for sc.Scan() {
			line := sc.Bytes()
			if !bytes.HasPrefix(line, []byte(`"{`)) {
				continue
			}
			var inner string
			if err := json.Unmarshal(line, &inner); err != nil {
				f.Close()
				return err
			}
			c := new(Case)
			if err := json.Unmarshal([]byte(inner), c); err != nil {
				f.Close()
				return fmt.Errorf("case json: %v: %s", err, inner)
			}
			each(c)
		}
		f.Close()
		if err := sc.Err(); err != nil {
			return err
		}
	}
	return nil
}

// CasesMain is the command line of a case runner: -cases f1,f2 -out DIR -seed S [-tier quick|thorough].
func CasesMain(name string, run func(c *Case, st *CaseStats, seed int64), finish func(st *CaseStats, seed int64, tier string)) {
	cases := flag.String("cases", "", "comma separated TLC outputs")
	out := flag.String("out", ".", "output dir")
	seed := flag.Int64("seed", int64(EnvInt("VERIF_SEED", 1)), "seed")
	tier := flag.String("tier", "quick", "tier")
	flag.Parse()
	st := &CaseStats{PerFn: map[string]int{}}
	t0 := time.Now()
	if *cases != "" {
		err := LoadCases(strings.Split(*cases, ","), func(c *Case) {
			if HungOnce {
				return
			}
			st.Cases++
			st.PerFn[c.Fn]++
			if st.Cases%997 == 1 && len(st.Samples) < 6 {
				st.Samples = append(st.Samples, c)
			}
			run(c, st, *seed)
		})
		if err != nil {
			fmt.Fprintln(os.Stderr, err)
			os.Exit(2)
		}
	}
	if finish != nil {
		finish(st, *seed, *tier)
	}
	st.WallS = time.Since(t0).Seconds()
	if st.Mismatches == nil {
		st.Mismatches = []Mismatch{}
	}
	WriteJSON(*out+"/"+name+"_cases.json", st)
	fmt.Printf("%s: cases=%d calls=%d mismatches=%d\n", name, st.Cases, st.Calls, st.NMismatch)
}

func RawInt(r json.RawMessage) int {
	var v int
	if err := json.Unmarshal(r, &v); err != nil {
		panic(fmt.Sprintf("int: %v: %s", err, r))
	}
	return v
}

func RawInts(r json.RawMessage) []int {
	var v []int
	if err := json.Unmarshal(r, &v); err != nil {
		panic(fmt.Sprintf("ints: %v: %s", err, r))
	}
	return v
}

func RawStrs(r json.RawMessage) []string {
	var v []string
	if err := json.Unmarshal(r, &v); err != nil {
		panic(fmt.Sprintf("strs: %v: %s", err, r))
	}
	return v
}

// Retained results: a string a library function returned must stay what it was, whatever is called afterwards
// (results built with unsafe conversions over pooled or reused buffers change under the caller's feet). Retain
// remembers the last few strings per function with a private copy of their bytes and re-checks them on every call.
type retained struct {
	s    string
	copy []byte
	in   interface{}
}

var retainRing = map[string][]retained{}

func Retain(st *CaseStats, c *Case, fn string, in interface{}, s string) {
	ring := retainRing[fn]
	for _, r := range ring {
		if r.s != string(r.copy) {
			st.Add(Mismatch{Fn: fn, Kind: "value", Case: c, Input: map[string]interface{}{"earlier_call": r.in, "later_call": in},
				Expected: "the string returned by the earlier call still reads " + strconvQuote(r.copy), Actual: r.s})
			retainRing[fn] = nil
			return
		}
	}
	if len(s) == 0 {
		return
	}
	ring = append(ring, retained{s: s, copy: []byte(s), in: in})
	if len(ring) > 4 {
		ring = ring[1:]
	}
	retainRing[fn] = ring
}

func strconvQuote(b []byte) string { return fmt.Sprintf("%q", string(b)) }

// RetainBytes is Retain for byte slices a function returned (results built in pooled or reused buffers).
type retainedB struct {
	b    []byte
	copy []byte
	in   interface{}
}

var retainRingB = map[string][]retainedB{}

func RetainBytes(st *CaseStats, c *Case, fn string, in interface{}, b []byte) {
	ring := retainRingB[fn]
	for _, r := range ring {
		if string(r.b) != string(r.copy) {
			st.Add(Mismatch{Fn: fn, Kind: "value", Case: c, Input: map[string]interface{}{"earlier_call": r.in, "later_call": in},
				Expected: "the bytes returned by the earlier call still read " + strconvQuote(r.copy), Actual: string(r.b)})
			retainRingB[fn] = nil
			return
		}
	}
	if len(b) == 0 {
		return
	}
	ring = append(ring, retainedB{b: b, copy: append([]byte{}, b...), in: in})
	if len(ring) > 4 {
		ring = ring[1:]
	}
	retainRingB[fn] = ring
}

// Spare returns a copy of b that sits in a larger buffer of the caller: 24 bytes of 0xA5 lie behind it within the
// slice's capacity. SpareIntact tells whether a callee left them alone (a callee may not write behind len).
func Spare(b []byte) []byte {
	buf := make([]byte, len(b)+24)
	copy(buf, b)
	for i := len(b); i < len(buf); i++ {
		buf[i] = 0xA5
	}
	return buf[:len(b)]
}

func SpareIntact(b []byte) bool {
	full := b[:cap(b)]
	if len(full) < len(b)+24 {
		return true
	}
	for _, x := range full[len(b) : len(b)+24] {
		if x != 0xA5 {
			return false
		}
	}
	return true
}
