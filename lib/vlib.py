"""Shared machinery for the /verif checks: scratch copies of /repo, TLC runs, trace
validation, Go harness builds, evidence files and the verdict policy.

Verdict policy (DESIGN.md 3.3):
  exit 1 + VIOLATION line : the real code did something the ABSTRACT specification forbids
  exit 0 + MODEL-DRIFT    : internal structure differs from the Impl spec, observables fine
  exit 2                  : the machinery could not decide (build failure, TLC crash, timeout)
"""
import json, os, re, shutil, subprocess, sys, tempfile, time, glob, hashlib

VERIF = os.path.dirname(os.path.dirname(os.path.abspath(__file__)))
REPO = os.environ.get("VERIF_REPO", "/repo")
GOENV = dict(os.environ, GOFLAGS="-mod=mod", GOPROXY="off", GOSUMDB="off", GOTOOLCHAIN="local")
NCPU = os.cpu_count() or 4


class Inconclusive(Exception):
    pass


def log(*a):
    print(*a, flush=True)


class Ctx:
    """One run of one property's check."""

    def __init__(self, pid, tier, seed):
        self.pid, self.tier, self.seed = pid, tier, seed
        self.t0 = time.time()
        self.scratch = tempfile.mkdtemp(prefix="verif_%s_" % pid, dir=os.environ.get("VERIF_TMP", "/tmp"))
        self.golib = os.path.join(self.scratch, "golib")
        self.harness = os.path.join(self.scratch, "harness")
        self.bin = os.path.join(self.scratch, "bin")
        self.out = os.path.join(self.scratch, "out")
        os.makedirs(self.bin), os.makedirs(self.out)
        self.violations = []      # (message, replay path)
        self.known = []           # KNOWN-FINDING lines
        self.drift = []
        self.cov = {"states": 0, "transitions": 0, "traces_validated_against_impl": 0, "samples": [],
                    "tlc_runs": [], "edges_replayed": 0, "events_validated": 0, "engines": []}
        self.assumptions = []
        self.whitebox = True
        self._copied = False

    # ---------------------------------------------------------------- scratch copy
    def add_shim(self, files):
        """Copy the deterministic-scheduler shim into the scratch copy and redirect the imports
        "sync/atomic", "runtime" (and "sync" when the file is in SYNC_FILES) of the given files to it."""
        dst = os.path.join(self.golib, "verifshim")
        if not os.path.isdir(dst):
            shutil.copytree(os.path.join(VERIF, "harness", "shim"), dst)
        for f in files:
            p = os.path.join(self.golib, f)
            if not os.path.exists(p):
                raise Inconclusive("file %s to be instrumented no longer exists" % f)
            src = open(p).read()
            src2 = src.replace('"sync/atomic"', '"github.com/welllog/golib/verifshim/atomic"')
            src2 = re.sub(r'(?m)^(\s*)"runtime"$', r'\1"github.com/welllog/golib/verifshim/runtime"', src2)
            src2 = re.sub(r'(?m)^import "runtime"$', 'import "github.com/welllog/golib/verifshim/runtime"', src2)
            if f in getattr(self, "sync_files", ()):
                src2 = re.sub(r'(?m)^(\s*)"sync"$', r'\1"github.com/welllog/golib/verifshim/sync"', src2)
                src2 = re.sub(r'(?m)^import "sync"$', 'import "github.com/welllog/golib/verifshim/sync"', src2)
            open(p, "w").write(src2)

    def copy_repo(self, overlays=()):
        """rsync /repo's working tree (no .git) into the scratch dir, add the harness module and
        the add-only export files for the named packages."""
        if not self._copied:
            subprocess.run(["rsync", "-a", "--exclude", ".git", "--exclude", "_out", REPO + "/", self.golib + "/"], check=True)
            subprocess.run(["rsync", "-a", VERIF + "/harness/", self.harness + "/"], check=True)
            self._copied = True
        self.overlays = list(overlays)
        for pkg in overlays:
            src = os.path.join(VERIF, "harness", "overlay", pkg)
            for f in glob.glob(src + "/*.go"):
                shutil.copy(f, os.path.join(self.golib, pkg, os.path.basename(f)))

    def remove_overlays(self):
        for pkg in getattr(self, "overlays", []):
            src = os.path.join(VERIF, "harness", "overlay", pkg)
            for f in glob.glob(src + "/*.go"):
                p = os.path.join(self.golib, pkg, os.path.basename(f))
                if os.path.exists(p):
                    os.remove(p)

    def go_build(self, cmd, name=None, tags=(), race=False, allow_nowb=True):
        """Build harness/cmd/<cmd>. If the white-box overlay no longer fits the tree, fall back
        to a black-box build (tag nowb, overlays removed)."""
        name = name or cmd
        outp = os.path.join(self.bin, name)
        def build(tg):
            args = ["go", "build", "-o", outp]
            if race:
                args.append("-race")
            if tg:
                args += ["-tags", ",".join(tg)]
            args.append("./cmd/" + cmd)
            return subprocess.run(args, cwd=self.harness, env=GOENV, capture_output=True, text=True)
        r = build(list(tags))
        if r.returncode != 0 and allow_nowb:
            first = r.stderr
            self.remove_overlays()
            r = build(list(tags) + ["nowb"])
            if r.returncode == 0:
                self.whitebox = False
                log("NOTE: white-box overlay does not fit the current tree; running black-box only")
                log(first[-1500:])
        if r.returncode != 0:
            raise Inconclusive("go build %s failed:\n%s" % (cmd, r.stderr[-3000:]))
        return outp

    def run(self, args, timeout=1800, env=None, cwd=None, ok=(0,)):
        try:
            r = subprocess.run(args, capture_output=True, text=True, timeout=timeout, env=env or GOENV, cwd=cwd)
        except subprocess.TimeoutExpired:
            subprocess.run(["pkill", "-f", re.escape(str(args[0]))[:-1] + "[" + str(args[0])[-1] + "]"])
            raise Inconclusive("command did not finish within %d s: %s" % (timeout, " ".join(map(str, args[:3]))))
        if r.returncode not in ok:
            fr = crash_frame(r.stderr)
            if fr and fr.startswith("github.com/welllog/golib/") and "verifshim" not in fr:
                # the process died inside the library (nil dereference, index out of range, fatal error ...)
                self.violation("the real code crashed the driver process in %s: %s" % (fr, first_panic_line(r.stderr)),
                               {"component": "Crash", "command": " ".join(map(str, args[1:])), "stderr": r.stderr[:6000], "note": "re-run the check"},
                               key="crash/" + fr.split("(")[0])
            raise Inconclusive("command failed (%d): %s\n%s\n%s" % (r.returncode, " ".join(map(str, args)), r.stdout[-2000:], r.stderr[-3000:]))
        return r

    # ---------------------------------------------------------------- TLC
    def tlc(self, specdir, module, cfg, workers=1, timeout=900, extra_files=(), tag=None, simulate=None, coverage=False,
            keep_output=True, extra_args=()):
        """Run TLC on specs/<specdir>/<module>.tla with <cfg> in a private scratch directory.
        Returns dict(out=path, generated, distinct, depth, errors[list of str], ok)."""
        tag = tag or (module + "_" + os.path.splitext(os.path.basename(cfg))[0])
        wd = os.path.join(self.scratch, "tlc", tag)
        os.makedirs(wd, exist_ok=True)
        for f in glob.glob(os.path.join(VERIF, "specs", specdir, "*")):
            if os.path.isfile(f):
                shutil.copy(f, wd)
        for src, dst in extra_files:
            shutil.copy(src, os.path.join(wd, dst))
        outp = os.path.join(wd, "tlc.out")
        args = ["tlc", "-workers", str(workers), "-noGenerateSpecTE", "-metadir", os.path.join(wd, "md"), "-config", cfg]
        if coverage:
            args += ["-coverage", "1"]
        if simulate:
            args += ["-simulate", simulate]
        args += list(extra_args)
        args.append(module + ".tla")
        t0 = time.time()
        # a deep Java stack: TLC evaluates large function / set constructors recursively
        tenv = dict(os.environ, JAVA_TOOL_OPTIONS=(os.environ.get("JAVA_TOOL_OPTIONS", "") + " -Xss512m").strip())
        with open(outp, "w") as fo:
            try:
                r = subprocess.run(args, cwd=wd, stdout=fo, stderr=subprocess.STDOUT, timeout=timeout, env=tenv)
                rc = r.returncode
            except subprocess.TimeoutExpired:
                subprocess.run(["pkill", "-f", "tlc2.TL[C].*" + re.escape(wd)])
                raise Inconclusive("TLC timed out after %ds on %s/%s %s" % (timeout, specdir, module, cfg))
        res = {"out": outp, "rc": rc, "wall_s": round(time.time() - t0, 2), "module": module, "cfg": cfg,
               "generated": 0, "distinct": 0, "depth": 0, "errors": []}
        tail = subprocess.run(["grep", "-a", "-v", '^"{', outp], capture_output=True, text=True).stdout
        m = re.findall(r"(\d+) states generated, (\d+) distinct states found", tail)
        if m:
            res["generated"], res["distinct"] = int(m[-1][0]), int(m[-1][1])
        m = re.findall(r"depth of the complete state graph search is (\d+)", tail)
        if m:
            res["depth"] = int(m[-1])
        res["errors"] = [l for l in tail.splitlines() if l.startswith("Error:") or "is violated" in l or "Exception" in l][:10]
        res["tail"] = tail[-3000:]
        shutil.rmtree(os.path.join(wd, "md"), ignore_errors=True)
        return res

    def apalache(self, specdir, module, args, expect_error=False, timeout=900, tag=None):
        """Apalache (symbolic) run on specs/<specdir>/<module>.tla in a private scratch directory. The outcome must
        be NoError (or, for a vacuity guard, Error); anything else - tool failure, timeout - is inconclusive."""
        tag = tag or ("apalache_" + module + "_" + hashlib.sha1(" ".join(args).encode()).hexdigest()[:8])
        wd = os.path.join(self.scratch, "apalache", tag)
        os.makedirs(wd, exist_ok=True)
        for f in glob.glob(os.path.join(VERIF, "specs", specdir, "*")):
            if os.path.isfile(f):
                shutil.copy(f, wd)
        t0 = time.time()
        try:
            r = subprocess.run(["apalache-mc", "check", "--out-dir=" + os.path.join(wd, "out")] + list(args) + [module + ".tla"],
                               cwd=wd, capture_output=True, text=True, timeout=timeout)
        except subprocess.TimeoutExpired:
            subprocess.run(["pkill", "-f", "apalache.*" + re.escape(wd)[:-1] + "[" + wd[-1] + "]"])
            raise Inconclusive("Apalache timed out after %ds (%s %s)" % (timeout, module, " ".join(args)))
        out = r.stdout + r.stderr
        m = re.search(r"The outcome is: (\w+)", out)
        outcome = m.group(1) if m else "none"
        wall = round(time.time() - t0, 1)
        self.cov["tlc_runs"].append({"tool": "apalache", "module": module, "args": " ".join(args), "outcome": outcome, "wall_s": wall})
        log("Apalache %s %s: %s, %.1fs" % (module, " ".join(args), outcome, wall))
        want = "Error" if expect_error else "NoError"
        if outcome != want:
            raise Inconclusive("Apalache: expected %s, got %s (%s %s):\n%s" % (want, outcome, module, " ".join(args), out[-2500:]))
        shutil.rmtree(wd, ignore_errors=True)
        return outcome

    def model_check(self, specdir, module, cfg, workers=None, timeout=900, emit=False, tag=None, count=True):
        """Exhaustive TLC run that must pass on the spec (a failure is a defect of the
        specification, i.e. inconclusive, never a verdict about the code)."""
        # (edge emission is a PrintT per transition: the set of printed lines does not depend on the number of workers)
        w = min(8, NCPU) if emit else (workers or NCPU)
        r = self.tlc(specdir, module, cfg, workers=w, timeout=timeout, tag=tag)
        if r["errors"] or r["distinct"] == 0:
            raise Inconclusive("TLC reported an error in the specification itself (%s %s):\n%s" % (module, cfg, r["tail"]))
        if count:
            self.cov["states"] += r["distinct"]
            self.cov["transitions"] += r["generated"]
        self.cov["tlc_runs"].append({"module": module, "cfg": cfg, "distinct": r["distinct"], "generated": r["generated"],
                                     "depth": r["depth"], "wall_s": r["wall_s"], "workers": w})
        log("TLC %s %s: %d distinct states, %d transitions, depth %d, %.1fs" % (module, cfg, r["distinct"], r["generated"], r["depth"], r["wall_s"]))
        return r

    def validate_trace(self, specdir, module, cfg, tracefile, timeout=900, tag=None, workers=1, split=True):
        """Trace validation by TLC. Returns (accepted, failing_line or None, nlines)."""
        n = sum(1 for _ in open(tracefile))
        if n == 0:
            return True, None, 0
        if split and os.path.getsize(tracefile) > CHUNK_BYTES:
            # the Json module reads a file into one Java string (< 2^31 characters): a large log is validated in pieces,
            # cut at Reset lines (each piece is a sequence of complete traces)
            return self._validate_chunks(specdir, module, cfg, tracefile, timeout, tag, workers, n)
        r = self.tlc(specdir, module, cfg, workers=workers, timeout=timeout, extra_files=[(tracefile, "trace.ndjson")],
                     tag=tag or ("val_" + os.path.basename(tracefile)))
        accepted = (not r["errors"]) and r["depth"] - 1 == n
        if r["errors"] and not any("Postcondition" in e for e in r["errors"]):
            raise Inconclusive("TLC failed while validating a trace (%s):\n%s" % (module, r["tail"]))
        self.cov["tlc_runs"].append({"module": module, "cfg": cfg, "trace_lines": n, "accepted": accepted, "depth": r["depth"], "wall_s": r["wall_s"]})
        if accepted:
            self.cov["events_validated"] += n
        return accepted, (None if accepted else r["depth"]), n

    def _validate_chunks(self, specdir, module, cfg, tracefile, timeout, tag, workers, n):
        base, k, done = tracefile + ".part", 0, 0
        out, size, lines = None, 0, 0
        parts = []
        with open(tracefile) as f:
            for line in f:
                if out is None or (size > CHUNK_BYTES and line.startswith('{"ev":"Reset"')):
                    if out:
                        out.close()
                        parts.append((pth, lines))
                    k += 1
                    pth = "%s%d" % (base, k)
                    out, size, lines = open(pth, "w"), 0, 0
                out.write(line)
                size += len(line)
                lines += 1
        out.close()
        parts.append((pth, lines))
        try:
            for pth, ln in parts:
                ok, bad, _ = self.validate_trace(specdir, module, cfg, pth, timeout=timeout, tag=(tag or "val") + "_" + os.path.basename(pth)[-6:], workers=workers, split=False)
                if not ok:
                    return False, done + bad, n
                done += ln
            return True, None, n
        finally:
            for pth, _ in parts:
                if os.path.exists(pth):
                    os.remove(pth)

    # ---------------------------------------------------------------- verdicts
    def violation(self, msg, replay_obj, key=None):
        d = os.path.join(VERIF, "evidence", "replays", self.pid)
        os.makedirs(d, exist_ok=True)
        h = hashlib.sha1(json.dumps(replay_obj, sort_keys=True, default=str).encode()).hexdigest()[:10]
        p = os.path.join(d, "%s_%s.json" % (self.tier, h))
        replay_obj = dict(replay_obj, property=self.pid, message=msg, key=key, tier=self.tier)
        if getattr(self, "replay_ctx", None) and "replay_ctx" not in replay_obj:
            replay_obj["replay_ctx"] = self.replay_ctx    # what a later ./check replay needs to re-execute and re-judge
        with open(p, "w") as f:
            json.dump(replay_obj, f, indent=1, default=str)
        for kf in known_findings():
            if kf.get("status") == "known" and kf.get("property") == self.pid and key and kf.get("key") == key:
                line = "KNOWN-FINDING: property=%s %s" % (self.pid, kf.get("what", key))
                if line not in self.known:
                    self.known.append(line)
                    log(line)
                return
        self.violations.append((msg, p))
        log("VIOLATION property=%s replay=%s" % (self.pid, p))
        log("  " + msg[:600])

    def finish(self, level="model_checking", extra=None, rule=None):
        wall = time.time() - self.t0
        cov = dict(self.cov)
        cov["exhaustive"] = cov.get("exhaustive", True)
        if rule:
            cov["rule"] = rule
        if extra:
            cov.update(extra)
        if not cov["samples"]:
            cov["samples"] = ["(no sample recorded)"]
        cov["samples"] = cov["samples"][:6]
        cov["whitebox_overlay_used"] = self.whitebox
        cov["model_drift"] = self.drift[:5]
        cov["known_findings_hit"] = self.known
        ev = {"property_id": self.pid, "tier": self.tier, "seed": self.seed, "level": level, "coverage": cov,
              "assumptions": self.assumptions, "wall_s": round(wall, 2), "violations": len(self.violations)}
        os.makedirs(os.path.join(VERIF, "evidence"), exist_ok=True)
        sub = "extras" if self.pid.startswith("X") else ""
        if os.environ.get("VERIF_REPO"):
            sub = "other-tree"    # a run against another tree than /repo (seeded changes): never the committed evidence
        evp = os.path.join(VERIF, "evidence", sub, self.pid + ".json")
        os.makedirs(os.path.dirname(evp), exist_ok=True)
        with open(evp, "w") as f:
            json.dump(ev, f, indent=1, default=str)
        for d in self.drift[:5]:
            log("MODEL-DRIFT property=%s %s" % (self.pid, d))
        log("%s %s: states=%d transitions=%d traces=%d violations=%d wall=%.1fs" % (
            self.pid, self.tier, cov["states"], cov["transitions"], cov["traces_validated_against_impl"], len(self.violations), wall))
        return 1 if self.violations else 0

    def cleanup(self):
        if os.environ.get("VERIF_KEEP"):
            log("scratch kept:", self.scratch)
            return
        shutil.rmtree(self.scratch, ignore_errors=True)


def first_panic_line(stderr):
    for l in stderr.splitlines():
        if l.startswith("panic:") or l.startswith("fatal error:"):
            return l[:300]
    return ""


CHUNK_BYTES = int(os.environ.get("VERIF_CHUNK_BYTES", 600 * 1000 * 1000))


def stuck_in_library(dump):
    """From a SIGQUIT goroutine dump: goroutines that wait (lock, semaphore, channel) below a frame of the library."""
    out = []
    for blk in dump.split("\n\n"):
        lines = blk.strip().splitlines()
        if not lines or not lines[0].startswith("goroutine "):
            continue
        state = lines[0]
        if not any(w in state for w in ("semacquire", "sync.", "chan ", "select")):
            continue
        for f in lines[1:]:
            if f.startswith("github.com/welllog/golib/") and "verifshim" not in f:
                out.append("%s in %s" % (state.split("[", 1)[-1].rstrip("]:"), f[:140]))
                break
    return out


def crash_frame(stderr):
    """The innermost non-runtime function of the goroutine that crashed a Go process, or None."""
    if "panic:" not in stderr and "fatal error:" not in stderr:
        return None
    lines = stderr.splitlines()
    for i, l in enumerate(lines):
        if re.match(r"goroutine \d+ .*\[running", l):
            for f in lines[i + 1:]:
                if not f or f.startswith("\t") or f.startswith("goroutine "):
                    if f.startswith("goroutine "):
                        break
                    continue
                if f.startswith(("panic(", "runtime.", "runtime/", "sync/atomic.", "internal/", "created by")):
                    continue
                # a closure of a generic library function carries the package name of its caller; its file says where it is
                j = lines.index(f, i + 1)
                src = lines[j + 1].strip() if j + 1 < len(lines) else ""
                m = re.search(r"/golib/([a-z0-9]+)/[^/ ]+\.go:\d+", src)
                if m and "verifshim" not in src and "verif_export" not in src and not f.startswith("github.com/welllog/golib/"):
                    return "github.com/welllog/golib/%s (closure instantiated in %s)" % (m.group(1), f.split("(")[0])
                return f
            break
    return None


def known_findings():
    p = os.path.join(VERIF, "KNOWN_FINDINGS.jsonl")
    out = []
    if os.path.exists(p):
        for l in open(p):
            l = l.strip()
            if l and not l.startswith("#"):
                out.append(json.loads(l))
    return out


def read_json(p):
    with open(p) as f:
        return json.load(f)


# -------------------------------------------------------------------- generic sequential component
def locate_trace(tracefile, line):
    """Return (first_line, events) of the trace (Reset..next Reset) that contains 1-based `line`."""
    start, cur = 1, []
    with open(tracefile) as f:
        for i, l in enumerate(f, 1):
            ev = json.loads(l)
            if ev.get("ev") == "Reset":
                if i > line:
                    break
                start, cur = i, []
            cur.append(ev)
    return start, cur


def trace_to_replay(component, events):
    ops, init = [], None
    for ev in events:
        if ev["ev"] == "Reset":
            init = ev.get("s")
        elif ev["ev"] not in ("Drain", "Panic"):
            ops.append({"n": ev["ev"], "a": ev.get("a", []), "r": ev.get("r")})
    return {"component": component, "init": init, "ops": ops, "trace": events}


def seq_component(ctx, comp, specdir, impl, emit_cfg, trace_mod, trace_cfg, gocmd, overlays, walk_mode="probe",
                  rand_n=200, rand_len=60, extra_mc=(), walk_args=(), rand_args=(), trace_every=1, key_prefix=None, env=None, emit_from=None):
    """E1 (model -> code walk over every TLC edge) + E2 (random traces validated by TLC) for one
    sequential stateful component. Returns stats dict."""
    ctx.replay_ctx = {"gocmd": gocmd, "overlays": list(overlays), "specdir": specdir, "trace_mod": trace_mod, "trace_cfg": trace_cfg, "env": dict(env or {})}
    for (mod, cfg) in extra_mc:
        ctx.model_check(specdir, mod, cfg)
    if emit_from is None:
        r = ctx.model_check(specdir, impl, emit_cfg, emit=True, tag=comp + "_emit", timeout=900 if ctx.tier == "quick" else 2400)
    else:
        r = emit_from   # the same TLC graph walked on another implementation of the same spec
    ctx.last_emit = r
    ctx.copy_repo(overlays)
    binp = ctx.go_build(gocmd)
    outd = os.path.join(ctx.out, comp)
    os.makedirs(outd, exist_ok=True)
    genv = dict(GOENV, **(env or {}))
    # ---- E1: walk
    ctx.run([binp, "walk", "-edges", r["out"], "-out", outd, "-mode", walk_mode, "-seed", str(ctx.seed),
             "-traceevery", str(trace_every)] + list(walk_args), timeout=3000, env=genv)
    ws = read_json(os.path.join(outd, "walk_stats.json"))
    log("walk %s: nodes=%d edges=%d covered=%d paths=%d steps=%d drift=%d suspects=%d whitebox=%s" % (
        comp, ws["nodes"], ws["edges_total"], ws["edges_covered"], ws["paths"], ws["steps"], ws["drift"], len(ws["suspects"]), ws["whitebox"]))
    ctx.cov["edges_replayed"] += ws["edges_covered"]
    ctx.cov["engines"].append({"engine": "E1 graphwalk", "component": comp, "nodes": ws["nodes"], "edges_total": ws["edges_total"],
                               "edges_covered": ws["edges_covered"], "paths": ws["paths"], "steps": ws["steps"],
                               "op_count": ws["op_count"], "whitebox": ws["whitebox"]})
    ctx.cov["samples"] += ws["samples"][:2]
    kp = key_prefix or comp
    # suspects: real code disagreed with the Impl spec's prediction; the abstract spec decides
    for sp in ws["suspects"]:
        rp = read_json(sp)
        tf = sp.replace(".json", ".ndjson")
        with open(tf, "w") as f:
            for ev in rp["trace"]:
                f.write(json.dumps(ev) + "\n")
        if rp["mismatch"]["kind"] == "harness-panic":
            raise Inconclusive("the harness itself panicked (no library frame on the stack): %s" % rp["mismatch"]["actual"][:600])
        if rp["mismatch"]["kind"] in ("panic", "hang"):
            ctx.violation("%s: real code %s: %s" % (comp, "panicked" if rp["mismatch"]["kind"] == "panic" else "did not return", rp["mismatch"]["actual"]), rp,
                          key="%s/%s/%s" % (kp, rp["mismatch"]["kind"], rp["ops"][-1]["n"] if rp["ops"] else "init"))
            continue
        ok, line, n = ctx.validate_trace(specdir, trace_mod, trace_cfg, tf, tag=comp + "_susp")
        if ok:
            ctx.drift.append("%s: code differs from Impl prediction but the abstract spec accepts the trace: %s" % (comp, json.dumps(rp["mismatch"])[:300]))
        else:
            ev = rp["trace"][line - 1] if line and line <= len(rp["trace"]) else {}
            ctx.violation("%s: abstract spec rejects what the real code did at step %s (%s): expected %s, got %s" % (
                comp, line, ev.get("ev"), json.dumps(rp["mismatch"]["expected"])[:200], json.dumps(rp["mismatch"]["actual"])[:200]), rp,
                key="%s/%s/%s" % (kp, rp["mismatch"]["kind"], ev.get("ev")))
    if ws["drift"]:
        ctx.drift.append("%s: %d paths with structural drift, e.g. %s" % (comp, ws["drift"], (ws["drift_samples"] or [""])[0][:300]))
    if ws["edges_covered"] < ws["edges_total"] and not ws["suspects"]:
        raise Inconclusive("%s walk covered only %d of %d edges" % (comp, ws["edges_covered"], ws["edges_total"]))
    # ---- E2: random traces from the real code
    if rand_n <= 0:
        tf = os.path.join(outd, "walk_traces.ndjson")
        ok, line, n = ctx.validate_trace(specdir, trace_mod, trace_cfg, tf, tag=comp + "_walk")
        log("TLC trace validation %s walk_traces: %d events, %s" % (comp, n, "accepted" if ok else "REJECTED at line %s" % line))
        if ok:
            ctx.cov["traces_validated_against_impl"] += ws["traces_written"]
        else:
            start, events = locate_trace(tf, line)
            bad = events[line - start] if line - start < len(events) else {}
            rp = trace_to_replay(comp, events[: line - start + 1])
            ctx.violation("%s: abstract spec rejects event %d of a real-code trace: %s" % (comp, line - start, json.dumps(bad)[:300]), rp,
                          key="%s/trace/%s" % (kp, bad.get("ev")))
        return ws, None
    ctx.run([binp, "rand", "-out", outd, "-n", str(rand_n), "-len", str(rand_len), "-seed", str(ctx.seed)] + list(rand_args), timeout=3000, env=genv)
    rs = read_json(os.path.join(outd, "rand_stats.json"))
    ctx.cov["engines"].append({"engine": "E2 tracecheck", "component": comp, "traces": rs["traces"], "events": rs["events"], "op_count": rs["op_count"]})
    ctx.cov["samples"] += rs["samples"][:1]
    for name, ntr in (("walk_traces.ndjson", ws["traces_written"]), ("rand_traces.ndjson", rs["traces"])):
        tf = os.path.join(outd, name)
        ok, line, n = ctx.validate_trace(specdir, trace_mod, trace_cfg, tf, tag=comp + "_" + name.split("_")[0])
        log("TLC trace validation %s %s: %d events, %s" % (comp, name, n, "accepted" if ok else "REJECTED at line %s" % line))
        if ok:
            ctx.cov["traces_validated_against_impl"] += ntr
        else:
            start, events = locate_trace(tf, line)
            bad = events[line - start] if line - start < len(events) else {}
            rp = trace_to_replay(comp, events[: line - start + 1])
            rp["failing_event"] = bad
            kind = {"Panic": "panic", "Hang": "hang"}.get(bad.get("ev"), "trace")
            if bad.get("ev") == "Panic" and bad.get("inlib") is False:
                raise Inconclusive("the harness itself panicked (no library frame on the stack): %s" % json.dumps(bad)[:600])
            ctx.violation("%s: abstract spec rejects event %d of a real-code trace: %s" % (comp, line - start, json.dumps(bad)[:300]), rp,
                          key="%s/%s/%s" % (kp, kind, bad.get("ev")))
    return ws, rs


# component -> (harness cmd, overlay packages, spec dir, trace module, trace cfg)
COMPONENTS = {
    "Ring": ("ring", ["ringz"], "Ring", "RingTrace", "Trace.cfg"),
    "SyncRingSeq": ("syncringseq", ["ringz"], "SyncRingSeq", "FifoTrace", "Trace.cfg"),
    "Bits-bits": ("bits", [], "Bits", "BitsTrace", "Trace.cfg"),
    "Bits-bitmap": ("bits", [], "Bits", "BitsTrace", "Trace.cfg"),
    "Bits-dsz": ("bits", [], "Bits", "BitsTrace", "Trace.cfg"),
    "Heap-heap": ("heap", ["heapz"], "Heap", "HeapTrace", "Trace.cfg"),
    "Heap-slice": ("heap", ["heapz"], "Heap", "HeapTrace", "Trace.cfg"),
    "Heap-std": ("heap", ["heapz"], "Heap", "HeapTrace", "Trace.cfg"),
    "SkipList-skip": ("skiplist", ["listz"], "SkipList", "OrderedMapTrace", "Trace_nk6.cfg"),
    "SkipList-skipzero": ("skiplist", ["listz"], "SkipList", "OrderedMapTrace", "Trace_nk6.cfg"),
    "SkipList-cmp": ("skiplist", ["listz"], "SkipList", "OrderedMapTrace", "Trace_nk6.cfg"),
    "Roaring": ("roaring", ["setz"], "Roaring", "RoaringTrace", "Trace_thorough.cfg"),
    "FlexSlice": ("flex", [], "Slicez", "FlexTrace", "Trace.cfg"),
    "NodeQueue": ("nodequeue", ["algz"], "MultiMatch", "NodeQueueTrace", "QueueTrace.cfg"),
    "DList": ("dlist", [], "DList", "DListTrace", "Trace_thorough.cfg"),
    "SList": ("slist", [], "SList", "SListTrace", "Trace.cfg"),
}


def generic_replay(ctx, rp):
    """Re-execute the operations of a replay file on the real code built from /repo's working tree
    and let TLC judge the resulting trace against the abstract specification."""
    comp = rp["component"]
    if comp not in COMPONENTS and not rp.get("replay_ctx"):
        log("replay of component %s: re-run the check itself (%s)" % (comp, rp.get("note", "")))
        return 2
    cmd, overlays, specdir, tmod, tcfg = COMPONENTS.get(comp, (None, None, None, None, None))
    rc = rp.get("replay_ctx")
    if rc:   # recorded by the run that found the violation: same driver, trace specification, configuration, environment
        cmd, overlays, specdir, tmod, tcfg = rc["gocmd"], rc["overlays"], rc["specdir"], rc["trace_mod"], rc["trace_cfg"]
    ctx.copy_repo(overlays)
    binp = ctx.go_build(cmd)
    f = os.path.join(ctx.out, "replay.json")
    with open(f, "w") as fo:
        json.dump({"component": comp, "init": rp["init"], "ops": rp["ops"], "trace": []}, fo)
    renv = dict(GOENV)
    if comp.startswith("Bits-") or comp.startswith("Heap-") or comp.startswith("SkipList-"):
        renv["VERIF_FLAVOUR"] = comp.split("-", 1)[1]
    if comp.startswith("SkipList-"):
        renv["VERIF_FLAVOUR"] = "cmp" if comp.endswith("cmp") else "skip"
        renv["VERIF_FREE"] = "1"
        renv["VERIF_NK"] = "6"
    if rc:
        renv.update(rc.get("env", {}))
    r = ctx.run([binp, "replay", "-file", f, "-out", ctx.out], timeout=600, env=renv)
    log(r.stdout[-4000:])
    ok, line, n = ctx.validate_trace(specdir, tmod, tcfg, os.path.join(ctx.out, "replay_trace.ndjson"), tag="replay")
    if ok:
        log("replay: the abstract specification ACCEPTS what the real code does now (%d events)" % n)
        return 0
    log("replay: the abstract specification REJECTS event %s of %d" % (line, n))
    log("VIOLATION property=%s replay=%s" % (rp.get("property", ctx.pid), os.environ.get("VERIF_REPLAY_PATH", "(same file)")))
    return 1


def case_replay(ctx, rp):
    """Re-run the one case of a replay file (a case TLC printed, with what the specification expects) on the real
    functions built from the current tree."""
    rc = rp["replay_ctx"]
    case = rp.get("case")
    if not case:
        log("replay: the file holds no case; re-run the check itself")
        return 2
    ctx.copy_repo(rc.get("overlays", []))
    binp = ctx.go_build(rc["gocmd"])
    f = os.path.join(ctx.out, "one_case.txt")
    with open(f, "w") as fo:
        fo.write(json.dumps(json.dumps(case)) + "\n")
    outd = os.path.join(ctx.out, "replay")
    os.makedirs(outd, exist_ok=True)
    failed = 0
    for seed in (ctx.seed, 1, 2, 3):   # (variants of a case - masks, layouts - are chosen from the seed)
        rr = subprocess.run([binp, "-cases", f, "-out", outd, "-seed", str(seed), "-tier", rp.get("tier", "quick")] + list(rc.get("extra_args", [])),
                            capture_output=True, text=True, env=GOENV, timeout=600)
        if rr.returncode != 0:
            if ("panic:" in rr.stderr or "fatal error" in rr.stderr) and "welllog/golib" in rr.stderr.replace("golib/verifshim", ""):
                log("replay: the real code crashed the process: %s" % rr.stderr[:300])
                failed += 1
                continue
            log("replay: the case runner failed: %s" % rr.stderr[-800:])
            return 2
        st = read_json(os.path.join(outd, rc["gocmd"] + "_cases.json"))
        for m in st["mismatches"]:
            if m.get("kind") != "drift":
                log("replay: %s %s: expected %s, got %s" % (m["fn"], m["kind"], json.dumps(m["expected"])[:200], json.dumps(m["actual"])[:200]))
                failed += 1
    if failed:
        log("VIOLATION property=%s replay=%s" % (rp.get("property", ctx.pid), os.environ.get("VERIF_REPLAY_PATH", "(same file)")))
        return 1
    log("replay: the real functions now agree with the specification on this case")
    return 0


def replay_any(ctx, rp):
    """./check replay <file>: re-execute what the file records on the current tree and re-judge it."""
    rc = rp.get("replay_ctx") or {}
    if rc.get("kind") == "case":
        return case_replay(ctx, rp)
    if rp.get("component") in COMPONENTS or rc.get("trace_mod"):
        if rp.get("ops") is not None and rp.get("init") is not None:
            return generic_replay(ctx, rp)
    log("replay: this violation came from a concurrent or scenario run (schedules are not replayable from a file): re-run ./check %s" % rp.get("property", ctx.pid))
    return 2


# -------------------------------------------------------------------- concurrent components (E3 / E4)
def split_histories(path):
    """Yield lists of lines, one per history (starting at a reset event)."""
    cur = []
    with open(path) as f:
        for line in f:
            if line.startswith('{"cap"') or '"ev":"reset"' in line:
                if cur:
                    yield cur
                cur = []
            cur.append(line)
    if cur:
        yield cur


def validate_hist(ctx, specdir, module, cfg, histfile, tag, max_events=None, seed=0):
    """Validate concatenated call histories with the abstract history spec (TLC searches the
    linearization points). Returns (accepted, failing history as list of events or None, n_hist, n_events)."""
    import random
    hs = list(split_histories(histfile))
    if max_events is not None:
        total = sum(len(h) for h in hs)
        if total > max_events:
            rnd = random.Random(seed)
            rnd.shuffle(hs)
            keep, acc = [], 0
            for h in hs:
                if acc + len(h) > max_events:
                    break
                keep.append(h)
                acc += len(h)
            hs = keep
    if not hs:
        return True, None, 0, 0
    tf = os.path.join(ctx.out, tag + "_val.ndjson")
    with open(tf, "w") as f:
        for h in hs:
            f.writelines(h)
    n = sum(len(h) for h in hs)
    r = ctx.tlc(specdir, module, cfg, workers=1, timeout=1800, extra_files=[(tf, "trace.ndjson")], tag=tag)
    m = re.findall(r'"HIGHWATER", (\d+), (\d+)', r["tail"])
    if not m:
        raise Inconclusive("history validation produced no verdict (%s):\n%s" % (tag, r["tail"]))
    hw, ln = int(m[-1][0]), int(m[-1][1])
    other = [e for e in r["errors"] if "Postcondition" not in e]
    if other:
        raise Inconclusive("TLC failed while validating histories (%s):\n%s" % (tag, r["tail"]))
    ctx.cov["tlc_runs"].append({"module": module, "cfg": cfg, "trace_lines": n, "accepted": hw == ln + 1, "states": r["distinct"], "wall_s": r["wall_s"]})
    if hw == ln + 1:
        ctx.cov["events_validated"] += n
        return True, None, len(hs), n
    # locate the history containing event hw
    acc = 0
    for h in hs:
        if acc + len(h) >= hw:
            evs = [json.loads(x) for x in h]
            return False, {"history": evs, "failing_event_index": hw - acc - 1, "failing_event": evs[hw - acc - 1]}, len(hs), n
        acc += len(h)
    return False, {"history": [], "failing_event_index": -1}, len(hs), n


def conc_component(ctx, comp, specdir, mcmod, emit_cfg, gocmd, overlays, shim_files, hist_spec=("FifoHist", "FifoHist", "Hist.cfg"),
                   walk_mode="probe", sample_n=300, real_n=300, hist_budget=150000, extra_mc=(), key_prefix=None, maxlen=60,
                   explore_budget=3000, sync_files=(), blocking_api=True):
    """E3 (deterministic scheduler): every edge of the step-level TLC graph replayed on the real code;
    divergences explored and judged by the abstract history spec; sampled schedules; E4 real
    goroutines under the race detector."""
    kp = key_prefix or comp
    hs_dir, hs_mod, hs_cfg = hist_spec
    for (mod, cfg) in extra_mc:
        ctx.model_check(specdir, mod, cfg)
    r = ctx.model_check(specdir, mcmod, emit_cfg, emit=True, tag=comp + "_emit", timeout=1800)
    ctx.copy_repo(overlays)
    ctx.sync_files = tuple(sync_files)
    ctx.add_shim(shim_files)
    binp = ctx.go_build(gocmd)
    outd = os.path.join(ctx.out, comp)
    os.makedirs(outd, exist_ok=True)
    ws = {"suspects": [], "drift": 0}
    def judge(histfile, tag, what, n_label):
        ok, bad, nh, nev = validate_hist(ctx, hs_dir, hs_mod, hs_cfg, histfile, tag, max_events=hist_budget, seed=ctx.seed)
        log("TLC history validation %s %s: %d histories, %d events, %s" % (comp, what, nh, nev, "accepted" if ok else "REJECTED"))
        if ok:
            ctx.cov["traces_validated_against_impl"] += nh
        else:
            fe = bad.get("failing_event", {})
            ctx.violation("%s (%s): the abstract FIFO history spec rejects event %d: %s" % (comp, what, bad["failing_event_index"], json.dumps(fe)[:300]),
                          dict(bad, component=comp + "Hist", how=what), key="%s/hist/%s/%s" % (kp, fe.get("ev"), fe.get("op", "")))
        return ok
    def e3():
        nonlocal ws
        # ---- model -> code
        ctx.run([binp, "walk", "-edges", r["out"], "-out", outd, "-mode", walk_mode, "-seed", str(ctx.seed), "-traceevery", "1000000",
                 "-maxlen", str(maxlen), "-maxsusp", "3"], timeout=900 if ctx.tier == "quick" else 3000)
        ws = read_json(os.path.join(outd, "walk_stats.json"))
        log("walk %s: nodes=%d edges=%d covered=%d paths=%d steps=%d drift=%d suspects=%d whitebox=%s" % (
            comp, ws["nodes"], ws["edges_total"], ws["edges_covered"], ws["paths"], ws["steps"], ws["drift"], len(ws["suspects"]), ws["whitebox"]))
        ctx.cov["edges_replayed"] += ws["edges_covered"]
        ctx.cov["engines"].append({"engine": "E3 detsched replay of TLC edges", "component": comp, "nodes": ws["nodes"], "edges_total": ws["edges_total"],
                                   "edges_covered": ws["edges_covered"], "paths": ws["paths"], "steps": ws["steps"], "whitebox": ws["whitebox"]})
        ctx.cov["samples"] += ws["samples"][:1]
        for i, sp in enumerate(ws["suspects"]):
            rp = read_json(sp)
            mm = rp["mismatch"]
            if mm["kind"] in ("panic", "hang"):
                ctx.violation("%s: real code %s under schedule: %s" % (comp, mm["kind"], mm["actual"]), rp, key="%s/%s" % (kp, mm["kind"]))
                continue
            exd = os.path.join(outd, "explore%d" % i)
            os.makedirs(exd, exist_ok=True)
            ctx.run([binp, "explore", "-file", sp, "-out", exd, "-budget", str(explore_budget), "-maxlen", "14"], timeout=1200)
            es = read_json(os.path.join(exd, "explore_stats.json"))
            ctx.cov["engines"].append({"engine": "E3 explore from divergence", "component": comp, "executions": es["executions"], "mismatch": mm})
            ok = judge(os.path.join(exd, "explore_hist.ndjson"), comp + "_explore%d" % i, "continuations of a schedule on which the code left the Impl spec", es["histories"])
            if ok:
                ctx.drift.append("%s: code differs from the step-level Impl spec (%s) but %d explored continuations satisfy the abstract spec" % (comp, json.dumps(mm)[:200], es["executions"]))
            else:
                break
        if ws["drift"]:
            ctx.drift.append("%s: %d paths with structural drift, e.g. %s" % (comp, ws["drift"], (ws["drift_samples"] or [""])[0][:300]))
        judge(os.path.join(outd, "walk_hist.ndjson"), comp + "_walkhist", "histories of the replayed TLC paths", 0)
        # ---- code -> model: sampled schedules
        ctx.run([binp, "sample", "-out", outd, "-n", str(sample_n), "-seed", str(ctx.seed)], timeout=1800)
        ss = read_json(os.path.join(outd, "sample_stats.json"))
        ctx.cov["engines"].append({"engine": "E3 sampled schedules", "component": comp, "histories": ss["histories"], "steps": ss["steps"]})
        ctx.cov["samples"] += ss["samples"][:1]
        judge(os.path.join(outd, "sample_hist.ndjson"), comp + "_sample", "sampled schedules", ss["histories"])
    try:
        e3()
    except (Inconclusive, subprocess.TimeoutExpired) as e:
        # the deterministic-scheduler stage could not finish (a driver that hangs or dies without a library frame to
        # blame): the real-goroutine stages still run; without a verdict from them the check ends inconclusive
        if not ctx.violations:
            ctx.deferred_inconclusive = "deterministic-scheduler stage of %s did not finish: %s" % (comp, str(e)[:600])
            log("NOTE: " + ctx.deferred_inconclusive)
    # ---- E4: real goroutines, race detector
    if ctx.violations:
        return ws   # already decided on deterministic executions; a broken container may also hang real goroutines
    rbin = ctx.go_build(gocmd, name=gocmd + "_race", race=True)
    env = dict(GOENV, GORACE="halt_on_error=0 exitcode=66")
    e4_limit = 400 if ctx.tier == "quick" else 1500
    proc = subprocess.Popen([rbin, "real", "-out", outd, "-n", str(real_n), "-seed", str(ctx.seed)], stdout=subprocess.PIPE, stderr=subprocess.PIPE, text=True, env=env)
    try:
        so, se = proc.communicate(timeout=e4_limit)
        rr = subprocess.CompletedProcess(proc.args, proc.returncode, so, se)
    except subprocess.TimeoutExpired:
        # the run is wedged: ask the Go runtime for the stacks of all goroutines (SIGQUIT) and see where they wait
        import signal
        proc.send_signal(signal.SIGQUIT)
        try:
            so, se = proc.communicate(timeout=30)
        except subprocess.TimeoutExpired:
            proc.kill()
            so, se = proc.communicate()
        stuck = stuck_in_library(se)
        if stuck and not blocking_api:
            # the component has no call that is allowed to wait for another goroutine for ever: goroutines parked inside
            # its methods while the run makes no progress are a deadlock of the real code
            ctx.violation("%s: the real-goroutine run deadlocked with goroutines parked inside the library: %s" % (comp, "; ".join(stuck[:3])),
                          {"component": comp + "Hang", "stuck": stuck[:10], "dump": se[:6000], "note": "re-run the check"}, key="%s/hang" % kp)
            return ws
        raise Inconclusive("real-concurrency run did not finish within %d s" % e4_limit)
    if "DATA RACE" in rr.stderr:
        rep = rr.stderr[rr.stderr.index("WARNING: DATA RACE"):][:3000]
        ctx.violation("%s: the Go race detector reports a data race" % comp, {"component": comp + "Race", "report": rep, "note": "re-run the check"}, key="%s/race" % kp)
    elif rr.returncode != 0:
        raise Inconclusive("real-concurrency run failed: %s" % rr.stderr[-2000:])
    if os.path.exists(os.path.join(outd, "real_stats.json")):
        rs = read_json(os.path.join(outd, "real_stats.json"))
        ctx.cov["engines"].append({"engine": "E4 real goroutines (-race)", "component": comp, "histories": rs["histories"], "events": rs["events"]})
        judge(os.path.join(outd, "real_hist.ndjson"), comp + "_real", "real goroutines under the race detector", rs["histories"])
    return ws


def rand_only(ctx, comp, specdir, trace_mod, trace_cfg, gocmd, n, ln, env=None, overlays=None):
    """E2 alone: seeded random histories from the real code validated by TLC."""
    ctx.replay_ctx = {"gocmd": gocmd, "overlays": list(overlays if overlays is not None else getattr(ctx, "overlays", []) or []),
                      "specdir": specdir, "trace_mod": trace_mod, "trace_cfg": trace_cfg, "env": dict(env or {})}
    ctx.copy_repo(overlays if overlays is not None else getattr(ctx, "overlays", []))
    binp = os.path.join(ctx.bin, gocmd)
    if not os.path.exists(binp):
        binp = ctx.go_build(gocmd)
    outd = os.path.join(ctx.out, comp + "_rand")
    os.makedirs(outd, exist_ok=True)
    ctx.run([binp, "rand", "-out", outd, "-n", str(n), "-len", str(ln), "-seed", str(ctx.seed)], timeout=3000, env=dict(GOENV, **(env or {})))
    rs = read_json(os.path.join(outd, "rand_stats.json"))
    ctx.cov["engines"].append({"engine": "E2 tracecheck", "component": comp, "traces": rs["traces"], "events": rs["events"], "op_count": rs["op_count"]})
    tf = os.path.join(outd, "rand_traces.ndjson")
    ok, line, nl = ctx.validate_trace(specdir, trace_mod, trace_cfg, tf, tag=comp + "_rand")
    log("TLC trace validation %s random histories: %d events, %s" % (comp, nl, "accepted" if ok else "REJECTED at line %s" % line))
    if ok:
        ctx.cov["traces_validated_against_impl"] += rs["traces"]
    else:
        start, events = locate_trace(tf, line)
        bad = events[line - start] if line - start < len(events) else {}
        rp = trace_to_replay(comp, events[: line - start + 1])
        rp["failing_event"] = bad
        kind = {"Panic": "panic", "Hang": "hang"}.get(bad.get("ev"), "trace")
        if bad.get("ev") == "Panic" and bad.get("inlib") is False:
            raise Inconclusive("the harness itself panicked (no library frame on the stack): %s" % json.dumps(bad)[:600])
        ctx.violation("%s: abstract spec rejects event %d of a real-code trace: %s" % (comp, line - start, json.dumps(bad)[:300]), rp,
                      key="%s/%s/%s" % (comp, kind, bad.get("ev")))


# -------------------------------------------------------------------- E5: TLC-generated cases
def case_component(ctx, name, specdir, module, cfgs, gocmd, overlays=(), extra_args=(), timeout=3000, tlc_timeout=1800, workers=1):
    """TLC evaluates the TLA+ definitions on every generated input and prints (input, expected)
    cases; the Go runner executes the real functions and compares. A disagreement contradicts the
    abstract definition directly: VIOLATION."""
    ctx.replay_ctx = {"kind": "case", "gocmd": gocmd, "overlays": list(overlays), "extra_args": list(extra_args)}
    outs = []
    ncases = 0
    for cfg in cfgs:
        r = ctx.tlc(specdir, module, cfg, workers=workers, timeout=tlc_timeout, tag="%s_%s" % (name, os.path.splitext(cfg)[0]),
                    extra_args=["-seed", str(ctx.seed)])
        if r["errors"]:
            raise Inconclusive("TLC failed while generating cases (%s %s):\n%s" % (module, cfg, r["tail"]))
        n = int(subprocess.run(["grep", "-c", '^"{', r["out"]], capture_output=True, text=True).stdout.strip() or 0)
        if n == 0:
            raise Inconclusive("TLC generated no cases (%s %s):\n%s" % (module, cfg, r["tail"]))
        ncases += n
        outs.append(r["out"])
        ctx.cov["tlc_runs"].append({"module": module, "cfg": cfg, "cases": n, "wall_s": r["wall_s"]})
        log("TLC %s %s: %d cases, %.1fs" % (module, cfg, n, r["wall_s"]))
    ctx.cov["states"] += ncases
    ctx.cov["transitions"] += ncases
    ctx.copy_repo(overlays)
    binp = ctx.go_build(gocmd)
    outd = os.path.join(ctx.out, name)
    os.makedirs(outd, exist_ok=True)
    rr = subprocess.run([binp, "-cases", ",".join(outs), "-out", outd, "-seed", str(ctx.seed), "-tier", ctx.tier] + list(extra_args),
                        capture_output=True, text=True, env=GOENV, timeout=timeout)
    if rr.returncode != 0:
        if "panic:" in rr.stderr or "fatal error" in rr.stderr:
            inlib = "welllog/golib" in rr.stderr.replace("golib/verifshim", "")
            if inlib:
                ctx.violation("%s: the real code crashed the process: %s" % (name, rr.stderr[:400]), {"component": name, "stderr": rr.stderr[:4000]}, key="%s/crash" % name)
                return None
        raise Inconclusive("case runner %s failed: %s" % (gocmd, rr.stderr[-2000:]))
    st = read_json(os.path.join(outd, gocmd + "_cases.json"))
    log("cases %s: %d cases, %d calls of real functions, %d mismatches" % (name, st["cases"], st["calls"], st["n_mismatch"]))
    ctx.cov["traces_validated_against_impl"] += st["cases"]
    ctx.cov["engines"].append({"engine": "E5 caserun", "component": name, "cases": st["cases"], "calls": st["calls"], "per_fn": st["per_fn"],
                               "nontrivial": st["distinct_nontrivial"], "extra": st.get("extra")})
    ctx.cov["samples"] += st["samples"][:3]
    ctx.cov["evaluations"] = ctx.cov.get("evaluations", 0) + st["calls"]
    ctx.cov["distinct_nontrivial"] = ctx.cov.get("distinct_nontrivial", 0) + st["distinct_nontrivial"]
    ctx.cov.setdefault("rule", "every input of the bounded grammar is enumerated by TLC (exhaustive within the stated bounds); each case is concretised and executed on the real function; non-trivial = cases counted by the runner as exercising more than the empty/identity path")
    for m in st["mismatches"]:
        if m.get("kind") == "drift":
            # the code differs from the implementation-shaped specification where the property leaves the result open
            ctx.drift.append("%s.%s: code %s, step-level spec %s on input %s" % (name, m["fn"], json.dumps(m["actual"])[:100], json.dumps(m["expected"])[:100], json.dumps(m["input"])[:160]))
            continue
        if isinstance(m.get("actual"), str) and m["actual"].startswith("HARNESS:"):
            raise Inconclusive("the harness itself panicked: %s" % m["actual"][:800])
        ctx.violation("%s.%s: %s: expected %s, got %s on input %s" % (name, m["fn"], m["kind"], json.dumps(m["expected"])[:150], json.dumps(m["actual"])[:150], json.dumps(m["input"])[:200]),
                      dict(m, component=name + "Case"), key="%s/%s/%s" % (name, m["fn"], m["kind"]))
    return st
