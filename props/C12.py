"""C12 - SafeKV is data-race free and every operation is atomic."""
import os, subprocess, json, vlib
from vlib import GOENV, Inconclusive, log, read_json

def run(ctx):
    quick = ctx.tier == "quick"
    # design level: the lock discipline admits no data race (3 goroutines, every assignment of the 16 methods)
    ctx.model_check("SafeKV", "SafeKVImpl", "MC_lock.cfg")
    # vacuity guard: with the unlocked len() of the pinned commit TLC must find the race (finding F4)
    r = ctx.tlc("SafeKV", "SafeKVImpl", "MC_pinned.cfg", workers=4, timeout=600)
    if not any("NoRace" in e for e in r["errors"]):
        raise Inconclusive("sanity: NoRace does not catch the unlocked len() of the pinned Keys/Values:\n" + r["tail"])
    ctx.cov["sanity"] = "LenOutsideLock=TRUE (Keys/Values of the pinned commit): TLC reports the race Set || Keys after %d states" % r["distinct"]
    # binding: real goroutines on a -race build; histories judged by TLC
    ctx.copy_repo([])
    ctx.add_shim([])
    rbin = ctx.go_build("safekv", name="safekv_race", race=True)
    outd = os.path.join(ctx.out, "SafeKV")
    os.makedirs(outd, exist_ok=True)
    n = 6000 if quick else 60000
    env = dict(GOENV, GORACE="halt_on_error=0 exitcode=66")
    try:
        rr = subprocess.run([rbin, "real", "-out", outd, "-n", str(n), "-seed", str(ctx.seed)], capture_output=True, text=True, env=env, timeout=1500)
    except subprocess.TimeoutExpired:
        raise Inconclusive("real-concurrency run did not finish")
    if "DATA RACE" in rr.stderr:
        rep = rr.stderr[rr.stderr.index("WARNING: DATA RACE"):][:3000]
        import re
        fn = re.findall(r"mapz\.\(\*SafeKV\[[^\]]*\]\)\.(\w+)", rep)
        ctx.violation("SafeKV: the Go race detector reports a data race (%s)" % ", ".join(sorted(set(fn)))[:200],
                      {"component": "SafeKVRace", "report": rep, "note": "re-run the check"}, key="SafeKV/race/" + "+".join(sorted(set(fn))))
    elif rr.returncode != 0:
        raise Inconclusive("real-concurrency run failed: %s" % rr.stderr[-2000:])
    rs = read_json(os.path.join(outd, "real_stats.json"))
    ctx.cov["engines"].append({"engine": "E4 real goroutines (-race)", "component": "SafeKV", "histories": rs["histories"], "events": rs["events"]})
    ok, bad, nh, nev = vlib.validate_hist(ctx, "SafeKV", "AtomicMapHist", "Hist.cfg", os.path.join(outd, "real_hist.ndjson"), "SafeKV_real",
                                          max_events=400000 if quick else 4000000, seed=ctx.seed)
    log("TLC history validation SafeKV real goroutines: %d histories, %d events, %s" % (nh, nev, "accepted" if ok else "REJECTED"))
    if ok:
        ctx.cov["traces_validated_against_impl"] += nh
        hs = list(vlib.split_histories(os.path.join(outd, "real_hist.ndjson")))
        ctx.cov["samples"].append([json.loads(x) for x in hs[0][:14]])
    else:
        fe = bad.get("failing_event", {})
        ctx.violation("SafeKV: the abstract atomic-map spec rejects event %d of a history: %s" % (bad["failing_event_index"], json.dumps(fe)[:300]),
                      dict(bad, component="SafeKVHist"), key="SafeKV/hist/%s/%s" % (fe.get("ev"), fe.get("op", "")))
    ctx.assumptions += ["int keys 1..4 and int values", "data-race freedom and atomicity on the code are observations of the race detector and of TLC-validated histories of real goroutine executions (no deterministic scheduling of SafeKV yet); the lock discipline itself is model-checked exhaustively for 3 goroutines over all 16 methods",
                        "Map(fn) is driven with one callback (add 100 to every value and report what it saw)"]

def replay(ctx, rp):
    log("replay: re-run the check: ./check C12")
    return 2
