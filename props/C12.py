"""C12 - SafeKV is data-race free and every operation is atomic."""
import os, subprocess, json, vlib
from vlib import GOENV, Inconclusive, log, read_json

def run(ctx):
    quick = ctx.tier == "quick"
    # design level: the lock discipline admits no data race (3 goroutines, every assignment of the 16 methods)
    ctx.model_check("SafeKV", "SafeKVImpl", "MC_lock.cfg")
    # vacuity guard: with the unlocked len() of the pinned commit TLC must find the race (finding F4)
    r = ctx.tlc("SafeKV", "SafeKVImpl", "MC_pinned.cfg", workers=4, timeout=600)
    if not any("NoRace" in e for e in r["errors"]):
        raise Inconclusive("sanity: NoRace does not catch the unlocked len() of the pinned Keys/Values:\n" + r["tail"])
    ctx.cov["sanity"] = "LenOutsideLock=TRUE (Keys/Values of the pinned commit): TLC reports the race Set || Keys after %d states" % r["distinct"]
    # binding: deterministic scheduler (lock operations are park points; a goroutine that cannot get the lock is
    # not granted), every edge of the step-level graph replayed, divergences explored, schedules sampled; then real
    # goroutines on a -race build. All histories are judged by TLC against AtomicMapHist.
    extra = [] if quick else [("MCSafeKVStep", "MC_step_thorough.cfg")]
    vlib.conc_component(ctx, "SafeKV", "SafeKV", "MCSafeKVStep", "MC_step_quick.cfg", "safekv", ["mapz"], ["mapz/safekv.go"],
                        hist_spec=("SafeKV", "AtomicMapHist", "Hist.cfg"), extra_mc=extra, walk_mode="cover" if quick else "probe",
                        sample_n=600 if quick else 10000, real_n=6000 if quick else 60000,
                        hist_budget=300000 if quick else 3000000, explore_budget=3000 if quick else 20000,
                        sync_files=["mapz/safekv.go"], blocking_api=False)
    if not ctx.violations:
        bulk(ctx, 4 if quick else 40)
    ctx.assumptions += ["int keys 1..4 and int values", "atomicity on the code: every lock-order interleaving of the step-level model (2x1 over 10 calls, 2x2 and 3x1 over the mutating core) is replayed on the real SafeKV under a deterministic scheduler whose sync shim turns RWMutex operations into park points; data-race freedom is an observation of the race detector on real goroutines",
                        "Map(fn) is driven with one callback (add 100 to every value and report what it saw)"]

def bulk(ctx, rounds):
    """Maps of thousands of entries (size-dependent paths): single-writer keys, real goroutines on a -race build,
    the completed calls and the quiescent view validated by TLC against OwnedKeys.tla."""
    rbin = ctx.go_build("safekv", name="safekv_race", race=True)
    outd = os.path.join(ctx.out, "SafeKV")
    os.makedirs(outd, exist_ok=True)
    env = dict(GOENV, GORACE="halt_on_error=0 exitcode=66")
    try:
        rr = subprocess.run([rbin, "bulk", "-out", outd, "-rounds", str(rounds), "-seed", str(ctx.seed)], capture_output=True, text=True, env=env, timeout=900)
    except subprocess.TimeoutExpired:
        raise Inconclusive("large-map scenario did not finish within 900 s")
    if "DATA RACE" in rr.stderr:
        rep = rr.stderr[rr.stderr.index("WARNING: DATA RACE"):][:3000]
        ctx.violation("SafeKV (large maps): the Go race detector reports a data race", {"component": "SafeKVRace", "report": rep}, key="SafeKV/race")
        return
    if rr.returncode != 0:
        if "panic:" in rr.stderr and "welllog/golib/mapz" in rr.stderr:
            ctx.violation("SafeKV (large maps): the real code crashed: %s" % rr.stderr[:400], {"component": "SafeKVBulk", "stderr": rr.stderr[:4000]}, key="SafeKV/crash")
            return
        raise Inconclusive("large-map scenario failed: %s" % rr.stderr[-2000:])
    st = read_json(os.path.join(outd, "bulk_stats.json"))
    tf = os.path.join(outd, "bulk_trace.ndjson")
    ok, line, n = ctx.validate_trace("SafeKV", "OwnedKeys", "Owned.cfg", tf, tag="SafeKV_bulk", timeout=1800)
    log("TLC trace validation SafeKV large maps: %d scenarios, %d events, %s" % (st["scenarios"], n, "accepted" if ok else "REJECTED at line %s" % line))
    ctx.cov["engines"].append({"engine": "E4 real goroutines (-race), large single-writer maps", "component": "SafeKV", "scenarios": st["scenarios"], "events": n})
    if ok:
        ctx.cov["traces_validated_against_impl"] += st["scenarios"]
    else:
        with open(tf) as f:
            for i, l in enumerate(f, 1):
                if i == line:
                    bad = l.strip()[:400]
        ctx.violation("SafeKV (large maps, single-writer keys): OwnedKeys rejects event %s: %s" % (line, bad), {"component": "SafeKVBulk", "line": line, "event": bad, "note": "re-run the check"}, key="SafeKV/bulk")


def replay(ctx, rp):
    return vlib.replay_any(ctx, rp)
