"""C15 - Re-implemented standard routines agree with the Go standard library."""
import vlib

def run(ctx):
    vlib.case_component(ctx, "StdRoutines", "StdRoutines", "StdRoutines", ["MC.cfg"], "c15", timeout=6000)
    ctx.assumptions += ["the Go standard library (strconv, encoding/hex, encoding/base64, crypto/*, net) is the specification the property names and therefore the oracle; TLC supplies the input grammar (ParseUint token sequences x bases x bit sizes, hex character classes with the full error-precedence specification, chunked readers) and the case tables",
                        "IPv4 round trip: strided sweep in the quick tier, all 2^32 addresses in the thorough tier"]

def replay(ctx, rp):
    return vlib.replay_any(ctx, rp)
