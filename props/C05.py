"""C05 - Trie multi-pattern queries are exact."""
import vlib

def run(ctx):
    cfgs = ["MC_valid.cfg", "MC_bytes.cfg"] if ctx.tier == "quick" else ["MC_valid_t.cfg", "MC_bytes_t.cfg"]
    vlib.case_component(ctx, "Trie", "MultiMatch", "MultiMatch", cfgs, "c05", extra_args=["-prop", "C05"], tlc_timeout=3000, overlays=["algz"])
    # the automaton itself: breadth-first construction of the failure links and the scan loop as a step-level spec
    # (TLC: every link is the longest proper suffix that is a node; the scan refines Occ); the link table of every
    # pattern set is compared with the links of the real trie under every build schedule (white box; drift-level)
    vlib.case_component(ctx, "AhoLinks", "MultiMatch", "AhoImpl", ["MC_aho_quick.cfg", "MC_aho_thorough.cfg"] if ctx.tier == "quick" else ["MC_aho_quick.cfg", "MC_aho_thorough.cfg", "MC_aho_thorough2.cfg"], "c05",
                        extra_args=["-prop", "C05"], tlc_timeout=3000, overlays=["algz"], workers=8)
    # the explicit-stack depth-first enumeration of PrefixSearch / FuzzySearch with its shared byte buffer, step by step
    # (TLC: no fault, frames carry the byte offset of their rune, truncation on rune boundaries, every reported string a
    # pattern at all times, final result exact, termination); the ordered result list of every (pattern set, key, mode)
    # is compared with what the real functions return.  Vacuity guard: the variant whose frames carry rune counts
    # (finding F8) must be rejected.
    r = ctx.tlc("MultiMatch", "TrieDfs", "MC_dfs_pinned.cfg", workers=4, timeout=900)
    if not any("RetSoundU" in e for e in r["errors"]):
        raise vlib.Inconclusive("sanity: TrieDfs does not reject the rune-count variant of the backtracking:\n" + r["tail"])
    ctx.cov["sanity_dfs"] = "ByteOffsets=FALSE (frames carry rune counts, as at the pinned commit): TLC reports RetSoundU violated"
    vlib.case_component(ctx, "TrieDfs", "MultiMatch", "TrieDfs", ["MC_dfs_quick.cfg"] if ctx.tier == "quick" else ["MC_dfs_thorough.cfg"], "c05",
                        extra_args=["-prop", "C05"], tlc_timeout=3000, overlays=["algz"], workers=8)
    # the growable ring queue of the failure-link construction, as a state machine of its own (white box only)
    try:
        vlib.seq_component(ctx, "NodeQueue", "MultiMatch", "NodeQueue", "MC_queue.cfg", "NodeQueueTrace", "QueueTrace.cfg", "nodequeue", ["algz"],
                           rand_n=100 if ctx.tier == "quick" else 2000, rand_len=80)
    except vlib.Inconclusive as e:
        if ctx.whitebox and "go build" not in str(e):
            raise
        ctx.drift.append("NodeQueue: the export file for the unexported trieNodeQueue does not fit the current tree; the queue is covered through the wide-trie query cases only (%s)" % str(e)[:200])
    ctx.assumptions += ["patterns are drawn from a pool of 15 patterns (shared prefixes, suffix/infix relations, 1-4 byte runes, U+FFFD) in sets of <= 2 (quick) / 3 (thorough); texts are all rune sequences over {a, b, zhong, shi} and all byte sequences over 8 bytes (incl. 0xFF and truncated runes) up to 4 / 5 symbols",
                        "patterns are also inserted in reverse order with a duplicate and an empty pattern"]

def replay(ctx, rp):
    return vlib.replay_any(ctx, rp)
