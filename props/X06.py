"""X06 (extra, not one of the listed properties) - ctxz.WithoutCancel inside chains of contexts."""
import vlib

def run(ctx):
    vlib.case_component(ctx, "CtxTree", "Extras", "CtxTree", ["MC_ctx.cfg" if ctx.tier == "quick" else "MC_ctx_thorough.cfg"], "xmisc", workers=1)
    ctx.assumptions += ["chains of up to 4 (5) layers over WithCancel, WithDeadline (future / past), WithValue (two keys, one overridden) and WithoutCancel, at least one WithoutCancel layer; every order of cancelling the cancellable layers",
                        "TLC checks ShieldHolds, FlowsDown, ValuesThrough and the action property Monotone on the specification and prints the observation of every layer in every reachable state; the real contexts must show exactly that"]

def replay(ctx, rp):
    return vlib.replay_any(ctx, rp)
