"""C02 - SkipList and SkipListWithCmp behave as an ordered map."""
import vlib

def run(ctx):
    quick = ctx.tier == "quick"
    nk = "3" if quick else "4"
    tcfg = "Trace_nk3.cfg" if quick else "Trace_nk4.cfg"
    q = "quick" if quick else "thorough"
    common = dict(walk_mode="probe" if quick else "cover", trace_every=20 if quick else 50)
    # constructed SkipList: tower heights scripted through the list's random source, structure compared
    vlib.seq_component(ctx, "SkipList-skip", "SkipList", "SkipListImpl", "MC_%s_init.cfg" % q, "OrderedMapTrace", tcfg, "skiplist", ["listz"],
                       rand_n=0, env={"VERIF_FLAVOUR": "skip", "VERIF_NK": nk}, **common)
    init_graph = ctx.last_emit
    # SkipListWithCmp under rotating total orders (same graph)
    vlib.seq_component(ctx, "SkipList-cmp", "SkipList", "SkipListImpl", None, "OrderedMapTrace", tcfg, "skiplist", ["listz"],
                       rand_n=0, env={"VERIF_FLAVOUR": "cmp", "VERIF_NK": nk}, emit_from=init_graph, **common)
    # the tallest towers the level draw can produce (height 32 of 32): both list types
    for fl in ("skip", "cmp"):
        vlib.seq_component(ctx, "SkipList-%s-tall" % fl, "SkipList", "SkipListImpl", "MC_tall_init.cfg" if fl == "skip" else None, "OrderedMapTrace", "Trace_nk2.cfg",
                           "skiplist", ["listz"], rand_n=0, env={"VERIF_FLAVOUR": fl, "VERIF_NK": "2"},
                           emit_from=None if fl == "skip" else ctx.last_emit, walk_mode="cover", trace_every=20)
    # zero-value SkipList (before and after Clear): the list draws its own heights, observations only
    vlib.seq_component(ctx, "SkipList-skipzero", "SkipList", "SkipListImpl", "MC_%s.cfg" % q, "OrderedMapTrace", tcfg, "skiplist", ["listz"],
                       rand_n=0, env={"VERIF_FLAVOUR": "skip", "VERIF_NK": nk, "VERIF_FREE": "1"}, **common)
    # random histories over 6 keys with the lists' own randomness (zero-value and constructed, both types)
    for fl in ("skip", "cmp"):
        vlib.rand_only(ctx, "SkipList-" + fl, "SkipList", "OrderedMapTrace", "Trace_nk6.cfg", "skiplist",
                       n=150 if quick else 4000, ln=120 if quick else 200, env={"VERIF_FLAVOUR": fl, "VERIF_RAND_NK": "6", "VERIF_NK": "6"})
    # larger lists (48 keys: towers of every height the draw produces in practice, long level chains)
    for fl in ("skip", "cmp"):
        vlib.rand_only(ctx, "SkipList-%s-48" % fl, "SkipList", "OrderedMapTrace", "Trace_nk48.cfg", "skiplist",
                       n=12 if quick else 400, ln=200 if quick else 500, env={"VERIF_FLAVOUR": fl, "VERIF_RAND_NK": "48", "VERIF_NK": "48"})
    ctx.assumptions += ["int keys and values", "tower heights are scripted by replacing the list's private random source through an add-only export file in the scratch copy (black-box fallback: own randomness)",
                        "a zero-value SkipList is never initialised by the harness: its first insert draws its own height, so zero-start paths are compared on observations only",
                        "SkipListWithCmp is driven under permutations of the key order (one per path)"]

def replay(ctx, rp):
    return vlib.replay_any(ctx, rp)
