"""C13 - DList and SList keep exact sequence semantics with stable node handles."""
import vlib

def run(ctx):
    quick = ctx.tier == "quick"
    vlib.seq_component(ctx, "DList", "DList", "DList", "MC_quick.cfg" if quick else "MC_thorough.cfg",
                       "DListTrace", "Trace_quick.cfg" if quick else "Trace_thorough.cfg", "dlist", [],
                       walk_mode="probe" if quick else "cover", rand_n=0, trace_every=1 if quick else 3)
    vlib.seq_component(ctx, "SList", "SList", "SList", "MC_quick.cfg" if quick else "MC_thorough.cfg",
                       "SListTrace", "Trace.cfg", "slist", [], walk_mode="probe" if quick else "cover",
                       rand_n=200 if quick else 3000, rand_len=80 if quick else 150)
    ctx.assumptions += ["int values", "node-inserting variants are driven only with nodes that are in no list (inserting a linked node is undefined in container/list terms)",
                        "every operation is mirrored on container/list; its front-to-back values are part of each observation"]

def replay(ctx, rp):
    return vlib.replay_any(ctx, rp)
