"""X05 (extra, not one of the listed properties) - mapz.KV and mapz.Keys / Values behave as a finite map."""
import vlib

def run(ctx):
    quick = ctx.tier == "quick"
    vlib.seq_component(ctx, "KV", "Extras", "KVMap", "MC_kv.cfg", "KVMapTrace", "KVMapTrace.cfg", "xkv", [], walk_mode="cover",
                       rand_n=100 if quick else 1000, rand_len=60)
    ctx.assumptions += ["int keys 1..3 and values 1..2; enumerations compared as sorted lists"]

def replay(ctx, rp):
    return vlib.replay_any(ctx, rp)
