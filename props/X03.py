"""X03 (extra, not one of the listed properties) - goz.Recover: order of panic handler and cleanups, what escapes."""
import vlib

def run(ctx):
    vlib.case_component(ctx, "Recover", "Extras", "Recover", ["MC_recover.cfg"], "xmisc")
    ctx.assumptions += ["scenarios: fn returns / panics / runtime.Goexit; panicFn absent / present / present and panicking; up to 3 cleanups each returning or panicking (all 135 combinations); TLC checks HandlerFirst, CleanupOrder, NoEscape, AllCleanups and termination on the specification and prints the event log of every scenario; the real Recover must produce exactly that log"]

def replay(ctx, rp):
    return vlib.replay_any(ctx, rp)
