"""C01 - SyncRing is a linearizable bounded MPMC FIFO queue."""
import vlib

SHIM = ["ringz/sync.go"]

def run(ctx):
    quick = ctx.tier == "quick"
    extra = [] if quick else [("MCSyncRing", "MC_thorough.cfg")]
    vlib.conc_component(ctx, "SyncRing", "SyncRing", "MCSyncRing", "MC_quick.cfg", "syncring", ["ringz"], SHIM,
                        extra_mc=extra, walk_mode="cover" if quick else "probe",
                        sample_n=500 if quick else 8000, real_n=500 if quick else 10000,
                        hist_budget=120000 if quick else 1500000, explore_budget=3000 if quick else 20000)
    # "every capacity": rounding to a power of two over the whole range of requested capacities
    vlib.case_component(ctx, "SyncRingCap", "SyncRingSeq", "CapCases", ["MC_cap.cfg"], "c10cap")
    ctx.assumptions += ["int elements", "PushWait/PopWait are driven with maxWait 0 and <0 only (positive durations are wall-clock behaviour)",
                        "the real ring is placed at 2^32-M+Base through an add-only export file in the scratch copy, so the model's wrap modulo M coincides with the real 32-bit wrap",
                        "data-race freedom is observed by the Go race detector on real goroutines (plain accesses are invisible to the scheduler shim)"]

def replay(ctx, rp):
    vlib.log("replay: concurrent histories are re-judged by re-running the check: ./check C01")
    return 2
