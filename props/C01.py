"""C01 - SyncRing is a linearizable bounded MPMC FIFO queue."""
import vlib

SHIM = ["ringz/sync.go"]

def ticket_proof(ctx, quick):
    """Unbounded design argument for the ticket protocol (TicketRing.tla): IndInv is inductive (Apalache, SMT), holds
    initially, implies Bounded / SlotExclusion / Tickets; TLC cross-checks the same module exhaustively up to a bound.
    Vacuity guards: IndInit is satisfiable far from the initial state, and two broken variants of the protocol are
    NOT inductive (Apalache) and violate Safety (TLC)."""
    ind = ["--init=IndInit", "--inv=IndInv", "--length=1"]
    ctx.model_check("TicketRing", "TicketRing", "MC.cfg", tag="ticket_tlc")
    ctx.apalache("TicketRing", "TicketRing", ["--cinit=CInit32", "--init=Init", "--inv=IndInv", "--length=0"])
    ctx.apalache("TicketRing", "TicketRing", ["--cinit=CInit32"] + ind)
    ctx.apalache("TicketRing", "TicketRing", ["--cinit=CInit32", "--init=IndInit", "--inv=Safety", "--length=0"])
    ctx.apalache("TicketRing", "TicketRing", ["--cinit=CInit32", "--init=IndInit", "--inv=NotThere", "--length=0"], expect_error=True)
    if not quick:
        for ci in ("CInit24", "CInit34"):
            ctx.apalache("TicketRing", "TicketRing", ["--cinit=" + ci] + ind, timeout=1800)
            ctx.apalache("TicketRing", "TicketRing", ["--cinit=" + ci, "--init=IndInit", "--inv=Safety", "--length=0"])
        for ci, cfg in (("CInitEarly", "MC_earlystore.cfg"), ("CInitNoCheck", "MC_nocheck.cfg")):
            ctx.apalache("TicketRing", "TicketRing", ["--cinit=" + ci] + ind, expect_error=True)
            r = ctx.tlc("TicketRing", "TicketRing", cfg, workers=8, timeout=600, tag="ticket_" + ci)
            if not any("Safety" in e for e in r["errors"]):
                raise vlib.Inconclusive("sanity: TLC does not find the Safety violation of the broken variant %s:\n%s" % (ci, r["tail"]))
    ctx.cov["inductive_invariant"] = "TicketRing.IndInv: base case, inductive step and IndInv => Safety discharged by Apalache for N=3, Cap=2" + ("" if quick else "; N=2/3, Cap=4; broken variants rejected")


def run(ctx):
    quick = ctx.tier == "quick"
    ticket_proof(ctx, quick)
    extra = [] if quick else [("MCSyncRing", "MC_thorough.cfg")]
    vlib.conc_component(ctx, "SyncRing", "SyncRing", "MCSyncRing", "MC_quick.cfg", "syncring", ["ringz"], SHIM,
                        extra_mc=extra, walk_mode="cover" if quick else "probe",
                        sample_n=500 if quick else 8000, real_n=500 if quick else 10000,
                        hist_budget=120000 if quick else 1500000, explore_budget=3000 if quick else 20000)
    # "every capacity": rounding to a power of two over the whole range of requested capacities
    vlib.case_component(ctx, "SyncRingCap", "SyncRingSeq", "CapCases", ["MC_cap.cfg"], "c10cap")
    ctx.assumptions += ["TicketRing.tla (inductive invariant, unbounded runs) abstracts from values and from the counter wrap; it is tied to the code through SyncRingImpl.tla (same ten atomic steps; TicketRing's invariant, read modulo M, is checked by TLC as the invariant TicketInv of that code-shaped model, whose every edge is replayed on the real ring)",
                        "int elements", "PushWait/PopWait are driven with maxWait 0 and <0 only (positive durations are wall-clock behaviour)",
                        "the real ring is placed at 2^32-M+Base through an add-only export file in the scratch copy, so the model's wrap modulo M coincides with the real 32-bit wrap",
                        "data-race freedom is observed by the Go race detector on real goroutines (plain accesses are invisible to the scheduler shim)"]

def replay(ctx, rp):
    return vlib.replay_any(ctx, rp)
