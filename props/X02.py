"""X02 (extra, not one of the listed properties) - sortz, mathz, strz.KeyGenerator, IPv4 helpers, mapz.Body."""
import vlib

def run(ctx):
    vlib.case_component(ctx, "Misc", "Extras", "Misc", ["MC_misc.cfg" if ctx.tier == "quick" else "MC_misc_thorough.cfg"], "xmisc")
    ctx.assumptions += ["sort keys 1..3 on sequences up to 5 (7) elements plus patterned sequences of 12..100; integers within +-130; key segments non-empty and free of the delimiter",
                        "mathz.Swap is driven with two distinct variables only (with a == b the XOR swap zeroes the variable: noted in DESIGN.md, outside the listed properties)"]

def replay(ctx, rp):
    return vlib.replay_any(ctx, rp)
