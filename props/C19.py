"""C19 - Limiter bounds concurrency, runs every task once and survives panics."""
import os, re, subprocess, json, vlib
from vlib import GOENV, Inconclusive, log, read_json

def run(ctx):
    quick = ctx.tier == "quick"
    for cfg in ("MC_L1.cfg", "MC_L2.cfg", "MC_L0.cfg") + (() if quick else ("MC_L3.cfg",)):
        ctx.model_check("Limiter", "Limiter", cfg)
    ctx.copy_repo([])
    binp = ctx.go_build("limiter", allow_nowb=False)
    outd = os.path.join(ctx.out, "Limiter")
    os.makedirs(outd, exist_ok=True)
    n = 400 if quick else 3000
    rr = subprocess.run([binp, "-out", outd, "-n", str(n), "-seed", str(ctx.seed), "-churn", "1000" if quick else "4000"], capture_output=True, text=True, env=GOENV, timeout=3000)
    tf = os.path.join(outd, "limiter_traces.ndjson")
    if rr.returncode != 0:
        cur = open(os.path.join(outd, "limiter_current.json")).read() if os.path.exists(os.path.join(outd, "limiter_current.json")) else "?"
        # the goroutine that brought the process down (first "[running]" block): did the panic pass through the library?
        blk = ""
        mm = re.search(r"goroutine \d+ [^\n]*\[running[^\n]*\n(.*?)(\n\n|$)", rr.stderr, re.S)
        if mm:
            blk = mm.group(1)
        if ("panic:" in rr.stderr or "fatal error: panic while printing panic value" in rr.stderr) and "goroutine" in rr.stderr and ("golib/goz." in blk or "panic:" in rr.stderr):
            ctx.violation("Limiter: the process was terminated by a panic (a panicking function must not kill it; limits below 1 fall back to 3): %s" % rr.stderr[:300],
                          {"component": "LimiterCrash", "scenario": cur, "stderr": rr.stderr[:3000]}, key="Limiter/crash")
            return
        if "all goroutines are asleep" in rr.stderr and "golib/goz.(*Limiter)" in rr.stderr:
            # every goroutine is blocked and at least one of them inside the Limiter (a slot or the bookkeeping was lost)
            ctx.violation("Limiter: the process deadlocked with goroutines blocked inside the Limiter: %s" % rr.stderr[:200],
                          {"component": "LimiterCrash", "scenario": cur, "stderr": rr.stderr[:3000]}, key="Limiter/deadlock")
            return
        raise Inconclusive("limiter driver failed: %s" % rr.stderr[-2000:])
    st = read_json(os.path.join(outd, "limiter_stats.json"))
    ctx.cov["engines"].append({"engine": "gated scenarios", "component": "Limiter", "scenarios": st["scenarios"], "events": st["events"]})
    ctx.cov["samples"] += st["samples"][:1]
    ok, line, nl = ctx.validate_trace("Limiter", "LimiterTrace", "Trace.cfg", tf, tag="Limiter_trace")
    log("TLC trace validation Limiter: %d scenarios, %d events, %s" % (st["scenarios"], nl, "accepted" if ok else "REJECTED at line %s" % line))
    if ok:
        ctx.cov["traces_validated_against_impl"] += st["scenarios"]
    else:
        # locate the scenario (starts at a `new` event)
        evs = [json.loads(x) for x in open(tf)]
        start = max(i for i in range(line) if evs[i]["ev"] == "new")
        bad = evs[line - 1]
        ctx.violation("Limiter: the trace spec rejects event %d of a scenario: %s" % (line - 1 - start, json.dumps(bad)[:300]),
                      {"component": "LimiterTrace", "scenario": evs[start].get("scenario"), "events": evs[start:line]}, key="Limiter/trace/%s" % bad.get("ev"))
    ctx.assumptions += ["the submitted functions log enter/exit with stamps from one shared atomic counter; only positive events (an enter while limit functions are inside, a Wait return before an exit, a second enter, a wrong handler value, a process crash) are timing-free verdicts",
                        "liveness on the code (a Go call, Wait, or the slot-leak probe not completing) is judged with a 20 s watchdog per step; TLC checks the liveness properties on the design-level spec under fairness",
                        "Wait(timeout) is not driven (wall clock)"]

def replay(ctx, rp):
    return vlib.replay_any(ctx, rp)
