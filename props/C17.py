"""C17 - Rune-aware string helpers never split a rune and match rune-slice definitions."""
import vlib

def run(ctx):
    # the byte-offset scanners (Sub, Mask, SubByDisplay) as step-level cursor machines: TLC checks rune-boundary cursors,
    # progress, termination and refinement of the declarative definitions used below
    ctx.model_check("RuneOps", "ByteScan", "MC_scan.cfg", tag="bytescan")
    vlib.case_component(ctx, "RuneOps", "RuneOps", "RuneOps", ["MC_valid.cfg", "MC_invalid.cfg"] if ctx.tier == "quick" else ["MC_valid5.cfg", "MC_invalid5.cfg"], "c17")
    ctx.assumptions += ["strings are token sequences (rune width 1..4, or an invalid byte) up to 4 (quick) / 5 (thorough) tokens, concretised with several runes per class chosen from the seed",
                        "for strings that are not valid UTF-8 only 'no panic' is checked", "the snake/camel round trip is checked on [a-z][a-z0-9]*(_[a-z][a-z0-9]*)* only"]

def replay(ctx, rp):
    return vlib.replay_any(ctx, rp)
