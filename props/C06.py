"""C06 - Trie Replace/ReplaceWithMask are total and rewrite exactly the matched regions."""
import vlib

def run(ctx):
    # the interval-merge pass as an implementation-shaped spec: TLC checks it for every ordered interval list
    # (and must find the pinned variant without the step back broken: vacuity guard, finding F7)
    ctx.model_check("MultiMatch", "MergeScopes", "MC_merge_quick.cfg" if ctx.tier == "quick" else "MC_merge.cfg", timeout=1800)
    r = ctx.tlc("MultiMatch", "MergeScopes", "MC_merge_pinned.cfg", workers=4, timeout=900)
    if not any("Increasing" in e for e in r["errors"]):
        raise vlib.Inconclusive("sanity: the invariant Increasing does not catch the pinned merge pass:\n" + r["tail"])
    ctx.cov["sanity"] = "StepBack=FALSE (merge pass of the pinned commit): TLC reports Increasing violated after %d states" % r["distinct"]
    cfgs = ["MC_valid.cfg", "MC_bytes.cfg"] if ctx.tier == "quick" else ["MC_valid_t.cfg", "MC_bytes_t.cfg"]
    vlib.case_component(ctx, "TrieReplace", "MultiMatch", "MultiMatch", cfgs, "c05", overlays=["algz"], extra_args=["-prop", "C06"], tlc_timeout=3000)
    # the automaton under Replace / ReplaceWithMask is the same as under FindAll: its failure links against AhoImpl.tla
    vlib.case_component(ctx, "AhoLinks", "MultiMatch", "AhoImpl", ["MC_aho_quick.cfg", "MC_aho_thorough.cfg"], "c05",
                        extra_args=["-prop", "C05"], tlc_timeout=3000, overlays=["algz"], workers=8)
    ctx.assumptions += ["patterns are drawn from a pool of 15 patterns (shared prefixes, suffix/infix relations, 1-4 byte runes, U+FFFD) in sets of <= 2 (quick) / 3 (thorough); texts are all rune sequences over {a, b, zhong, shi} and all byte sequences over 8 bytes (incl. 0xFF and truncated runes) up to 4 / 5 symbols",
                        "patterns are also inserted in reverse order with a duplicate and an empty pattern"]

def replay(ctx, rp):
    return vlib.replay_any(ctx, rp)
