"""C16 - Bits and Bitmap behave as sets of unsigned integers, incl. bulk operations."""
import vlib

def run(ctx):
    quick = ctx.tier == "quick"
    emit = None
    for fl in ("bits", "bitmap", "dsz"):
        vlib.seq_component(ctx, "Bits-" + fl, "Bits", "Bits", "MC_quick.cfg" if quick else "MC_thorough.cfg",
                           "BitsTrace", "Trace.cfg", "bits", [], walk_mode="probe" if quick else "cover",
                           rand_n=150 if quick else 1500, rand_len=80 if quick else 150,
                           trace_every=2 if quick else 5, env={"VERIF_FLAVOUR": fl}, emit_from=emit)
        emit = ctx.last_emit
    ctx.assumptions += ["dsz.Bits has no bulk operations, no Range and no bool results: Diff/Intersect/Merge/Clone are emulated element-wise through its own API and 'changed' is read from Len()",
                        "setz.Bits has no Clone of its own: the embedded Bitmap is cloned and the cached length recounted through a bulk operation",
                        "capacities (Cap) are compared only as structure (drift), the property does not fix a growth policy"]

def replay(ctx, rp):
    return vlib.replay_any(ctx, rp)
