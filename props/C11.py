"""C11 - SyncList is a linearizable unbounded FIFO queue with a sane length."""
import vlib

SHIM = ["listz/sync_list.go"]

def run(ctx):
    quick = ctx.tier == "quick"
    # vacuity guard: with the statement order of the pinned commit TLC must find the invariant violated
    r = ctx.tlc("SyncList", "MCSyncList", "MC_pinned.cfg", workers=4, timeout=600)
    if not any("LenGePoppable" in e or "LenNonNeg" in e for e in r["errors"]):
        raise vlib.Inconclusive("sanity: the invariants LenNonNeg/LenGePoppable do not catch the pinned statement order:\n" + r["tail"])
    ctx.cov["sanity"] = "AddFirst=FALSE (order of the pinned commit): TLC reports %s after %d states" % (r["errors"][0][:80], r["distinct"])
    extra = [("MCSyncList", "MC_live.cfg")]
    if not quick:
        extra += [("MCSyncList", "MC_thorough.cfg"), ("MCSyncList", "MC_live_thorough.cfg")]
    vlib.conc_component(ctx, "SyncList", "SyncList", "MCSyncList", "MC_quick.cfg", "synclist", ["listz"], SHIM,
                        extra_mc=extra, walk_mode="cover" if quick else "probe", sample_n=400 if quick else 6000, real_n=400 if quick else 8000,
                        hist_budget=120000 if quick else 1500000, explore_budget=3000 if quick else 20000)
    if not ctx.violations:
        long_run(ctx, quick)
    ctx.assumptions += ["int elements", "PopWait is driven with maxWait 0 and <0 only (positive durations are wall-clock behaviour)",
                        "data-race freedom is observed by the Go race detector on real goroutines (plain accesses are invisible to the scheduler shim)",
                        "liveness (every Push completes) is checked by TLC on the step-level spec under weak fairness; on the code every sampled fair schedule must terminate"]

def long_run(ctx, quick):
    """One list driven through very many Push/Pop pairs (thorough: more than 2^32, so that counters of any width the
    implementation keeps wrap), then observed at rest; the observations are a history judged by FifoHist."""
    import os, subprocess
    binp = os.path.join(ctx.bin, "synclist")
    outd = os.path.join(ctx.out, "SyncList")
    pairs = str(3000000) if quick else str((1 << 32) + 5)
    rr = subprocess.run([binp, "long", "-out", outd, "-pairs", pairs], capture_output=True, text=True, env=vlib.GOENV, timeout=7200)
    if rr.returncode != 0:
        raise vlib.Inconclusive("long run failed: %s" % rr.stderr[-1500:])
    st = vlib.read_json(os.path.join(outd, "long_stats.json"))
    ok, bad, nh, ne = vlib.validate_hist(ctx, "FifoHist", "FifoHist", "Hist.cfg", os.path.join(outd, "long_hist.ndjson"), "SyncList_long")
    vlib.log("TLC history validation SyncList after %s Push/Pop pairs (%.0fs): %s" % (st["pairs"], st["wall_s"], "accepted" if ok else "REJECTED"))
    ctx.cov["engines"].append({"engine": "long sequential run", "component": "SyncList", "pairs": st["pairs"], "wall_s": st["wall_s"]})
    if not ok:
        ctx.violation("SyncList: after %s Push/Pop pairs the abstract FIFO history spec rejects what the list shows at rest: %s" % (st["pairs"], str(bad)[:300]),
                      {"component": "SyncListLong", "history": bad, "stats": st, "note": "re-run the check"}, key="SyncList/long")


def replay(ctx, rp):
    return vlib.replay_any(ctx, rp)
