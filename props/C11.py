"""C11 - SyncList is a linearizable unbounded FIFO queue with a sane length."""
import vlib

SHIM = ["listz/sync_list.go"]

def run(ctx):
    quick = ctx.tier == "quick"
    # vacuity guard: with the statement order of the pinned commit TLC must find the invariant violated
    r = ctx.tlc("SyncList", "MCSyncList", "MC_pinned.cfg", workers=4, timeout=600)
    if not any("LenGePoppable" in e or "LenNonNeg" in e for e in r["errors"]):
        raise vlib.Inconclusive("sanity: the invariants LenNonNeg/LenGePoppable do not catch the pinned statement order:\n" + r["tail"])
    ctx.cov["sanity"] = "AddFirst=FALSE (order of the pinned commit): TLC reports %s after %d states" % (r["errors"][0][:80], r["distinct"])
    extra = [("MCSyncList", "MC_live.cfg")]
    if not quick:
        extra += [("MCSyncList", "MC_thorough.cfg"), ("MCSyncList", "MC_live_thorough.cfg")]
    vlib.conc_component(ctx, "SyncList", "SyncList", "MCSyncList", "MC_quick.cfg", "synclist", ["listz"], SHIM,
                        extra_mc=extra, walk_mode="cover" if quick else "probe", sample_n=400 if quick else 6000, real_n=400 if quick else 8000,
                        hist_budget=120000 if quick else 1500000, explore_budget=3000 if quick else 20000)
    ctx.assumptions += ["int elements", "PopWait is driven with maxWait 0 and <0 only (positive durations are wall-clock behaviour)",
                        "data-race freedom is observed by the Go race detector on real goroutines (plain accesses are invisible to the scheduler shim)",
                        "liveness (every Push completes) is checked by TLC on the step-level spec under weak fairness; on the code every sampled fair schedule must terminate"]

def replay(ctx, rp):
    return vlib.replay_any(ctx, rp)
