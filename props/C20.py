"""C20 - randz identifiers and random strings have the documented shape."""
import vlib

def run(ctx):
    vlib.case_component(ctx, "Randz", "Randz", "Randz", ["MC.cfg"], "c20")
    ctx.assumptions += ["IDs are given as base-32 digit sequences (TLC integers are 32-bit); boundary values up to 2^63-1",
                        "ParseBase32 rejection: every byte value 0..255 at every position of strings of length 1..3",
                        "StrGenerator is driven with a scripted rand.Source assembled from TLC's chunk streams (charsets of 1..5 runes of mixed widths, n 0..3, runs of rejected chunks around the word boundary)",
                        "IdGenerator reads the wall clock: the millisecond part is checked against a window measured around the call, monotonicity with 2 ms sleeps",
                        "CountGenerator: 1 rule with periods 1..6 / 2 rules, intervals 1..2, increments 1..3, elapsed 0..9, three hash residues (ids found by search)"]

def replay(ctx, rp):
    return vlib.replay_any(ctx, rp)
