"""C14 - slicez set operations, in-place variants and FlexSlice match their definitions."""
import vlib

def run(ctx):
    quick = ctx.tier == "quick"
    vlib.case_component(ctx, "SliceOps", "Slicez", "SliceOps", ["MC_ops_quick.cfg" if quick else "MC_ops_thorough.cfg"], "c14")
    vlib.seq_component(ctx, "FlexSlice", "Slicez", "FlexImpl", "MC_flex_quick.cfg" if quick else "MC_flex_thorough.cfg",
                       "FlexTrace", "Trace.cfg", "flex", [], walk_mode="probe" if quick else "cover",
                       rand_n=200 if quick else 3000, rand_len=120 if quick else 240)
    ctx.assumptions += ["slices over {1,2,3} up to length 4 (quick) / 6 (thorough), second operands up to length 2 plus two longer ones, every dst layout (nil, fresh with other content, s1[:0], s2[:0]), nil and empty non-nil inputs, arguments -2..len+2",
                        "UniqueByKey uses parity as key, Filter 'odd' as predicate", "FlexSlice: capacity is compared as structure only; appends that grow the backing array are exercised by the random driver (Go's growth policy is the runtime's)"]

def replay(ctx, rp):
    return vlib.replay_any(ctx, rp)
