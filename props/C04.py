"""C04 - heapz heaps behave as priority queues with stable element handles."""
import vlib

def run(ctx):
    quick = ctx.tier == "quick"
    emit = None
    for fl in ("heap", "slice", "std"):
        vlib.seq_component(ctx, "Heap-" + fl, "Heap", "MCHeap", "MC_quick.cfg" if quick else "MC_thorough.cfg",
                           "HeapTrace", "Trace.cfg", "heap", ["heapz"], walk_mode="probe" if quick else "cover",
                           rand_n=150 if quick else 3000, rand_len=90 if quick else 160,
                           trace_every=2 if quick else 10, env={"VERIF_FLAVOUR": fl, "VERIF_MAXH": "4"}, emit_from=emit)
        emit = ctx.last_emit
    if not quick:
        # deeper refinement check of the code-shaped heap against the handle priority queue (no replay at this size)
        ctx.model_check("Heap", "MCHeap", "MC_deep.cfg", tag="heap_deep")
    ctx.assumptions += ["elements are (priority, handle tag) compared on the priority only, so ties are frequent and distinguishable",
                        "Pop/Peek are judged against the abstract spec (any minimal element); the exact element is compared with the code-shaped spec only as drift",
                        "the generic functions are not called with out-of-range indices (as container/heap, they do not accept them)"]

def replay(ctx, rp):
    return vlib.replay_any(ctx, rp)
