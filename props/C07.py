"""C07 - Backslash escape codecs round-trip and parse any input safely."""
import vlib

def run(ctx):
    vlib.case_component(ctx, "Escape", "Escape", "Escape", ["MC_thorough.cfg"], "c07", tlc_timeout=3000)
    ctx.assumptions += ["inputs are sequences of <= 3 tokens: backslash-free text, well-formed escapes of boundary values in both hex-digit cases, every truncation of an escape, wrong digits, out-of-range values, lone / reversed / unpaired surrogates",
                        "exact outputs are required when no malformed fragment is present (and for Format and the round trip); otherwise: no panic, at most len(input) bytes, ToString forms agree, input not modified",
                        "the cursor machines of the parsers are not transcribed into TLA+; the token grammar and the denotation of escapes are"]

def replay(ctx, rp):
    vlib.log("replay: the file holds the concrete input; re-run ./check C07")
    return 2
