"""C07 - Backslash escape codecs round-trip and parse any input safely."""
import vlib

def run(ctx):
    vlib.case_component(ctx, "Escape", "Escape", "Escape", ["MC_thorough.cfg"], "c07", tlc_timeout=3000)
    # the parsers' cursor machines, step by step: TLC checks cursor order, progress, termination and refinement of the
    # declarative Parse on every input of the grammar, and prints the output for every input; the real parsers must agree
    t = "quick" if ctx.tier == "quick" else "thorough"
    vlib.case_component(ctx, "ScanParse", "Escape", "ScanParse", ["MC_scan_%s_%s.cfg" % (k, t) for k in ("octal", "hex", "U", "u")], "c07",
                        tlc_timeout=3000, workers=8)
    ctx.assumptions += ["inputs are sequences of <= 3 tokens: backslash-free text, well-formed escapes of boundary values in both hex-digit cases, every truncation of an escape, wrong digits, out-of-range values, lone / reversed / unpaired surrogates",
                        "exact outputs are required when no malformed fragment is present (and for Format and the round trip); otherwise: no panic, at most len(input) bytes, ToString forms agree, input not modified",
                        "ScanParse.tla transcribes the parsers' cursor machines (one action per loop iteration); its predictions are exact for every input, but only disagreements on well-formed input are violations (on malformed input: model drift)"]

def replay(ctx, rp):
    return vlib.replay_any(ctx, rp)
