"""C09 - Secret-based encryption: round-trip, OpenSSL format, tamper evidence, chunking."""
import vlib

def run(ctx):
    vlib.case_component(ctx, "SecretEnvelope", "Crypt", "SecretEnvelope", ["MC.cfg"], "c08")
    ctx.assumptions += ["MD5, AES, GCM, base64, hex are uninterpreted in the specification and interpreted with the Go standard library (trusted base); the EVP_BytesToKey chain and the envelope layout are evaluated from the specification",
                        "reader chunkings: the first three read sizes from {0,1,2,15,16,17}, then 1 / 7 / everything, EOF with the last data or separately; the plaintext reader of EncryptStreamTo is chunked as well",
                        "CBC gives no integrity: for CBC tampering only 'no panic' and magic rejection are verdicts; for GCM every one-byte change must be rejected"]

def replay(ctx, rp):
    return vlib.replay_any(ctx, rp)
