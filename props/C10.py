"""C10 - Ring / SyncRing are bounded FIFOs sequentially, across growth and counter wrap."""
import os, vlib

def run(ctx):
    quick = ctx.tier == "quick"
    vlib.seq_component(ctx, "Ring", "Ring", "RingImpl", "MC_quick.cfg" if quick else "MC_thorough.cfg",
                       "RingTrace", "Trace.cfg", "ring", ["ringz"],
                       walk_mode="probe" if quick else "cover",
                       rand_n=200 if quick else 3000, rand_len=60 if quick else 120)
    vlib.seq_component(ctx, "SyncRingSeq", "SyncRingSeq", "SyncRingSeq", "MC_quick.cfg" if quick else "MC_thorough.cfg",
                       "FifoTrace", "Trace.cfg", "syncringseq", ["ringz"],
                       rand_n=300 if quick else 5000, rand_len=96 if quick else 200,
                       trace_every=1 if quick else 5)
    # capacity rounding over the whole range of requested capacities (around every power of two up to 2^20)
    vlib.case_component(ctx, "SyncRingCap", "SyncRingSeq", "CapCases", ["MC_cap.cfg"], "c10cap")
    if not quick:
        # the 32-bit wrap reached honestly through the public API (> 2^32 Push/Pop pairs, twice)
        binp = os.path.join(ctx.bin, "syncringseq")
        outd = os.path.join(ctx.out, "SyncRingSeq")
        ctx.run([binp, "honest", "-out", outd], timeout=3600)
        tf = os.path.join(outd, "honest_traces.ndjson")
        ok, line, n = ctx.validate_trace("SyncRingSeq", "FifoTrace", "Trace.cfg", tf, tag="honest")
        vlib.log("TLC trace validation honest 2^32 wrap: %d events, %s" % (n, "accepted" if ok else "REJECTED at line %s" % line))
        if ok:
            st = vlib.read_json(os.path.join(outd, "honest_stats.json"))
            ctx.cov["traces_validated_against_impl"] += st["traces"]
            ctx.cov["engines"].append({"engine": "honest 2^32 wrap", "operations": st["ops"], "wall_s": st["wall_s"], "events": n})
        else:
            start, events = vlib.locate_trace(tf, line)
            ctx.violation("SyncRing: abstract FIFO rejects event %d of the honest wrap run: %s" % (line - start, events[line - start] if line - start < len(events) else "?"),
                          {"component": "SyncRingHonest", "trace_tail": events[max(0, line - start - 10): line - start + 1], "note": "re-run: ./check C10 thorough"},
                          key="SyncRingSeq/honest")
    ctx.assumptions += ["Ring/SyncRing are driven with int elements; the zero value is 0 and pushed values are non-zero",
                        "quick tier and the graph walk place a fresh SyncRing at 2^32-M+Base through an add-only export file in a scratch copy (the state Base Push/Pop pairs produce); the thorough tier also reaches the wrap honestly",
                        "PushWait/PopWait are driven with maxWait 0 and <0 only (positive durations are wall-clock behaviour)"]

def replay(ctx, rp):
    return vlib.replay_any(ctx, rp)
