"""C03 - RoaringBitmap behaves as a set of uint32 with complete ascending enumeration."""
import vlib

def run(ctx):
    quick = ctx.tier == "quick"
    vlib.seq_component(ctx, "Roaring", "Roaring", "RoaringImpl", "MC_quick.cfg" if quick else "MC_thorough.cfg",
                       "RoaringTrace", "Trace.cfg" if quick else "Trace_thorough.cfg", "roaring", ["setz"],
                       walk_mode="cover", rand_n=60 if quick else 600, rand_len=60 if quick else 120,
                       trace_every=1 if quick else 4, walk_args=["-maxlen", "40"], env={"VERIF_NHI": "2" if quick else "3"})
    ctx.assumptions += ["the real 4096-value threshold is reached with a filler block of 4094 consecutive low values per bucket (Prefill/Unfill macro steps, inserted in ascending, descending or interleaved order); enumerations are compared with the complete block collapsed into one token",
                        "bucket keys {0, 65535} (quick) / {0, 1, 65535} (thorough), model low values {0, 1, 65535}"]

def replay(ctx, rp):
    return vlib.replay_any(ctx, rp)
