"""X01 (extra, not one of the listed properties) - strz.Reader is a read cursor over an immutable byte sequence."""
import vlib

def run(ctx):
    quick = ctx.tier == "quick"
    emit = None
    for fl in ("string", "bytes"):
        vlib.seq_component(ctx, "Reader-" + fl, "Extras", "MCCursor", "MC_cursor.cfg" if quick else "MC_cursor_thorough.cfg",
                           "CursorTrace", "CursorTrace.cfg", "xreader", [], walk_mode="cover",
                           rand_n=150 if quick else 1500, rand_len=60, env={"VERIF_FLAVOUR": fl}, emit_from=emit)
        emit = ctx.last_emit
    ctx.assumptions += ["writers take at most k bytes per Write and optionally fail; Seek targets stay within len+2 in the graph, +-20 in random traces"]

def replay(ctx, rp):
    return vlib.replay_any(ctx, rp)
