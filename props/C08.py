"""C08 - AES-CBC/GCM helpers and PKCS#7 padding invert exactly and reject bad input."""
import vlib

def run(ctx):
    vlib.case_component(ctx, "Pkcs7", "Crypt", "Pkcs7", ["MC.cfg"], "c08")
    ctx.assumptions += ["AES, GCM are uninterpreted in the specification and interpreted with crypto/aes, crypto/cipher (trusted base); CBC chaining is evaluated from the specification's formula with single-block encryptions",
                        "PKCS#7 un-padding: every byte string over {0,1,2,b,255} up to 5-7 bytes for block sizes 1..4; structured cases for 16-byte blocks inside CBC",
                        "keys, IVs, nonces, AAD and plaintext contents are drawn from the seed"]

def replay(ctx, rp):
    return vlib.replay_any(ctx, rp)
