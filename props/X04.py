"""X04 (extra, not one of the listed properties) - setz.Set / dsz.Set follow the set algebra; mapz.KV is a map."""
import vlib

def run(ctx):
    quick = ctx.tier == "quick"
    emit = None
    for fl in ("setz", "dsz"):
        vlib.seq_component(ctx, "Set-" + fl, "Extras", "SetAlg", "MC_setalg.cfg" if quick else "MC_setalg_thorough.cfg",
                           "SetAlgTrace", "SetAlgTrace.cfg" if quick else "SetAlgTrace_thorough.cfg", "xset", [], walk_mode="cover",
                           rand_n=100 if quick else 1000, rand_len=60, env={"VERIF_FLAVOUR": fl, "VERIF_NVALS": "3" if quick else "4"}, emit_from=emit)
        emit = ctx.last_emit
    ctx.assumptions += ["int elements 1..3 (4); Filter with the predicate 'odd'; enumerations compared as sorted lists (map order is unspecified)"]

def replay(ctx, rp):
    return vlib.replay_any(ctx, rp)
