"""C18 - Knapsack, subset-sum solvers and maximal-clique enumeration are exact."""
import vlib

def run(ctx):
    vlib.case_component(ctx, "Algz", "Algz", "Algz", ["MC_quick.cfg" if ctx.tier == "quick" else "MC_thorough.cfg"], "c18", tlc_timeout=3000)
    ctx.assumptions += ["items: every sequence of <= 3 (quick) / 4 (thorough) items with weights 0..3 and values 1..3, plus a seeded random sample (TLC Randomization) of 6-item instances; subset sums over values 1..4; all simple graphs on <= 5 (quick) / 6 vertices",
                        "answers are not unique: the runner checks membership in the set of correct answers (distinct given items, limit, optimum value, exact totals, set equality of cliques); each instance is run 2-3 times because map iteration order changes which cells are recycled",
                        "the empty graph is not driven (whether [[]] is its maximal clique is a convention)"]

def replay(ctx, rp):
    return vlib.replay_any(ctx, rp)
