SPECIFICATION TSpec
CONSTANTS
  NK = 48
  Vals = {1}
POSTCONDITION Accepted
CHECK_DEADLOCK FALSE
