---------------------------- MODULE SkipListImpl ----------------------------
(* Code-shaped specification of listz/skip.go and skip_cmp.go.  The pointer   *)
(* structure of a skip list is determined by the tower height of every key    *)
(* (the level-i list is the ascending list of the keys whose tower is higher  *)
(* than i), so the representation is: height per present key, the list's top  *)
(* level, and the initialisation state of a zero value.  The height drawn by  *)
(* the internal random source is a parameter of every insert; the harness     *)
(* installs a scripted source so that the real list draws exactly that height.*)
EXTENDS Integers, Sequences, FiniteSets, TLC, Json
CONSTANTS NK, Vals, Hs,    \* keys 1..NK, values, the tower heights an insertion may draw
          ZeroStart        \* TRUE: the list starts as a zero value (SkipList only)
VARIABLES has, val, ht, level, mode, last
\* mode: "zero" (zero value, nothing allocated), "zc" (zero value after Clear: allocated, no random
\* source yet), "init" (initialised)
\* the abstract observation of a step does not mention the drawn height
LastAbs == [n |-> last.n, a |-> IF last.n \in {"Set", "SetNx", "SetX"} THEN SubSeq(last.a, 1, 2) ELSE last.a, r |-> last.r]
Abs == INSTANCE OrderedMap WITH last <- LastAbs
Keys == Abs!Keys
R(n, args, r) == [n |-> n, a |-> args, r |-> r]
Present == {k \in Keys : has[k]}
Max(a, b) == IF a > b THEN a ELSE b

InitPred == /\ Present = {} /\ mode = (IF ZeroStart THEN "zero" ELSE "init") /\ level = (IF ZeroStart THEN 0 ELSE 1)
Init == /\ has = [k \in Keys |-> FALSE] /\ val = [k \in Keys |-> 0] /\ ht = [k \in Keys |-> 0]
        /\ InitPred /\ last = R("Init", <<>>, <<>>)

\* lazyInit of a write: a zero value (or a cleared zero value, which has no random source) is initialised
LvlW == IF mode = "init" THEN level ELSE 1
Insert(k, v, h) == LET hh == IF h > LvlW THEN LvlW + 1 ELSE h IN
                   /\ has' = [has EXCEPT ![k] = TRUE] /\ val' = [val EXCEPT ![k] = v]
                   /\ ht' = [ht EXCEPT ![k] = hh] /\ level' = Max(LvlW, hh) /\ mode' = "init"
Write(name, k, v, h, ifPresent, ifAbsent) ==
    /\ IF has[k] THEN /\ (IF ifPresent THEN val' = [val EXCEPT ![k] = v] ELSE UNCHANGED val)
                      /\ UNCHANGED <<has, ht>> /\ level' = LvlW /\ mode' = "init"
                 ELSE IF ifAbsent THEN Insert(k, v, h)
                 ELSE /\ UNCHANGED <<has, val, ht>> /\ level' = LvlW /\ mode' = "init"
Set(k, v, h) == Write("Set", k, v, h, TRUE, TRUE) /\ last' = R("Set", <<k, v, h>>, <<>>)
SetNx(k, v, h) == Write("SetNx", k, v, h, FALSE, TRUE) /\ last' = R("SetNx", <<k, v, h>>, <<~has[k]>>)
SetX(k, v, h) == Write("SetX", k, v, h, TRUE, FALSE) /\ last' = R("SetX", <<k, v, h>>, <<has[k]>>)
\* after unlinking the tallest tower the top level shrinks while it is empty
RECURSIVE Shrink(_, _)
Shrink(l, S) == IF l > 1 /\ ~(\E k \in S : ht[k] >= l) THEN Shrink(l - 1, S) ELSE l
Remove(k) == /\ last' = R("Remove", <<k>>, IF k \in Keys /\ has[k] THEN <<val[k], TRUE>> ELSE <<0, FALSE>>)
             /\ IF k \in Keys /\ has[k]
                THEN /\ has' = [has EXCEPT ![k] = FALSE] /\ val' = [val EXCEPT ![k] = 0] /\ ht' = [ht EXCEPT ![k] = 0]
                     /\ level' = IF ht[k] >= level THEN Shrink(level, Present \ {k}) ELSE level
                ELSE UNCHANGED <<has, val, ht, level>>
             /\ UNCHANGED mode
Clear == /\ has' = [k \in Keys |-> FALSE] /\ val' = [k \in Keys |-> 0] /\ ht' = [k \in Keys |-> 0]
         /\ level' = 1 /\ mode' = (IF mode = "zero" THEN "zc" ELSE mode) /\ last' = R("Clear", <<>>, <<>>)
SetValue(k, v) == /\ IF has[k] THEN val' = [val EXCEPT ![k] = v] ELSE UNCHANGED val
                  /\ UNCHANGED <<has, ht, level, mode>> /\ last' = R("SetValue", <<k, v>>, <<has[k]>>)

Next == \/ \E k \in Keys, v \in Vals, h \in Hs : Set(k, v, h) \/ SetNx(k, v, h) \/ SetX(k, v, h)
        \/ \E k \in 0..NK + 1 : Remove(k)
        \/ \E k \in Keys, v \in Vals : SetValue(k, v)
        \/ Clear
vars == <<has, val, ht, level, mode, last>>
Spec == Init /\ [][Next]_vars

-----------------------------------------------------------------------------
LevelOK == /\ (mode # "zero" => level >= 1)
           /\ \A k \in Present : ht[k] >= 1 /\ ht[k] <= level
           /\ (level > 1 => \E k \in Present : ht[k] = level)          \* the top level is never empty
AbsNext == \/ last'.n = "Set" /\ Abs!Set(last'.a[1], last'.a[2])
           \/ last'.n = "SetNx" /\ Abs!SetNx(last'.a[1], last'.a[2])
           \/ last'.n = "SetX" /\ Abs!SetX(last'.a[1], last'.a[2])
           \/ last'.n = "Remove" /\ Abs!Remove(last'.a[1])
           \/ last'.n = "Clear" /\ Abs!Clear
           \/ last'.n = "SetValue" /\ Abs!SetValue(last'.a[1], last'.a[2])
RefinesMap == Abs!Init /\ [][AbsNext]_<<has, val, LastAbs>>

\* structure as the export file reads it: top level and, per level, the ascending keys linked there
SX == INSTANCE SequencesExt
Asc(S) == SX!SetToSortSeq(S, LAMBDA x, y : x < y)
LevelLists == [i \in 1..level |-> Asc({k \in Present : ht[k] >= i})]
View == <<has, val, ht, level, mode>>
St == [s |-> [level |-> level, lists |-> LevelLists, zero |-> ZeroStart, inited |-> (mode = "init")],
       k |-> <<has, val, ht, level, mode>>, o |-> Abs!Reads, d |-> Abs!Pairs(Abs!KeySeq)]
Emit == PrintT(ToJson([i |-> InitPred, f |-> St, op |-> last', t |-> St']))
=============================================================================
