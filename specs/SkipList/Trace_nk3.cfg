SPECIFICATION TSpec
CONSTANTS
  NK = 3
  Vals = {1}
POSTCONDITION Accepted
CHECK_DEADLOCK FALSE
