SPECIFICATION TSpec
CONSTANTS
  NK = 2
  Vals = {1}
POSTCONDITION Accepted
CHECK_DEADLOCK FALSE
