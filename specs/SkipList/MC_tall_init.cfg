SPECIFICATION Spec
CONSTANTS
  NK = 2
  Vals = {1}
  Hs = {1, 32}
  ZeroStart = FALSE
INVARIANT LevelOK
PROPERTY RefinesMap
VIEW View
CHECK_DEADLOCK FALSE
ACTION_CONSTRAINT Emit
