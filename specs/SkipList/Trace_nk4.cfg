SPECIFICATION TSpec
CONSTANTS
  NK = 4
  Vals = {1}
POSTCONDITION Accepted
CHECK_DEADLOCK FALSE
