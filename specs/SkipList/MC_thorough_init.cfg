SPECIFICATION Spec
CONSTANTS
  NK = 4
  Vals = {1, 2}
  Hs = {1, 2, 3, 4}
  ZeroStart = FALSE
INVARIANT LevelOK
PROPERTY RefinesMap
VIEW View
CHECK_DEADLOCK FALSE
ACTION_CONSTRAINT Emit
