----------------------------- MODULE OrderedMap -----------------------------
(* Abstract specification of listz.SkipList / SkipListWithCmp (property C02): *)
(* a map with unique keys kept in ascending key order.  Keys are 1..NK; the   *)
(* query bounds 0 and NK+1 lie outside the key range.  `Reads` is the         *)
(* complete read sweep through the public API: it is what every real state    *)
(* is compared with, so every getter and every enumeration (with and without  *)
(* early stop, for every start / end bound) is checked after every step.      *)
EXTENDS Integers, Sequences, FiniteSets
CONSTANTS NK, Vals
VARIABLES has, val, last
Keys == 1..NK
Bounds == 0..NK + 1
R(n, args, r) == [n |-> n, a |-> args, r |-> r]
SX == INSTANCE SequencesExt
Present == {k \in Keys : has[k]}
Asc(S) == SX!SetToSortSeq(S, LAMBDA x, y : x < y)
KeySeq == Asc(Present)
First(s, n) == SubSeq(s, 1, IF Len(s) < n THEN Len(s) ELSE n)
Pairs(s) == [i \in 1..Len(s) |-> <<s[i], val[s[i]]>>]

Reads == [len    |-> Cardinality(Present),
          head   |-> IF Present = {} THEN <<0, 0, FALSE>> ELSE <<KeySeq[1], val[KeySeq[1]], TRUE>>,
          keys   |-> KeySeq,
          values |-> [i \in 1..Len(KeySeq) |-> val[KeySeq[i]]],
          all    |-> Pairs(KeySeq),
          range1 |-> Pairs(First(KeySeq, 1)),
          get    |-> [b \in 1..NK + 2 |-> IF (b - 1) \in Present THEN <<val[b - 1], TRUE>> ELSE <<0, FALSE>>],
          chain  |-> [b \in 1..NK + 2 |-> Asc({k \in Present : (b - 1) \in Present /\ k >= b - 1})],      \* GetNode(b-1), then Next() to the end
          rws    |-> [b \in 1..NK + 2 |-> Pairs(Asc({k \in Present : k >= b - 1}))],
          rws1   |-> [b \in 1..NK + 2 |-> First(Asc({k \in Present : k >= b - 1}), 1)],
          rwr    |-> [b \in 1..NK + 2 |-> [e \in 1..NK + 2 |-> Asc({k \in Present : k >= b - 1 /\ k < e - 1})]]]

Init == has = [k \in Keys |-> FALSE] /\ val = [k \in Keys |-> 0] /\ last = R("Init", <<>>, <<>>)
Set(k, v) == has' = [has EXCEPT ![k] = TRUE] /\ val' = [val EXCEPT ![k] = v] /\ last' = R("Set", <<k, v>>, <<>>)
SetNx(k, v) == /\ IF has[k] THEN UNCHANGED <<has, val>> ELSE has' = [has EXCEPT ![k] = TRUE] /\ val' = [val EXCEPT ![k] = v]
               /\ last' = R("SetNx", <<k, v>>, <<~has[k]>>)
SetX(k, v) == /\ IF has[k] THEN val' = [val EXCEPT ![k] = v] /\ UNCHANGED has ELSE UNCHANGED <<has, val>>
              /\ last' = R("SetX", <<k, v>>, <<has[k]>>)
Remove(k) == /\ last' = R("Remove", <<k>>, IF k \in Keys /\ has[k] THEN <<val[k], TRUE>> ELSE <<0, FALSE>>)
             /\ IF k \in Keys /\ has[k] THEN has' = [has EXCEPT ![k] = FALSE] /\ val' = [val EXCEPT ![k] = 0] ELSE UNCHANGED <<has, val>>
Clear == has' = [k \in Keys |-> FALSE] /\ val' = [k \in Keys |-> 0] /\ last' = R("Clear", <<>>, <<>>)
\* GetNode(k).SetValue(v)
SetValue(k, v) == /\ IF has[k] THEN val' = [val EXCEPT ![k] = v] ELSE UNCHANGED val
                  /\ UNCHANGED has /\ last' = R("SetValue", <<k, v>>, <<has[k]>>)
vars == <<has, val, last>>
=============================================================================
