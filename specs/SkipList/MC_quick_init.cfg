SPECIFICATION Spec
CONSTANTS
  NK = 3
  Vals = {1, 2}
  H = 3
  ZeroStart = FALSE
INVARIANT LevelOK
PROPERTY RefinesMap
VIEW View
CHECK_DEADLOCK FALSE
ACTION_CONSTRAINT Emit
