SPECIFICATION Spec
CONSTANTS
  NK = 3
  Vals = {1, 2}
  Hs = {1, 2, 3}
  ZeroStart = FALSE
INVARIANT LevelOK
PROPERTY RefinesMap
VIEW View
CHECK_DEADLOCK FALSE
ACTION_CONSTRAINT Emit
