SPECIFICATION TSpec
CONSTANTS
  NK = 6
  Vals = {1}
POSTCONDITION Accepted
CHECK_DEADLOCK FALSE
