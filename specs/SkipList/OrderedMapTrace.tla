-------------------------- MODULE OrderedMapTrace --------------------------
(* Trace validation of skip-list runs against OrderedMap.tla: after every     *)
(* call the complete read sweep of the real list must equal Reads.            *)
EXTENDS OrderedMap, Json, TLC
VARIABLE l
Trace == ndJsonDeserialize("trace.ndjson")
Ev == Trace[l]
A(i) == Ev.a[i]
Step(Act) == /\ l' = l + 1 /\ Act /\ last'.r = Ev.r /\ ("o" \in DOMAIN Ev => Reads' = Ev.o)
TReset == Ev.ev = "Reset" /\ l' = l + 1 /\ has' = [k \in Keys |-> FALSE] /\ val' = [k \in Keys |-> 0] /\ last' = R("Init", <<>>, <<>>)
TDrain == Ev.ev = "Drain" /\ l' = l + 1 /\ Ev.d = Pairs(KeySeq) /\ UNCHANGED vars
TStep == \/ TReset
         \/ TDrain
         \/ Ev.ev = "Set" /\ Step(Set(A(1), A(2)))
         \/ Ev.ev = "SetNx" /\ Step(SetNx(A(1), A(2)))
         \/ Ev.ev = "SetX" /\ Step(SetX(A(1), A(2)))
         \/ Ev.ev = "Remove" /\ Step(Remove(A(1)))
         \/ Ev.ev = "Clear" /\ Step(Clear)
         \/ Ev.ev = "SetValue" /\ Step(SetValue(A(1), A(2)))
TNext == l <= Len(Trace) /\ TStep
TInit == l = 1 /\ Init
TSpec == TInit /\ [][TNext]_<<vars, l>>
Accepted == TLCGet("stats").diameter - 1 = Len(Trace)
=============================================================================
