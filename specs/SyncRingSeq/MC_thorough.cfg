SPECIFICATION Spec
CONSTANTS
  Vals = {1, 2}
  Reqs = {1, 2, 3, 4, 5, 8}
  M = 16
  Bases = {13}
INVARIANTS TypeOK SlotProtocol DeadSlotsZero
PROPERTY Refines
VIEW View
ACTION_CONSTRAINT Emit
