----------------------------- MODULE FifoTrace -----------------------------
(* Trace validation of single-goroutine SyncRing runs against Fifo.tla.       *)
EXTENDS Fifo, Json, TLC
VARIABLE l
Trace == ndJsonDeserialize("trace.ndjson")
Ev == Trace[l]

Obs == [len |-> Len(q), cap |-> cap, empty |-> (q = <<>>), full |-> (Len(q) = cap)]
Step(A) == /\ l' = l + 1 /\ A /\ last'.r = Ev.r /\ ("o" \in DOMAIN Ev => Obs' = Ev.o) /\ Bounded'

TReset == /\ l' = l + 1 /\ Ev.ev = "Reset" /\ q' = <<>>
          /\ cap' = IF "req" \in DOMAIN Ev.s THEN CapOf(Ev.s.req) ELSE Ev.s.cap
          /\ last' = R("Init", <<>>, <<cap'>>)
TDrain == /\ l' = l + 1 /\ Ev.ev = "Drain" /\ Ev.d = q /\ UNCHANGED <<q, cap, last>>
\* a PushWait(<0) / PopWait(<0) the driver did not issue because it would block forever: legal
\* only if the abstract queue is really full / empty
TBlocked == /\ \/ Ev.ev = "PushWaitNeg" /\ Len(q) = cap
               \/ Ev.ev = "PopWaitNeg" /\ q = <<>>
            /\ l' = l + 1 /\ Ev.r = <<"blocked">> /\ ("o" \in DOMAIN Ev => Obs = Ev.o)
            /\ UNCHANGED <<q, cap, last>>

\* n pairs "Push(v) = true; Pop = (v, true)" performed (and checked) by the driver without
\* logging each: they leave the queue unchanged iff it holds nothing but v and is not full
TSkip == /\ Ev.ev = "SkipPairs" /\ l' = l + 1
         /\ \A i \in 1..Len(q) : q[i] = Ev.v
         /\ q # <<>> /\ Len(q) < cap /\ Obs = Ev.o
         /\ UNCHANGED <<q, cap, last>>

TStep == \/ TReset
         \/ TSkip
         \/ TDrain
         \/ TBlocked
         \/ Ev.ev = "Push" /\ Step(Push(Ev.a[1]))
         \/ Ev.ev = "PushWait0" /\ Step(PushWait0(Ev.a[1]))
         \/ Ev.ev = "PushWaitNeg" /\ Step(PushWaitNeg(Ev.a[1]))
         \/ Ev.ev = "Pop" /\ Step(Pop)
         \/ Ev.ev = "PopWait0" /\ Step(PopWait0)
         \/ Ev.ev = "PopWaitNeg" /\ Step(PopWaitNeg)
         \/ Ev.ev = "Query" /\ Step(Query)
TNext == l <= Len(Trace) /\ TStep
TInit == /\ l = 1 /\ q = <<>> /\ cap = 2 /\ last = R("Init", <<>>, <<2>>)
TSpec == TInit /\ [][TNext]_<<vars, l>>
Accepted == TLCGet("stats").diameter - 1 = Len(Trace)
=============================================================================
