SPECIFICATION Spec
