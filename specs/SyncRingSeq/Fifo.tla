------------------------------- MODULE Fifo -------------------------------
(* Abstract specification of ringz.SyncRing used from ONE goroutine           *)
(* (property C10, SyncRing clauses): a FIFO queue of capacity                 *)
(* Cap = smallest power of two >= max(2, requested).                          *)
EXTENDS Integers, Sequences
CONSTANTS Vals, Reqs        \* pushed values; requested capacities
VARIABLES q, cap, last

Zero == 0
R(n, a, r) == [n |-> n, a |-> a, r |-> r]
RECURSIVE Pow2Ge(_, _)
Pow2Ge(p, n) == IF p >= n THEN p ELSE Pow2Ge(2 * p, n)
CapOf(n) == Pow2Ge(2, n)

Bounded == Len(q) <= cap
Init == \E n \in Reqs : q = <<>> /\ cap = CapOf(n) /\ last = R("Init", <<n>>, <<cap>>)

Push(v) == /\ IF Len(q) < cap THEN q' = Append(q, v) /\ last' = R("Push", <<v>>, <<TRUE>>)
                              ELSE q' = q /\ last' = R("Push", <<v>>, <<FALSE>>)
           /\ UNCHANGED cap
Pop == /\ IF q # <<>> THEN q' = Tail(q) /\ last' = R("Pop", <<>>, <<Head(q), TRUE>>)
                      ELSE q' = q /\ last' = R("Pop", <<>>, <<Zero, FALSE>>)
       /\ UNCHANGED cap
\* PushWait(v, 0) / PopWait(0): one attempt
PushWait0(v) == /\ IF Len(q) < cap THEN q' = Append(q, v) /\ last' = R("PushWait0", <<v>>, <<TRUE>>)
                                   ELSE q' = q /\ last' = R("PushWait0", <<v>>, <<FALSE>>)
                /\ UNCHANGED cap
PopWait0 == /\ IF q # <<>> THEN q' = Tail(q) /\ last' = R("PopWait0", <<>>, <<Head(q), TRUE>>)
                           ELSE q' = q /\ last' = R("PopWait0", <<>>, <<Zero, FALSE>>)
            /\ UNCHANGED cap
\* PushWait(v, <0) / PopWait(<0) block until they succeed: from one goroutine they can only be
\* called when they can succeed
PushWaitNeg(v) == Len(q) < cap /\ q' = Append(q, v) /\ last' = R("PushWaitNeg", <<v>>, <<TRUE>>) /\ UNCHANGED cap
PopWaitNeg == q # <<>> /\ q' = Tail(q) /\ last' = R("PopWaitNeg", <<>>, <<Head(q), TRUE>>) /\ UNCHANGED cap
Query == /\ last' = R("Query", <<>>, <<Len(q), q = <<>>, Len(q) = cap, cap>>)
         /\ UNCHANGED <<q, cap>>

Next == \/ \E v \in Vals : Push(v) \/ PushWait0(v) \/ PushWaitNeg(v)
        \/ Pop \/ PopWait0 \/ PopWaitNeg \/ Query
vars == <<q, cap, last>>
Spec == Init /\ [][Next]_vars
=============================================================================
