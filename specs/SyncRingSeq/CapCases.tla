------------------------------ MODULE CapCases ------------------------------
(* Property C10, capacity clause for SyncRing over the whole range of         *)
(* requested capacities: Cap() is the smallest power of two >= max(2, n).     *)
(* TLC prints (n, CapOf(n)) for n around every power of two up to 2^20 and    *)
(* for a spread of other values; the runner also fills, overflows and drains  *)
(* the real ring for the capacities that fit in memory comfortably.           *)
EXTENDS Integers, Sequences, TLC, Json
VARIABLE x
RECURSIVE Pow2Ge(_, _)
Pow2Ge(p, n) == IF p >= n THEN p ELSE Pow2Ge(2 * p, n)
CapOf(n) == Pow2Ge(2, n)
Around == UNION {{2 ^ k - 1, 2 ^ k, 2 ^ k + 1, 2 ^ k + 2, ((3 * (2 ^ k)) \div 2) + 1} : k \in 1..20}
Others == {1, 2, 3, 5, 6, 7, 100, 1000, 65535, 65536, 65537, 70000, 100000, 131071, 131073, 196609, 262143, 262145, 300000, 524289, 1000000, 1048575, 1048577}
Cases == \A n \in (Around \cup Others) : n >= 1 => PrintT(ToJson([fn |-> "synccap", s |-> <<>>, a |-> <<n>>, out |-> <<CapOf(n)>>]))
ASSUME Cases
Init == x = 0
Next == x' = x
Spec == Init /\ [][Next]_x
=============================================================================
