SPECIFICATION TSpec
CONSTANTS
  Vals = {1}
  Reqs = {1}
POSTCONDITION Accepted
CHECK_DEADLOCK FALSE
