---------------------------- MODULE SyncRingSeq ----------------------------
(* Code-shaped specification of ringz/sync.go executed by one goroutine: the  *)
(* two position counters, the per-slot sequence numbers and the ticket        *)
(* protocol, with all arithmetic modulo M (the code: M = 2^32).  M is a       *)
(* multiple of every capacity, so the counters WRAP inside every run; the     *)
(* harness places the real ring at 2^32 - M + Base, hence the model's wrap    *)
(* coincides with the real 32-bit wrap (DESIGN.md 3.6).                       *)
EXTENDS Integers, Sequences, TLC, Json
CONSTANTS Vals, Reqs, M, Bases
VARIABLES head, tail, seq, val, cap, last

Zero == 0
R(n, a, r) == [n |-> n, a |-> a, r |-> r]
RECURSIVE Pow2Ge(_, _)
Pow2Ge(p, n) == IF p >= n THEN p ELSE Pow2Ge(2 * p, n)
\* Init(): 1 -> 2, power of two kept, otherwise roundupPowOfTwo
CapOf(n) == Pow2Ge(2, n)
Add(a, b) == (a + b) % M
Sub(a, b) == (a - b + M) % M
Mask == cap - 1
Idx(p) == p % cap        \* pos & mask

\* the state "Base push/pop pairs have happened" on a fresh ring
InitPred == /\ head = tail /\ val = [i \in 1..cap |-> Zero]
            /\ seq = [i \in 1..cap |-> Add(head, Sub(i - 1, Idx(head)) % cap)]
Init == \E n \in Reqs, b \in Bases :
          /\ cap = CapOf(n) /\ head = b /\ tail = b /\ InitPred
          /\ last = R("Init", <<n>>, <<cap>>)

PushBody(name, v) ==
    LET pos == tail  i == Idx(pos) + 1  s == seq[i] IN
    IF pos # s THEN /\ last' = R(name, <<v>>, <<FALSE>>) /\ UNCHANGED <<head, tail, seq, val>>
    ELSE /\ tail' = Add(pos, 1) /\ val' = [val EXCEPT ![i] = v] /\ seq' = [seq EXCEPT ![i] = Add(s, 1)]
         /\ last' = R(name, <<v>>, <<TRUE>>) /\ UNCHANGED head
PopBody(name) ==
    LET pos == head  i == Idx(pos) + 1  s == seq[i] IN
    IF Add(pos, 1) # s THEN /\ last' = R(name, <<>>, <<Zero, FALSE>>) /\ UNCHANGED <<head, tail, seq, val>>
    ELSE /\ head' = Add(pos, 1) /\ val' = [val EXCEPT ![i] = Zero] /\ seq' = [seq EXCEPT ![i] = Add(s, Mask)]
         /\ last' = R(name, <<>>, <<val[i], TRUE>>) /\ UNCHANGED tail

Push(v) == PushBody("Push", v) /\ UNCHANGED cap
Pop == PopBody("Pop") /\ UNCHANGED cap
PushWait0(v) == PushBody("PushWait0", v) /\ UNCHANGED cap
PopWait0 == PopBody("PopWait0") /\ UNCHANGED cap
\* would spin forever from one goroutine unless the first attempt succeeds
PushWaitNeg(v) == tail = seq[Idx(tail) + 1] /\ PushBody("PushWaitNeg", v) /\ UNCHANGED cap
PopWaitNeg == Add(head, 1) = seq[Idx(head) + 1] /\ PopBody("PopWaitNeg") /\ UNCHANGED cap
LenI == LET l == Sub(tail, head) IN IF l > cap THEN cap ELSE l
Query == /\ last' = R("Query", <<>>, <<LenI, head = tail, Sub(tail, head) = cap, cap>>)
         /\ UNCHANGED <<head, tail, seq, val, cap>>

Next == \/ \E v \in Vals : Push(v) \/ PushWait0(v) \/ PushWaitNeg(v)
        \/ Pop \/ PopWait0 \/ PopWaitNeg \/ Query
vars == <<head, tail, seq, val, cap, last>>
Spec == Init /\ [][Next]_vars

--------------------------------------------------------------------------
LiveOf(h, t, vl, c) == [k \in 1..((t - h + M) % M) |-> vl[(((h + k - 1) % M) % c) + 1]]
Live == LiveOf(head, tail, val, cap)
Abs == INSTANCE Fifo WITH q <- Live
Refines == Abs!Spec

TypeOK == /\ head \in 0..M-1 /\ tail \in 0..M-1 /\ Sub(tail, head) <= cap
\* ticket protocol, quiescent form: slot of position p in [head, tail) carries p+1, free slots carry
\* the position at which they will next be written
SlotProtocol == \A k \in 0..cap-1 :
    LET p == Add(head, k) IN
    seq[Idx(p) + 1] = IF k < Sub(tail, head) THEN Add(p, 1) ELSE p
DeadSlotsZero == \A k \in 0..cap-1 : k >= Sub(tail, head) => val[Idx(Add(head, k)) + 1] = Zero

View == <<head, tail, seq, val, cap>>
St(h, t, sq, vl, c) == [s |-> [head |-> h, tail |-> t, seq |-> sq, val |-> vl, cap |-> c, m |-> M],
                        o |-> LET l == LiveOf(h, t, vl, c) IN
                              [len |-> Len(l), cap |-> c, empty |-> (l = <<>>), full |-> (Len(l) = c)],
                        d |-> LiveOf(h, t, vl, c)]
Emit == PrintT(ToJson([i |-> InitPred, f |-> St(head, tail, seq, val, cap), op |-> last',
                       t |-> St(head', tail', seq', val', cap')]))
=============================================================================
