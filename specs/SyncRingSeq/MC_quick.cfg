SPECIFICATION Spec
CONSTANTS
  Vals = {1, 2}
  Reqs = {1, 3}
  M = 8
  Bases = {5}
INVARIANTS TypeOK SlotProtocol DeadSlotsZero
PROPERTY Refines
VIEW View
ACTION_CONSTRAINT Emit
