----------------------------- MODULE SListTrace -----------------------------
EXTENDS SList
VARIABLE l
Trace == ndJsonDeserialize("trace.ndjson")
Ev == Trace[l]
A(i) == Ev.a[i]
Step(Act) == /\ l' = l + 1 /\ Act /\ last'.r = Ev.r /\ ("o" \in DOMAIN Ev => O' = Ev.o)
TReset == Ev.ev = "Reset" /\ l' = l + 1 /\ q' = <<>> /\ last' = R("Init", <<>>, <<>>)
TDrain == Ev.ev = "Drain" /\ l' = l + 1 /\ Ev.d = q /\ UNCHANGED <<q, last>>
TStep == \/ TReset
         \/ TDrain
         \/ Ev.ev = "PushFront" /\ Step(PushFront(A(1)))
         \/ Ev.ev = "PushBack" /\ Step(PushBack(A(1)))
         \/ Ev.ev = "InsertAt" /\ Step(InsertAt(A(1), A(2)))
         \/ Ev.ev = "Get" /\ Step(Get(A(1)))
         \/ Ev.ev = "Remove" /\ Step(Remove(A(1)))
         \/ Ev.ev = "RemoveFront" /\ Step(RemoveFront)
         \/ Ev.ev = "Swap" /\ Step(Swap(A(1), A(2)))
TNext == l <= Len(Trace) /\ TStep
TInit == l = 1 /\ Init
TSpec == TInit /\ [][TNext]_<<vars, l>>
Accepted == TLCGet("stats").diameter - 1 = Len(Trace)
=============================================================================
