SPECIFICATION Spec
CONSTANTS
  Vals = {1, 2, 3}
  MaxLen = 5
VIEW View
CHECK_DEADLOCK FALSE
ACTION_CONSTRAINT Emit
