------------------------------- MODULE SList -------------------------------
(* Specification of listz.SList (property C13): a sequence under index-based  *)
(* Get / Remove / InsertAt / Swap and the front / back operations.            *)
(* Out-of-range indices: Get / Remove return nil, Swap does nothing, InsertAt *)
(* clamps (i <= 0 -> front, i >= Len -> back).                                *)
EXTENDS Integers, Sequences, TLC, Json
CONSTANTS Vals, MaxLen
VARIABLES q, last
R(n, args, r) == [n |-> n, a |-> args, r |-> r]
\* (Lo / Hi stand for math.MinInt / math.MaxInt: the adapter substitutes them; TLC integers have 32 bits)
Lo == -2000000000
Hi == 2000000000
Idxs == (-1..MaxLen + 1) \cup {Lo, Hi}
In(i) == i >= 0 /\ i < Len(q)
RemoveAt(s, i) == SubSeq(s, 1, i) \o SubSeq(s, i + 2, Len(s))          \* 0-based i
InsertAt0(s, i, v) == SubSeq(s, 1, i) \o <<v>> \o SubSeq(s, i + 1, Len(s))   \* v becomes element i (0-based)

Init == q = <<>> /\ last = R("Init", <<>>, <<>>)
PushFront(v) == Len(q) < MaxLen /\ q' = <<v>> \o q /\ last' = R("PushFront", <<v>>, <<>>)
PushBack(v) == Len(q) < MaxLen /\ q' = Append(q, v) /\ last' = R("PushBack", <<v>>, <<>>)
InsertAt(i, v) == /\ Len(q) < MaxLen
                  /\ q' = IF i <= 0 THEN <<v>> \o q ELSE IF i >= Len(q) THEN Append(q, v) ELSE InsertAt0(q, i, v)
                  /\ last' = R("InsertAt", <<i, v>>, <<>>)
Get(i) == /\ last' = R("Get", <<i>>, IF In(i) THEN <<q[i + 1], TRUE>> ELSE <<0, FALSE>>) /\ UNCHANGED q
Remove(i) == /\ last' = R("Remove", <<i>>, IF In(i) THEN <<q[i + 1], TRUE>> ELSE <<0, FALSE>>)
             /\ q' = IF In(i) THEN RemoveAt(q, i) ELSE q
RemoveFront == /\ last' = R("RemoveFront", <<>>, IF q # <<>> THEN <<q[1], TRUE>> ELSE <<0, FALSE>>)
               /\ q' = IF q # <<>> THEN Tail(q) ELSE q
Swap(i, j) == /\ q' = IF In(i) /\ In(j) /\ i # j THEN [q EXCEPT ![i + 1] = q[j + 1], ![j + 1] = q[i + 1]] ELSE q
              /\ last' = R("Swap", <<i, j>>, <<>>)
\* a removed node is put back with the node-inserting forms (the harness keeps the node of the last Remove)
Next == \/ \E v \in Vals : PushFront(v) \/ PushBack(v) \/ \E i \in Idxs : InsertAt(i, v)
        \/ \E i \in Idxs : Get(i) \/ Remove(i) \/ \E j \in Idxs : Swap(i, j)
        \/ RemoveFront
vars == <<q, last>>
Spec == Init /\ [][Next]_vars

O == [len |-> Len(q), front |-> IF q = <<>> THEN <<0, FALSE>> ELSE <<q[1], TRUE>>,
      back |-> IF q = <<>> THEN <<0, FALSE>> ELSE <<q[Len(q)], TRUE>>, seq |-> q,
      all |-> q]      \* All(): the iterator value was obtained when the list was created and is ranged now
View == q
St == [s |-> O, o |-> O, d |-> q]
Emit == PrintT(ToJson([i |-> q = <<>>, f |-> St, op |-> last', t |-> St']))
=============================================================================
