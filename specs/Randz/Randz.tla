------------------------------- MODULE Randz -------------------------------
(* Specification of the documented shape of randz identifiers and random      *)
(* strings (property C20).  TLC prints one case per line; the runner executes *)
(* the real functions.                                                        *)
(*  b32      an ID as its base-32 digit sequence (most significant first):    *)
(*           Base32 must spell exactly these digits, ParseBase32 must return  *)
(*           the value                                                        *)
(*  b32bad   a string with one arbitrary byte: ParseBase32 errs iff the byte  *)
(*           is outside the 32-character alphabet                             *)
(*  idlayout the effective number of random bits for a requested randBit      *)
(*  strgen   rejection sampling: the random words are given as a stream of    *)
(*           index-sized chunks; the output is the accepted indices in order  *)
(*  count    piecewise-linear accumulation over rules sorted by period        *)
EXTENDS Integers, Sequences, FiniteSets, TLC, Json
VARIABLE x
Emit(c) == PrintT(ToJson(c))
RECURSIVE SeqsOfLen(_, _)
SeqsOfLen(A, n) == IF n = 0 THEN {<<>>} ELSE {Append(s, a) : s \in SeqsOfLen(A, n - 1), a \in A}

-----------------------------------------------------------------------------
\* byte codes of "0123456789abcdefghjkmnprstuvwxyz"
Alphabet == <<48, 49, 50, 51, 52, 53, 54, 55, 56, 57, 97, 98, 99, 100, 101, 102, 103, 104, 106, 107, 109, 110,
              112, 114, 115, 116, 117, 118, 119, 120, 121, 122>>
AlphaSet == {Alphabet[i] : i \in 1..32}
\* digit sequences of boundary IDs: 0, 31, 32, 1023, 1024, 2^k-1, 2^k, ..., 2^63-1 (first of 13 digits <= 7)
DigitSeqs == {<<0>>, <<1>>, <<31>>, <<1, 0>>, <<31, 31>>, <<1, 0, 0>>, <<17, 9, 30, 3>>}
             \cup {<<d>> \o [i \in 1..n |-> f] : d \in {1, 7, 31}, n \in {1, 5, 11}, f \in {0, 31}}
             \cup {<<d>> \o [i \in 1..12 |-> f] : d \in {1, 7}, f \in {0, 13, 31}}
B32Cases == \A ds \in DigitSeqs : Emit([fn |-> "b32", s |-> ds, a |-> <<>>, out |-> [i \in 1..Len(ds) |-> Alphabet[ds[i] + 1]]])
\* one arbitrary byte b at position p of a string of length n, the other positions hold valid characters
B32BadCases == \A b \in 0..255 : \A n \in 1..3 : \A p \in 1..n :
                  Emit([fn |-> "b32bad", s |-> [i \in 1..n |-> IF i = p THEN b ELSE Alphabet[((7 * i + b) % 32) + 1]],
                        a |-> <<p>>, out |-> <<IF b \in AlphaSet THEN 0 ELSE 1>>])

\* the same for strings longer than any numeral Base32 produces (13 digits): a foreign byte far from the end is still an error
B32LongCases == \A b \in 0..255 : \A n \in {13, 14, 15, 20, 30} : \A p \in {1, 2, n - 14, n - 13, n - 12, n} :
                  (p >= 1 /\ b \notin AlphaSet) =>
                  Emit([fn |-> "b32bad", s |-> [i \in 1..n |-> IF i = p THEN b ELSE Alphabet[((7 * i + b) % 32) + 1]],
                        a |-> <<p>>, out |-> <<1>>])
\* randz.String(n): the package-level generator is shared by all goroutines (locked random source, atomically swapped
\* generator): g goroutines call it at the same time on a character set of c runes of mixed widths; every result
\* must still have exactly n runes of the set
StrConcCases == \A g \in {2, 8} : \A c \in {2, 5, 7} : Emit([fn |-> "strconc", s |-> <<>>, a |-> <<g, c>>, out |-> <<>>])
\* the character set of the package-level generator is replaced (SetStrGeneratorCharSet) while g goroutines are inside
\* String(n): a call that overlaps a replacement draws all its runes from ONE of the sets configured during the call.
\* The sets are pairwise disjoint and of different sizes (a smaller set after a larger one and the other way round).
StrSwitchCases == \A g \in {1, 4} : \A order \in {"shrinking", "growing", "mixed"} : Emit([fn |-> "strswitch", s |-> <<>>, a |-> <<g, order>>, out |-> <<>>])
\* NewIdGenerator(randBit): <= 1 -> 16, > 22 -> 22
EffBits(rb) == IF rb <= 1 THEN 16 ELSE IF rb > 22 THEN 22 ELSE rb
\* the time field has 41 bits whatever randBit is: generators whose start time lies e milliseconds in the past, with e
\* small, either side of 2^40 (the ids taken 2 ms apart straddle the mark) and just below 2^41
\* (TLC integers have 32 bits: e is written <<b, k, d>> for b * 2^k + d)
\* (a start time in the future - clock skew, a launch date ahead - gives a negative elapsed time: ids stay non-negative)
Elapsed == {<<0, 0, 12345678>>, <<1, 40, -3>>, <<1, 40, 5>>, <<1, 41, -100000>>, <<0, 0, -60000>>, <<0, 0, -86400000>>}
\* the id generator when the system's entropy source fails or comes up short (crypto/rand.Reader replaced by a reader
\* that returns an error at once / after one byte): the shape of the ids is the same
IdEntropyCases == \A rb \in {-1, 2, 8, 16, 22, 30} : \A fault \in {"error", "short", "eof"} :
    Emit([fn |-> "identropy", s |-> <<>>, a |-> <<rb, fault>>, out |-> <<EffBits(rb)>>])
IdLayoutCases == \A rb \in -2..26 : \A e \in Elapsed :
    Emit([fn |-> "idlayout", s |-> <<>>, a |-> <<rb>> \o e, out |-> <<EffBits(rb)>>])

-----------------------------------------------------------------------------
\* StrGenerator: charset of c runes; an index has Bits(c) bits; 63 \div Bits(c) indices are cut from one word
RECURSIVE BitLen(_)
BitLen(n) == IF n = 0 THEN 0 ELSE 1 + BitLen(n \div 2)
PerWord(c) == 63 \div BitLen(c)
\* accepted indices (< c) of the chunk stream, the first n of them
RECURSIVE Take(_, _, _)
Take(st, c, n) == IF n = 0 \/ st = <<>> THEN <<>>
                  ELSE IF Head(st) < c THEN <<Head(st)>> \o Take(Tail(st), c, n - 1) ELSE Take(Tail(st), c, n)
Accepted(st, c) == Cardinality({i \in 1..Len(st) : st[i] < c})
Boundary(c) == {0, c - 1} \cup (IF c < 2 ^ BitLen(c) THEN {c, 2 ^ BitLen(c) - 1} ELSE {})
Rejects(c) == IF c < 2 ^ BitLen(c) THEN {0, 1, PerWord(c) - 1, PerWord(c), PerWord(c) + 1, 2 * PerWord(c)} ELSE {0}
StrGenCases == \A c \in 1..5 : \A n \in 0..3 : \A r \in Rejects(c) : \A pat \in SeqsOfLen(Boundary(c), 4) :
    LET st == [i \in 1..r |-> 2 ^ BitLen(c) - 1] \o pat \o [i \in 1..4 |-> (i - 1) % c] IN     \* (a tail that always supplies enough accepted indices)
    Emit([fn |-> "strgen", s |-> st, a |-> <<c, n>>, out |-> Take(st, c, n)])

-----------------------------------------------------------------------------
\* CountGenerator: a rule is <<period, periodEndMaxIncr, interval, intervalMaxIncr>>; h is the hash of the id
\* (multiplier = h % intervalMaxIncr + 1, end bonus = h % periodEndMaxIncr + 1)
RECURSIVE Acc(_, _, _, _, _, _)
\* mode: "gen" | "min" | "max"
Acc(rules, i, diff, count, lastP, mh) ==
    IF i > Len(rules) THEN count
    ELSE LET v == rules[i]
             multi == IF mh[1] = "gen" THEN (mh[2] % v[4]) + 1 ELSE IF mh[1] = "min" THEN 1 ELSE v[4]
             bonus == IF mh[1] = "gen" THEN (mh[2] % v[2]) + 1 ELSE IF mh[1] = "min" THEN 1 ELSE v[2]
         IN IF diff < v[1] THEN ((diff - lastP) \div v[3]) * multi + count
            ELSE Acc(rules, i + 1, diff, count + ((v[1] - lastP) \div v[3]) * multi + bonus, v[1], mh)
Count(rules, diff, mh) == IF diff <= 0 THEN 0 ELSE Acc(rules, 1, diff, 0, 0, mh)
Rule(P) == {<<p, pe, iv, im>> : p \in P, pe \in 1..2, iv \in 1..2, im \in 1..3}
RuleSets == {<<r>> : r \in Rule(1..6)} \cup {<<r1, r2>> : r1 \in Rule({1, 3}), r2 \in Rule({4, 6})}
CountCases == \A rs \in RuleSets : \A h \in {0, 1, 5} :
    Emit([fn |-> "count", s |-> rs, a |-> <<h>>,
          out |-> [d \in 1..10 |-> <<Count(rs, d - 1, <<"min", 0>>), Count(rs, d - 1, <<"gen", h>>), Count(rs, d - 1, <<"max", 0>>)>>]])
\* what the specification itself must satisfy (checked by TLC while generating): bounds and monotonicity
CountSane == \A rs \in RuleSets : \A h \in {0, 1, 5} : \A d \in 0..9 :
    /\ Count(rs, d, <<"min", 0>>) <= Count(rs, d, <<"gen", h>>) /\ Count(rs, d, <<"gen", h>>) <= Count(rs, d, <<"max", 0>>)
    /\ d > 0 => Count(rs, d - 1, <<"gen", h>>) <= Count(rs, d, <<"gen", h>>)

ASSUME B32Cases
ASSUME B32BadCases
ASSUME B32LongCases
ASSUME StrConcCases
ASSUME IdLayoutCases
ASSUME StrSwitchCases
ASSUME IdEntropyCases
ASSUME StrGenCases
ASSUME CountSane
ASSUME CountCases
Init == x = 0
Next == x' = x
Spec == Init /\ [][Next]_x
=============================================================================
