SPECIFICATION Spec
