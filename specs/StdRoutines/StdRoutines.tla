---------------------------- MODULE StdRoutines ----------------------------
(* Property C15: the library's own versions of standard routines agree with   *)
(* the Go standard library.  The standard library IS the abstract             *)
(* specification named by the property, so it is the oracle on the code side; *)
(* this module supplies                                                       *)
(*   - the input grammar of ParseUint as token sequences (signs, base         *)
(*     prefixes, underscores, digits below / at / above the base, the digit   *)
(*     strings of 2^bits-1, 2^bits, the overflow cut-off), every base         *)
(*     -1..37 and bit size -1..65 class, with the error class where the       *)
(*     grammar alone decides it;                                              *)
(*   - a full specification of hex decoding with encoding/hex's error         *)
(*     precedence (bad character in a pair, before bad character in the odd   *)
(*     tail, before ErrLength) and the decoded prefix;                        *)
(*   - the case tables for Base64, digests / HMAC (one-shot and stream, with  *)
(*     reader chunkings) and IPv4.                                            *)
EXTENDS Integers, Sequences, FiniteSets, TLC, Json
VARIABLE x
Emit(c) == PrintT(ToJson(c))
RECURSIVE SeqsUpTo(_, _)
SeqsUpTo(A, n) == IF n = 0 THEN {<<>>}
                  ELSE LET S == SeqsUpTo(A, n - 1) IN S \cup {Append(s, a) : s \in {y \in S : Len(y) = n - 1}, a \in A}

\* ---- ParseUint
Toks == {"+", "-", "0x", "0X", "0b", "0o", "0", "_", "lo", "top", "over", "MAX", "MAX1", "CUT", "CUTM", "z", "sp"}
Bases == {-1, 0, 1, 2, 8, 10, 16, 36, 37}
Bits == {-1, 0, 8, 16, 32, 63, 64, 65}
\* what the grammar alone decides ("any": compare with strconv)
Class(ts, base, bits) == IF ts = <<>> THEN "syntax"
                         ELSE IF ~(base = 0 \/ (base >= 2 /\ base <= 36)) THEN "base"
                         ELSE "any"
ParseUintCases == \A ts \in SeqsUpTo(Toks, 3) : \A base \in Bases : \A bits \in Bits :
    \* (the full product only for sequences of <= 2 tokens; 3-token sequences for the common bases and sizes)
    (Len(ts) <= 2 \/ (base \in {0, 10, 16} /\ bits \in {0, 8, 64})) =>
        Emit([fn |-> "parseuint", s |-> ts, a |-> <<base, bits>>, out |-> <<Class(ts, base, bits)>>])

\* ---- hex decoding: characters as classes: "d" digit, "l" lower a-f, "u" upper A-F, "g" g (just past f), "c" a control
\* byte (0x10..0x19: would be a digit after | 0x20), "h" a byte >= 0x80
HexCls == {"d", "l", "u", "g", "c", "h"}
IsHex(c) == c \in {"d", "l", "u"}
\* <<number of decoded bytes, error kind ("" | "byte" | "length"), 1-based index of the offending character>>
HexDec(s) == LET n == Len(s)
                 badPairs == {i \in 1..(n \div 2) : ~IsHex(s[2 * i - 1]) \/ ~IsHex(s[2 * i])}
             IN IF badPairs # {}
                THEN LET p == CHOOSE i \in badPairs : \A j \in badPairs : i <= j IN
                     <<p - 1, "byte", IF ~IsHex(s[2 * p - 1]) THEN 2 * p - 1 ELSE 2 * p>>
                ELSE IF n % 2 = 1 THEN (IF IsHex(s[n]) THEN <<n \div 2, "length", 0>> ELSE <<n \div 2, "byte", n>>)
                ELSE <<n \div 2, "", 0>>
HexCases == \A s \in SeqsUpTo(HexCls, 5) : Emit([fn |-> "hexdecode", s |-> s, a |-> <<>>, out |-> HexDec(s)])
HexEncCases == \A n \in {0, 1, 2, 15, 16, 17, 255, 256} : Emit([fn |-> "hexencode", s |-> <<>>, a |-> <<n>>, out |-> <<2 * n>>])

\* ---- case tables for the routines whose mathematics stays in the standard library
Lens == {0, 1, 2, 3, 4, 55, 56, 63, 64, 65, 111, 112, 127, 128, 129, 1000}
Digests == {"md5", "sha1", "sha224", "sha256", "sha384", "sha512", "sha512_224", "sha512_256"}
DigestCases == \A d \in Digests : \A n \in Lens : Emit([fn |-> "digest", s |-> <<>>, a |-> <<d, n>>, out |-> <<>>])
StreamDigests == {"md5", "sha1", "sha224", "sha256", "sha384", "sha512"}
StreamCases == \A d \in StreamDigests : \A n \in {0, 1, 64, 65, 1000} : \A chunk \in {1, 7, 64, 1000} : \A eof \in {"with_data", "separate"} :
    Emit([fn |-> "digeststream", s |-> <<>>, a |-> <<d, n, chunk, eof>>, out |-> <<>>])
\* (key lengths around the block sizes 64 and 128: keys longer than a block are hashed first)
HmacCases == \A d \in {"md5", "sha1", "sha224", "sha256", "sha384", "sha512"} : \A kl \in {0, 1, 63, 64, 65, 127, 128, 129, 200} : \A n \in {0, 1, 64, 1000} :
    Emit([fn |-> "hmac", s |-> <<>>, a |-> <<d, kl, n>>, out |-> <<>>])
\* a stream that fails after some bytes must not influence a later call (sequence: failing stream, then a good one)
\* Whatever the error is (one of the io package's own sentinels - a truncated gzip stream fails with io.ErrUnexpectedEOF -
\* or a foreign one), delivered alone or together with the last bytes: only io.EOF ends a stream, everything else is a
\* failure of the digest, as it is for io.Copy into the hash.
ErrKinds == {"custom", "unexpected_eof", "closed_pipe", "no_progress", "short_buffer", "wrapped_eof"}
StreamErrCases == \A d \in StreamDigests : \A n \in {1, 64, 100} : \A after \in {0, 1, 63, 64} : \A ek \in ErrKinds : \A style \in {"separate", "with_data"} :
    Emit([fn |-> "digeststreamerr", s |-> <<>>, a |-> <<d, n, after, ek, style>>, out |-> <<>>])
\* (also encodings derived with WithPadding / Strict: they are no predefined value a helper could compare against)
B64Cases == \A enc \in {"std", "url", "rawstd", "rawurl", "std-nopad", "url-nopad", "rawstd-strict", "std-star"} : \A n \in {0, 1, 2, 3, 4, 5, 6, 31, 32, 33} : \A bad \in {"none", "char", "trunc", "pad"} :
    Emit([fn |-> "base64", s |-> <<>>, a |-> <<enc, n, bad>>, out |-> <<>>])
\* IPv4: octets by class; LongToIPv4 / IPv4ToLong are inverse for all 2^32 addresses
Octets == {0, 1, 9, 10, 99, 100, 127, 128, 254, 255}
Ipv4Cases == \A a \in Octets : \A b \in {0, 255, 10} : \A c \in {0, 1, 255} : \A d \in Octets :
    Emit([fn |-> "ipv4", s |-> <<a, b, c, d>>, a |-> <<>>, out |-> <<>>])
ASSUME ParseUintCases
ASSUME HexCases
ASSUME HexEncCases
ASSUME DigestCases
ASSUME StreamCases
ASSUME StreamErrCases
ASSUME HmacCases
ASSUME B64Cases
ASSUME Ipv4Cases
Init == x = 0
Next == x' = x
Spec == Init /\ [][Next]_x
=============================================================================
