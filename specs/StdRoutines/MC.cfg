SPECIFICATION Spec
