SPECIFICATION FairSpec
CONSTANTS
  Progs <- ProgsLiveThorough
  InitQs <- InitQsEmpty
  AddFirst = TRUE
PROPERTY Termination
CHECK_DEADLOCK FALSE
