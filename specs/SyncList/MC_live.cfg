SPECIFICATION FairSpec
CONSTANTS
  Progs <- ProgsLive
  InitQs <- InitQsEmpty
  AddFirst = TRUE
PROPERTY Termination
CHECK_DEADLOCK FALSE
