--------------------------- MODULE SyncListImpl ---------------------------
(* Step-level, code-shaped specification of listz/sync_list.go.               *)
(*                                                                            *)
(* One action = one atomic operation of the code together with the plain      *)
(* code that follows it up to the next atomic operation (the deterministic    *)
(* scheduler of the harness grants exactly these pieces: `g` grants per       *)
(* action).  Nodes are integers; node 0 is the initial dummy.                 *)
(*                                                                            *)
(* AddFirst = TRUE  : Push increments the element counter BEFORE it publishes *)
(*                    the new tail (the repaired code).                       *)
(* AddFirst = FALSE : the counter is incremented after the tail store (the    *)
(*                    order of the code at the pinned commit; finding F1).    *)
EXTENDS Integers, Sequences, FiniteSets, TLC, Json
CONSTANTS Progs,     \* set of program assignments: each a sequence (one entry per goroutine) of call sequences
          InitQs,    \* set of initial contents (sequences of values)
          AddFirst
VARIABLES prog, next, value, head, tail, len,      \* shared memory (+ the programs, fixed after Init)
          pc, opi, lt, ln, lh, ret,                \* per-goroutine
          absQ, took,                              \* ghosts: abstract queue at fixed linearization points
          nalloc,                                  \* number of nodes allocated so far
          mynode,                                  \* per goroutine: node of the current Push
          last                                     \* observation of the latest step (for edge emission)

NIL == -1
Threads == 1..Len(prog)
MaxNodes == 8
Nodes == 0..MaxNodes

HasOp(t) == opi[t] <= Len(prog[t])
Op(t) == prog[t][opi[t]]

\* what one step did, as the harness reports it: thread, grants, executed atomic operations
Obs(t, g, ops) == [n |-> "Step", a |-> <<t, g>>, r |-> ops]

vars == <<prog, next, value, head, tail, len, pc, opi, lt, ln, lh, ret, absQ, took, nalloc, mynode, last>>

InitWith(p, iq) ==
    /\ prog = p
    /\ next = [n \in Nodes |-> IF n < Len(iq) THEN n + 1 ELSE NIL]
    /\ value = [n \in Nodes |-> IF n >= 1 /\ n <= Len(iq) THEN iq[n] ELSE 0]
    /\ head = 0 /\ tail = Len(iq) /\ len = Len(iq)
    /\ nalloc = Len(iq)
    /\ pc = [t \in 1..Len(p) |-> "idle"]
    /\ opi = [t \in 1..Len(p) |-> 1]
    /\ lt = [t \in 1..Len(p) |-> 0] /\ ln = [t \in 1..Len(p) |-> 0] /\ lh = [t \in 1..Len(p) |-> 0]
    /\ mynode = [t \in 1..Len(p) |-> 0]
    /\ ret = [t \in 1..Len(p) |-> <<>>]
    /\ took = [t \in 1..Len(p) |-> 0]
    /\ absQ = iq
    /\ last = [n |-> "Init", a |-> <<>>, r |-> <<>>]
Init == \E p \in Progs, iq \in InitQs : InitWith(p, iq)

\* the call of t returns: record the result, move to the next call
Finish(t, r) == /\ ret' = [ret EXCEPT ![t] = r]
                /\ opi' = [opi EXCEPT ![t] = @ + 1]
                /\ pc' = [pc EXCEPT ![t] = "idle"]

-----------------------------------------------------------------------------
\* Push(v)
PushStart(t) == /\ pc[t] = "idle" /\ HasOp(t) /\ Op(t)[1] = "push"
                /\ nalloc' = nalloc + 1 /\ mynode' = [mynode EXCEPT ![t] = nalloc + 1]
                /\ value' = [value EXCEPT ![nalloc + 1] = Op(t)[2]]          \* private initialisation
                /\ pc' = [pc EXCEPT ![t] = "u_lt"] /\ last' = Obs(t, 1, <<>>)
                /\ UNCHANGED <<prog, next, head, tail, len, opi, lt, ln, lh, ret, absQ, took>>
PushLoadTail(t) == /\ pc[t] = "u_lt" /\ lt' = [lt EXCEPT ![t] = tail]
                   /\ pc' = [pc EXCEPT ![t] = "u_ln"] /\ last' = Obs(t, 2, << <<"Load", "tail">> >>)
                   /\ UNCHANGED <<prog, next, value, head, tail, len, opi, ln, lh, ret, absQ, took, nalloc, mynode>>
PushLoadNext(t) == /\ pc[t] = "u_ln" /\ ln' = [ln EXCEPT ![t] = next[lt[t]]]
                   /\ IF next[lt[t]] = NIL
                      THEN pc' = [pc EXCEPT ![t] = "u_cas"] /\ last' = Obs(t, 2, << <<"Load", "next">> >>)
                      ELSE pc' = [pc EXCEPT ![t] = "u_yield"] /\ last' = Obs(t, 2, << <<"Load", "next">>, <<"Gosched">> >>)
                   /\ UNCHANGED <<prog, next, value, head, tail, len, opi, lt, lh, ret, absQ, took, nalloc, mynode>>
PushCAS(t) == /\ pc[t] = "u_cas"
              /\ IF next[lt[t]] = NIL
                 THEN /\ next' = [next EXCEPT ![lt[t]] = mynode[t]]
                      /\ absQ' = Append(absQ, Op(t)[2])                          \* linearization point of Push
                      /\ pc' = [pc EXCEPT ![t] = IF AddFirst THEN "u_add" ELSE "u_st"]
                      /\ last' = Obs(t, 2, << <<"CAS", "next", TRUE>> >>)
                 ELSE /\ UNCHANGED <<next, absQ>> /\ pc' = [pc EXCEPT ![t] = "u_yield"]
                      /\ last' = Obs(t, 2, << <<"CAS", "next", FALSE>>, <<"Gosched">> >>)
              /\ UNCHANGED <<prog, value, head, tail, len, opi, lt, ln, lh, ret, took, nalloc, mynode>>
PushYield(t) == /\ pc[t] = "u_yield" /\ pc' = [pc EXCEPT ![t] = "u_lt"] /\ last' = Obs(t, 1, <<>>)
                /\ UNCHANGED <<prog, next, value, head, tail, len, opi, lt, ln, lh, ret, absQ, took, nalloc, mynode>>
PushAdd(t) == /\ pc[t] = "u_add" /\ len' = len + 1 /\ last' = Obs(t, 2, << <<"Add", "len", 1>> >>)
              /\ IF AddFirst THEN pc' = [pc EXCEPT ![t] = "u_st"] /\ UNCHANGED <<ret, opi>>
                             ELSE Finish(t, <<TRUE>>)
              /\ UNCHANGED <<prog, next, value, head, tail, lt, ln, lh, absQ, took, nalloc, mynode>>
PushStoreTail(t) == /\ pc[t] = "u_st" /\ tail' = mynode[t] /\ last' = Obs(t, 2, << <<"Store", "tail">> >>)
                    /\ IF AddFirst THEN Finish(t, <<TRUE>>)
                                   ELSE pc' = [pc EXCEPT ![t] = "u_add"] /\ UNCHANGED <<ret, opi>>
                    /\ UNCHANGED <<prog, next, value, head, len, lt, ln, lh, absQ, took, nalloc, mynode>>

\* Pop()  (also PopWait(0))
PopStart(t) == /\ pc[t] = "idle" /\ HasOp(t) /\ Op(t)[1] \in {"pop", "popwait0"}
               /\ pc' = [pc EXCEPT ![t] = "o_lh"] /\ last' = Obs(t, 1, <<>>)
               /\ UNCHANGED <<prog, next, value, head, tail, len, opi, lt, ln, lh, ret, absQ, took, nalloc, mynode>>
PopLoadHead(t) == /\ pc[t] = "o_lh" /\ lh' = [lh EXCEPT ![t] = head]
                  /\ pc' = [pc EXCEPT ![t] = "o_lt"] /\ last' = Obs(t, 2, << <<"Load", "head">> >>)
                  /\ UNCHANGED <<prog, next, value, head, tail, len, opi, lt, ln, ret, absQ, took, nalloc, mynode>>
PopLoadTail(t) == /\ pc[t] = "o_lt" /\ lt' = [lt EXCEPT ![t] = tail] /\ last' = Obs(t, 2, << <<"Load", "tail">> >>)
                  /\ IF lh[t] = tail THEN Finish(t, <<0, FALSE>>)
                                     ELSE pc' = [pc EXCEPT ![t] = "o_ln"] /\ UNCHANGED <<ret, opi>>
                  /\ UNCHANGED <<prog, next, value, head, tail, len, ln, lh, absQ, took, nalloc, mynode>>
PopLoadNext(t) == /\ pc[t] = "o_ln" /\ ln' = [ln EXCEPT ![t] = next[lh[t]]]
                  /\ pc' = [pc EXCEPT ![t] = "o_cas"] /\ last' = Obs(t, 2, << <<"Load", "next">> >>)
                  /\ UNCHANGED <<prog, next, value, head, tail, len, opi, lt, lh, ret, absQ, took, nalloc, mynode>>
\* CAS on head; on success the plain code reads the value of the new head node and clears it
PopCAS(t) == /\ pc[t] = "o_cas"
             /\ IF head = lh[t]
                THEN /\ head' = ln[t]
                     /\ took' = [took EXCEPT ![t] = IF absQ = <<>> THEN -1 ELSE Head(absQ)]   \* linearization point of Pop
                     /\ absQ' = IF absQ = <<>> THEN absQ ELSE Tail(absQ)
                     /\ ret' = [ret EXCEPT ![t] = <<value[ln[t]], TRUE>>]
                     /\ value' = [value EXCEPT ![ln[t]] = 0]
                     /\ pc' = [pc EXCEPT ![t] = "o_add"] /\ UNCHANGED opi
                     /\ last' = Obs(t, 2, << <<"CAS", "head", TRUE>> >>)
                ELSE /\ Finish(t, <<0, FALSE>>) /\ UNCHANGED <<head, took, absQ, value>>
                     /\ last' = Obs(t, 2, << <<"CAS", "head", FALSE>> >>)
             /\ UNCHANGED <<prog, next, tail, len, lt, ln, lh, nalloc, mynode>>
PopAdd(t) == /\ pc[t] = "o_add" /\ len' = len - 1 /\ last' = Obs(t, 2, << <<"Add", "len", -1>> >>)
             /\ Finish(t, ret[t])
             /\ UNCHANGED <<prog, next, value, head, tail, lt, ln, lh, absQ, took, nalloc, mynode>>

\* Len()
LenStart(t) == /\ pc[t] = "idle" /\ HasOp(t) /\ Op(t)[1] = "len"
               /\ pc' = [pc EXCEPT ![t] = "l_ld"] /\ last' = Obs(t, 1, <<>>)
               /\ UNCHANGED <<prog, next, value, head, tail, len, opi, lt, ln, lh, ret, absQ, took, nalloc, mynode>>
LenLoad(t) == /\ pc[t] = "l_ld" /\ Finish(t, <<len>>) /\ last' = Obs(t, 2, << <<"Load", "len">> >>)
              /\ UNCHANGED <<prog, next, value, head, tail, len, lt, ln, lh, absQ, took, nalloc, mynode>>

Step(t) == \/ PushStart(t) \/ PushLoadTail(t) \/ PushLoadNext(t) \/ PushCAS(t) \/ PushYield(t)
           \/ PushAdd(t) \/ PushStoreTail(t)
           \/ PopStart(t) \/ PopLoadHead(t) \/ PopLoadTail(t) \/ PopLoadNext(t) \/ PopCAS(t) \/ PopAdd(t)
           \/ LenStart(t) \/ LenLoad(t)
Next == \E t \in Threads : Step(t)
Spec == Init /\ [][Next]_vars
FairSpec == Spec /\ \A t \in 1..3 : WF_vars(t \in Threads /\ Step(t))

-----------------------------------------------------------------------------
RECURSIVE Dist(_, _, _)
Dist(a, b, fuel) == IF a = b \/ fuel = 0 THEN 0 ELSE IF next[a] = NIL THEN 1000 ELSE 1 + Dist(next[a], b, fuel - 1)
Poppable == Dist(head, tail, MaxNodes + 1)
RECURSIVE ChainFrom(_, _)
ChainFrom(n, fuel) == IF n = NIL \/ fuel = 0 THEN <<>> ELSE <<value[n]>> \o ChainFrom(next[n], fuel - 1)
Chain == ChainFrom(next[head], MaxNodes + 1)          \* values of all linked nodes after the head (dummy)
AllIdle == \A t \in Threads : pc[t] = "idle"

TypeOK == /\ head \in Nodes /\ tail \in Nodes /\ nalloc <= MaxNodes
HeadNotPastTail == Poppable < 1000                    \* tail is reachable from head
LenNonNeg == len >= 0
LenGePoppable == len >= Poppable
QuiescentExact == AllIdle => len = Len(absQ) /\ Poppable = Len(absQ) /\ Chain = absQ
PopOK == \A t \in Threads : pc[t] = "o_add" => took[t] # -1 /\ ret[t][1] = took[t]
\* the poppable part of the chain is a prefix of the abstract queue (FIFO order is kept)
ChainIsQueue == \A k \in 1..Poppable : k <= Len(absQ) /\ Chain[k] = absQ[k]
\* every goroutine finishes its program (under weak fairness of every goroutine)
AllDone == \A t \in Threads : ~HasOp(t)
Termination == <>AllDone

-----------------------------------------------------------------------------
\* Edge emission: s = what the harness can read from the real object (shared memory and the
\* programs), k = the complete model state (graph node identity), o = what a concurrent
\* observer calling Len() sees, d = black-box probe: Len(), then Pop until it fails.
View == <<prog, next, value, head, tail, len, pc, opi, lt, ln, lh, ret, nalloc, mynode>>
InitPred == AllIdle /\ \A t \in Threads : opi[t] = 1
St == [s |-> [prog |-> prog, chain |-> Chain, tailidx |-> Poppable, len |-> len],
       k |-> <<prog, head, tail, len, pc, opi, lt, ln, lh, mynode, nalloc, [n \in 0..nalloc |-> <<next[n], value[n]>>], ret>>,
       o |-> [len |-> len, idx |-> [t \in Threads |-> IF pc[t] = "idle" THEN opi[t] - 1 ELSE opi[t]]],
       d |-> [len |-> len, popped |-> SubSeq(Chain, 1, Poppable)]]
Emit == PrintT(ToJson([i |-> InitPred, f |-> St, op |-> last', t |-> St']))
=============================================================================
