SPECIFICATION Spec
CONSTANTS
  Progs <- ProgsThorough
  InitQs <- InitQsThorough
  AddFirst = TRUE
INVARIANTS TypeOK HeadNotPastTail LenNonNeg LenGePoppable QuiescentExact PopOK ChainIsQueue
VIEW View
CHECK_DEADLOCK FALSE
