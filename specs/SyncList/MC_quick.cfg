SPECIFICATION Spec
CONSTANTS
  Progs <- ProgsQuick
  InitQs <- InitQsQuick
  AddFirst = TRUE
INVARIANTS TypeOK HeadNotPastTail LenNonNeg LenGePoppable QuiescentExact PopOK ChainIsQueue
VIEW View
ACTION_CONSTRAINT Emit
CHECK_DEADLOCK FALSE
