\* the statement order of the pinned commit (finding F1): TLC must find LenGePoppable violated
SPECIFICATION Spec
CONSTANTS
  Progs <- ProgsLive
  InitQs <- InitQsEmpty
  AddFirst = FALSE
INVARIANTS LenNonNeg LenGePoppable
CHECK_DEADLOCK FALSE
