---------------------------- MODULE MCSyncList ----------------------------
(* Model-checking instances of SyncListImpl: the program sets.               *)
EXTENDS SyncListImpl

PU(v) == <<"push", v>>
PO == <<"pop">>
LE == <<"len">>
PW == <<"popwait0">>

\* all call sequences of length n over the call alphabet A
RECURSIVE SeqsOf(_, _)
SeqsOf(A, n) == IF n = 0 THEN {<<>>} ELSE {<<a>> \o s : a \in A, s \in SeqsOf(A, n - 1)}

\* quick: 2 goroutines x 2 calls, every assignment of {push, pop, len}; 3 goroutines x 1 call
Calls(t) == {PU(t), PO, LE}
CallsPP(t) == {PU(t), PO}
Progs2x2 == {<<p1, p2>> : p1 \in SeqsOf(CallsPP(1), 2), p2 \in SeqsOf(CallsPP(2), 2)}
Progs3x1 == {<<p1, p2, p3>> : p1 \in SeqsOf(Calls(1), 1), p2 \in SeqsOf(Calls(2), 1), p3 \in SeqsOf(Calls(3), 1)}
ProgsQuick == Progs2x2 \cup Progs3x1
InitQsQuick == {<<>>, <<7>>}
InitQsEmpty == {<<>>}
InitQsThorough == {<<>>, <<7>>, <<7, 8>>}

\* thorough: 3 goroutines x 2 calls over {push, pop} plus one observer, 2 x 3
Progs3x2 == {<<p1, p2, p3>> : p1 \in SeqsOf(CallsPP(1), 2), p2 \in SeqsOf(CallsPP(2), 2), p3 \in SeqsOf({PO, LE, PW}, 2)}
Progs2x3 == {<<p1, p2>> : p1 \in SeqsOf(Calls(1), 3), p2 \in SeqsOf(Calls(2), 3)}
ProgsThorough == Progs3x2 \cup Progs2x3

\* liveness: pushers only / mixed, small
ProgsLive == {<< <<PU(1)>>, <<PU(2), PO>>, <<PU(3)>> >>}
ProgsLiveThorough == {<< <<PU(1), PU(1)>>, <<PU(2), PO>>, <<PU(3)>> >>, << <<PU(1)>>, <<PU(2)>>, <<PO, LE>> >>,
                      << <<PU(1), PU(1)>>, <<PU(2), PU(2)>>, <<PU(3), PO>> >>}
=============================================================================
