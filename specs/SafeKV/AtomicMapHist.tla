---------------------------- MODULE AtomicMapHist ----------------------------
(* Abstract specification of mapz.SafeKV as seen through call histories       *)
(* (property C12): every method takes effect atomically at one instant        *)
(* between its invocation and its response on a plain map; the snapshot       *)
(* methods (Keys, Values, Range, All, GetWithMap, Map, Len) return a function *)
(* of the map at that one instant.  Also the trace specification: TLC         *)
(* searches the instants (internal step Lin) for recorded histories.          *)
EXTENDS Integers, Sequences, FiniteSets, TLC, Json
CONSTANTS MaxT, NK
VARIABLES m,    \* key -> value, 0 = absent
          st,   \* per goroutine: phase, call, result computed at the linearization instant
          l
Trace == ndJsonDeserialize("trace.ndjson")
Ev == Trace[l]
T == 1..MaxT
K == 1..NK
SX == INSTANCE SequencesExt
Asc(S) == SX!SetToSortSeq(S, LAMBDA x, y : x < y)
Dom(mm) == {k \in K : mm[k] # 0}
Pairs(mm) == LET ks == Asc(Dom(mm)) IN [i \in 1..Len(ks) |-> <<ks[i], mm[ks[i]]>>]
SortedVals(mm) == LET S == {<<mm[k], k>> : k \in Dom(mm)}
                      ss == SX!SetToSortSeq(S, LAMBDA x, y : x[1] < y[1] \/ (x[1] = y[1] /\ x[2] < y[2]))
                  IN [i \in 1..Len(ss) |-> ss[i][1]]
Idle == [ph |-> "idle", op |-> "", arg |-> <<>>, res |-> <<>>]

\* effect and result of one call applied atomically to map mm: <<new map, result>>
Apply(op, a, mm) ==
    CASE op = "get" -> <<mm, IF mm[a[1]] # 0 THEN <<mm[a[1]], TRUE>> ELSE <<0, FALSE>>>>
      [] op = "getwithlock" -> <<mm, IF mm[a[1]] # 0 THEN <<mm[a[1]], TRUE>> ELSE <<0, FALSE>>>>
      [] op \in {"has", "contains"} -> <<mm, <<mm[a[1]] # 0>>>>
      [] op = "set" -> <<[mm EXCEPT ![a[1]] = a[2]], <<>>>>
      [] op = "setnx" -> <<IF mm[a[1]] = 0 THEN [mm EXCEPT ![a[1]] = a[2]] ELSE mm, <<mm[a[1]] = 0>>>>
      [] op = "setx" -> <<IF mm[a[1]] # 0 THEN [mm EXCEPT ![a[1]] = a[2]] ELSE mm, <<mm[a[1]] # 0>>>>
      [] op = "delete" -> <<[k \in K |-> IF \E i \in 1..Len(a) : a[i] = k THEN 0 ELSE mm[k]], <<>>>>
      [] op = "len" -> <<mm, <<Cardinality(Dom(mm))>>>>
      [] op = "keys" -> <<mm, <<Asc(Dom(mm))>>>>
      [] op = "values" -> <<mm, <<SortedVals(mm)>>>>
      [] op \in {"range", "all"} -> <<mm, <<Pairs(mm)>>>>
      \* GetWithMap(keys): the values of the requested keys that are present, at one instant
      [] op = "getwithmap" -> <<mm, <<LET ks == Asc({a[i] : i \in 1..Len(a)} \cap Dom(mm)) IN [i \in 1..Len(ks) |-> <<ks[i], mm[ks[i]]>>]>>>>
      \* Map(fn) with fn = "add 100 to every value and report the pairs seen": one atomic read-modify-write
      [] op = "mapadd" -> <<[k \in K |-> IF mm[k] # 0 THEN mm[k] + 100 ELSE 0], <<Pairs(mm)>>>>
      \* Map(fn) with callbacks that change the number of keys: insert a key / delete everything
      [] op = "mapins" -> <<[mm EXCEPT ![a[1]] = a[2]], <<Pairs(mm)>>>>
      [] op = "mapdelall" -> <<[k \in K |-> 0], <<Pairs(mm)>>>>
      [] op = "clear" -> <<[k \in K |-> 0], <<>>>>

Init == /\ l = 1 /\ m = [k \in K |-> 0] /\ st = [t \in T |-> Idle] /\ TLCSet(1, 0)
Reset == /\ Ev.ev = "reset" /\ l' = l + 1
         /\ m' = [k \in K |-> IF \E i \in 1..Len(Ev.init) : Ev.init[i][1] = k
                              THEN Ev.init[CHOOSE i \in 1..Len(Ev.init) : Ev.init[i][1] = k][2] ELSE 0]
         /\ st' = [t \in T |-> Idle]
Inv == /\ Ev.ev = "inv" /\ l' = l + 1 /\ st[Ev.t].ph = "idle"
       /\ st' = [st EXCEPT ![Ev.t] = [ph |-> "inv", op |-> Ev.op, arg |-> Ev.arg, res |-> <<>>]]
       /\ UNCHANGED m
Lin(t) == /\ st[t].ph = "inv"
          /\ LET r == Apply(st[t].op, st[t].arg, m) IN
             /\ m' = r[1] /\ st' = [st EXCEPT ![t].ph = "lin", ![t].res = r[2]]
          /\ UNCHANGED l
Ret == /\ Ev.ev = "ret" /\ l' = l + 1
       /\ st[Ev.t].ph = "lin" /\ st[Ev.t].op = Ev.op /\ st[Ev.t].res = Ev.ret
       /\ st' = [st EXCEPT ![Ev.t] = Idle] /\ UNCHANGED m
Quiescent == \A t \in T : st[t].ph = "idle"
\* an observer reads the whole content (Range, then Len) while every other goroutine stands still outside its
\* critical section: a snapshot of the map at that instant (calls still in flight have either taken effect or not:
\* TLC chooses with Lin steps before this event).  `skipped`: the observer could not look (a writer was inside).
Final == /\ Ev.ev = "probedrain" /\ l' = l + 1
         /\ \/ "skipped" \in DOMAIN Ev
            \/ "pairs" \in DOMAIN Ev /\ Ev.pairs = Pairs(m) /\ Ev.len = Cardinality(Dom(m))
         /\ UNCHANGED <<m, st>>
Probe == Ev.ev = "probe" /\ l' = l + 1 /\ UNCHANGED <<m, st>>
Next == \/ l <= Len(Trace) /\ (Reset \/ Inv \/ Ret \/ Final \/ Probe)
        \/ \E t \in T : Lin(t)
vars == <<m, st, l>>
Spec == Init /\ [][Next]_vars
HighWater == TLCSet(1, IF TLCGet(1) > l THEN TLCGet(1) ELSE l)
Accepted == /\ PrintT(<<"HIGHWATER", TLCGet(1), Len(Trace)>>)
            /\ TLCGet(1) = Len(Trace) + 1
=============================================================================
