----------------------------- MODULE SafeKVImpl -----------------------------
(* Code-shaped specification of the locking discipline of mapz/safekv.go.     *)
(* Each goroutine executes one method as a sequence of steps: acquire the     *)
(* lock (read or write), access the map, release.  Accesses are labelled      *)
(* reads / writes of the location "map" (header, buckets and the `entries`    *)
(* field itself).  A DATA RACE is a state in which one goroutine is about to  *)
(* perform a write and another a read or write of the map while they do not   *)
(* exclude each other through the RWMutex.                                    *)
(*                                                                            *)
(* LenOutsideLock = TRUE models Keys()/Values() as written at the pinned      *)
(* commit: `make(..., len(s.entries))` is evaluated BEFORE RLock (finding F4).*)
EXTENDS Integers, Sequences, FiniteSets, TLC
CONSTANTS N,              \* number of goroutines, each running one method (every assignment is explored)
          LenOutsideLock
VARIABLES Methods, pc, writer, readers
AllMethods == {"Get", "GetWithMap", "GetWithLock", "Set", "SetNx", "SetX", "Delete", "Has", "Contains", "Len",
               "Keys", "Values", "Range", "All", "Clear", "Map"}
G == 1..N
\* methods that mutate take the write lock; Map() passes the map to a callback under the write lock
IsWriter(mt) == mt \in {"Set", "SetNx", "SetX", "Delete", "Clear", "Map"}
SizesFirst(mt) == mt \in {"Keys", "Values"} /\ LenOutsideLock

Init == /\ Methods \in [G -> AllMethods]
        /\ pc = [g \in G |-> IF SizesFirst(Methods[g]) THEN "prelen" ELSE "acquire"]
        /\ writer = 0 /\ readers = {}
\* the unlocked read of len(s.entries)
PreLen(g) == pc[g] = "prelen" /\ pc' = [pc EXCEPT ![g] = "acquire"] /\ UNCHANGED <<writer, readers, Methods>>
Acquire(g) == /\ pc[g] = "acquire"
              /\ IF IsWriter(Methods[g]) THEN writer = 0 /\ readers = {} /\ writer' = g /\ UNCHANGED readers
                                         ELSE writer = 0 /\ readers' = readers \cup {g} /\ UNCHANGED writer
              /\ pc' = [pc EXCEPT ![g] = "access"] /\ UNCHANGED Methods
Access(g) == pc[g] = "access" /\ pc' = [pc EXCEPT ![g] = "release"] /\ UNCHANGED <<writer, readers, Methods>>
Release(g) == /\ pc[g] = "release" /\ pc' = [pc EXCEPT ![g] = "done"] /\ UNCHANGED Methods
              /\ IF IsWriter(Methods[g]) THEN writer' = 0 /\ UNCHANGED readers ELSE readers' = readers \ {g} /\ UNCHANGED writer
Next == \E g \in G : PreLen(g) \/ Acquire(g) \/ Access(g) \/ Release(g)
vars == <<Methods, pc, writer, readers>>
Spec == Init /\ [][Next]_vars

\* the next step of g touches the map: kind of access
Touches(g) == pc[g] \in {"prelen", "access"}
Writes(g) == pc[g] = "access" /\ IsWriter(Methods[g])
NoRace == \A g, h \in G : (g # h /\ Touches(g) /\ Touches(h)) => ~(Writes(g) \/ Writes(h))
LockOK == /\ (writer # 0 => readers = {})
          /\ \A g \in G : pc[g] \in {"access", "release"} => (IF IsWriter(Methods[g]) THEN writer = g ELSE g \in readers)
=============================================================================
