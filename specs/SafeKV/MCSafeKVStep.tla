----------------------------- MODULE MCSafeKVStep -----------------------------
EXTENDS SafeKVStep
RECURSIVE SeqsOf(_, _)
SeqsOf(A, n) == IF n = 0 THEN {<<>>} ELSE {<<a>> \o s : a \in A, s \in SeqsOf(A, n - 1)}
\* calls of goroutine t (values carry the goroutine number)
All(t) == {<<"get", 1>>, <<"has", 1>>, <<"set", 1, 10 * t>>, <<"setnx", 1, 10 * t + 1>>, <<"setx", 1, 10 * t + 2>>, <<"delete", 1>>,
           <<"len">>, <<"keys">>, <<"clear">>, <<"set", 2, 10 * t + 3>>}
Core(t) == {<<"setnx", 1, 10 * t + 1>>, <<"set", 1, 10 * t>>, <<"delete", 1>>, <<"len">>}
Few(t) == {<<"setnx", 1, 10 * t + 1>>, <<"delete", 1>>, <<"keys">>}
Progs2x1 == {<<p1, p2>> : p1 \in SeqsOf(All(1), 1), p2 \in SeqsOf(All(2), 1)}
Progs2x2 == {<<p1, p2>> : p1 \in SeqsOf(Core(1), 2), p2 \in SeqsOf(Core(2), 2)}
Progs3x1 == {<<p1, p2, p3>> : p1 \in SeqsOf(Few(1), 1), p2 \in SeqsOf(Few(2), 1), p3 \in SeqsOf(Few(3), 1)}
ProgsQuick == Progs2x1 \cup Progs2x2 \cup Progs3x1
InitsQuick == {[k \in 1..2 |-> 0], [k \in 1..2 |-> IF k = 1 THEN 900 ELSE 0]}
Progs2x2All == {<<p1, p2>> : p1 \in SeqsOf(All(1), 2), p2 \in SeqsOf(All(2), 2)}
Progs3x1All == {<<p1, p2, p3>> : p1 \in SeqsOf(All(1), 1), p2 \in SeqsOf(All(2), 1), p3 \in SeqsOf(All(3), 1)}
ProgsThorough == Progs2x2All \cup Progs3x1All
=============================================================================
