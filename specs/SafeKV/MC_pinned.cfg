SPECIFICATION Spec
CONSTANTS
  N = 2
  LenOutsideLock = TRUE
INVARIANTS NoRace
CHECK_DEADLOCK FALSE
