SPECIFICATION Spec
CONSTANTS
  Progs <- ProgsThorough
  Inits <- InitsQuick
  NK = 2
INVARIANTS LockOK NoDeadlock
VIEW View
CHECK_DEADLOCK FALSE
