SPECIFICATION Spec
CONSTANTS
  N = 3
  LenOutsideLock = FALSE
INVARIANTS NoRace LockOK
CHECK_DEADLOCK FALSE
