SPECIFICATION Spec
CONSTANTS
  Progs <- ProgsQuick
  Inits <- InitsQuick
  NK = 2
INVARIANTS LockOK NoDeadlock
VIEW View
CHECK_DEADLOCK FALSE
ACTION_CONSTRAINT Emit
