------------------------------ MODULE SafeKVStep ------------------------------
(* Step-level, code-shaped specification of mapz/safekv.go for the            *)
(* deterministic scheduler: every method is  invoke -> acquire (RLock for     *)
(* readers, Lock for writers) -> body under the lock -> release -> return.    *)
(* One action = one lock operation plus the plain code that follows it (the   *)
(* harness grants exactly these pieces; `g` grants per action).  The body     *)
(* runs as one piece under the lock, so every method is atomic in this model; *)
(* the binding replays every edge on the real SafeKV and any deviation of the *)
(* code (a second critical section, an access outside the lock) shows up as a *)
(* different operation sequence, which is then explored and judged by         *)
(* AtomicMapHist.                                                             *)
EXTENDS Integers, Sequences, FiniteSets, TLC, Json
CONSTANTS Progs, Inits, NK
VARIABLES prog, m, w, rd, loc, last
Threads == 1..Len(prog)
K == 1..NK
SX == INSTANCE SequencesExt
Asc(S) == SX!SetToSortSeq(S, LAMBDA a, b : a < b)
Dom(mm) == {k \in K : mm[k] # 0}
Pairs(mm) == LET ks == Asc(Dom(mm)) IN [i \in 1..Len(ks) |-> <<ks[i], mm[ks[i]]>>]
HasOp(t) == loc[t].opi <= Len(prog[t])
Op(t) == prog[t][loc[t].opi]
IsWriter(o) == o[1] \in {"set", "setnx", "setx", "delete", "clear"}
Obs(t, g, ops) == [n |-> "Step", a |-> <<t, g>>, r |-> ops]
\* effect and result of a call applied to the map (the same table as AtomicMapHist!Apply)
Apply(o, mm) ==
    CASE o[1] = "get" -> <<mm, IF mm[o[2]] # 0 THEN <<mm[o[2]], TRUE>> ELSE <<0, FALSE>>>>
      [] o[1] = "has" -> <<mm, <<mm[o[2]] # 0>>>>
      [] o[1] = "set" -> <<[mm EXCEPT ![o[2]] = o[3]], <<>>>>
      [] o[1] = "setnx" -> <<IF mm[o[2]] = 0 THEN [mm EXCEPT ![o[2]] = o[3]] ELSE mm, <<mm[o[2]] = 0>>>>
      [] o[1] = "setx" -> <<IF mm[o[2]] # 0 THEN [mm EXCEPT ![o[2]] = o[3]] ELSE mm, <<mm[o[2]] # 0>>>>
      [] o[1] = "delete" -> <<[mm EXCEPT ![o[2]] = 0], <<>>>>
      [] o[1] = "len" -> <<mm, <<Cardinality(Dom(mm))>>>>
      [] o[1] = "keys" -> <<mm, <<Asc(Dom(mm))>>>>
      [] o[1] = "clear" -> <<[k \in K |-> 0], <<>>>>

Init == \E p \in Progs, i \in Inits :
    /\ prog = p /\ m = i /\ w = 0 /\ rd = {}
    /\ loc = [t \in 1..Len(p) |-> [pc |-> "idle", opi |-> 1, res |-> <<>>]]
    /\ last = [n |-> "Init", a |-> <<>>, r |-> <<>>]
Start(t) == /\ loc[t].pc = "idle" /\ HasOp(t)
            /\ loc' = [loc EXCEPT ![t].pc = "acq"] /\ last' = Obs(t, 1, <<>>)
            /\ UNCHANGED <<prog, m, w, rd>>
Acq(t) == /\ loc[t].pc = "acq"
          /\ IF IsWriter(Op(t)) THEN w = 0 /\ rd = {} /\ w' = t /\ UNCHANGED rd
                                ELSE w = 0 /\ rd' = rd \cup {t} /\ UNCHANGED w
          /\ LET r == Apply(Op(t), m) IN
             /\ m' = r[1] /\ loc' = [loc EXCEPT ![t].pc = "rel", ![t].res = r[2]]
          /\ last' = Obs(t, 2, << <<IF IsWriter(Op(t)) THEN "Lock" ELSE "RLock">> >>)
          /\ UNCHANGED prog
Rel(t) == /\ loc[t].pc = "rel"
          /\ IF IsWriter(Op(t)) THEN w' = 0 /\ UNCHANGED rd ELSE rd' = rd \ {t} /\ UNCHANGED w
          /\ loc' = [loc EXCEPT ![t].pc = "idle", ![t].opi = @ + 1]
          /\ last' = Obs(t, 2, << <<IF IsWriter(Op(t)) THEN "Unlock" ELSE "RUnlock">> >>)
          /\ UNCHANGED <<prog, m>>
Next == \E t \in Threads : Start(t) \/ Acq(t) \/ Rel(t)
vars == <<prog, m, w, rd, loc, last>>
Spec == Init /\ [][Next]_vars
LockOK == (w # 0 => rd = {}) /\ \A t \in Threads : (loc[t].pc = "rel") => (IF IsWriter(Op(t)) THEN w = t ELSE t \in rd)
NoDeadlock == (\E t \in Threads : HasOp(t)) => ENABLED Next

View == <<prog, m, w, rd, loc>>
InitPred == \A t \in Threads : loc[t].pc = "idle" /\ loc[t].opi = 1
St == [s |-> [prog |-> prog, pairs |-> Pairs(m), w |-> (w # 0), r |-> Cardinality(rd)],
       k |-> <<prog, m, w, rd, loc>>,
       o |-> [idx |-> [t \in Threads |-> IF loc[t].pc = "idle" THEN loc[t].opi - 1 ELSE loc[t].opi]],
       d |-> IF w = 0 THEN [pairs |-> Pairs(m), len |-> Cardinality(Dom(m))] ELSE [skipped |-> TRUE]]
Emit == PrintT(ToJson([i |-> InitPred, f |-> St, op |-> last', t |-> St']))
=============================================================================
