------------------------------ MODULE OwnedKeys ------------------------------
(* Large-map scenario of property C12: every key has ONE writer goroutine     *)
(* (keys are partitioned among the owners), so whatever the interleaving, the *)
(* map restricted to an owner's keys evolves exactly as that owner's program  *)
(* order says - this is what atomicity (AtomicMapHist) implies for single-    *)
(* writer keys.  The trace lists the completed calls owner by owner, with the *)
(* results they returned, and ends with what Keys/Values/Len/Get showed at    *)
(* quiescence.  m[k] = 0 means absent.  Maps of thousands of entries reach    *)
(* size-dependent code paths the four-key histories cannot.                   *)
EXTENDS Integers, Sequences, FiniteSets, TLC, Json
VARIABLES m, l
Trace == ndJsonDeserialize("trace.ndjson")
Ev == Trace[l]
Put(k, v) == m' = [m EXCEPT ![k] = v]
TReset == Ev.ev = "Reset" /\ m' = [k \in 1..Ev.n |-> 0]
TSet == Ev.ev = "Set" /\ Put(Ev.k, Ev.v)
TSetNx == Ev.ev = "SetNx" /\ Ev.r = (m[Ev.k] = 0) /\ (IF m[Ev.k] = 0 THEN Put(Ev.k, Ev.v) ELSE m' = m)
TSetX == Ev.ev = "SetX" /\ Ev.r = (m[Ev.k] # 0) /\ (IF m[Ev.k] # 0 THEN Put(Ev.k, Ev.v) ELSE m' = m)
TDelete == Ev.ev = "Delete" /\ Put(Ev.k, 0)
\* reads by the owner of its own key see its own last write
TGet == Ev.ev = "Get" /\ Ev.r = m[Ev.k] /\ m' = m
\* quiescence: the pairs are exactly the present keys with their last written values
TFinal == /\ Ev.ev = "Final" /\ m' = m
          /\ Ev.len = Cardinality({k \in DOMAIN m : m[k] # 0})
          /\ Len(Ev.pairs) = Ev.len
          /\ \A i \in 1..Len(Ev.pairs) : m[Ev.pairs[i][1]] = Ev.pairs[i][2] /\ Ev.pairs[i][2] # 0
          /\ \A i \in 1..Len(Ev.pairs) - 1 : Ev.pairs[i][1] < Ev.pairs[i + 1][1]
\* snapshot scenario: one writer moves ALL keys of a map to the next version inside one Map(fn) call, again and again;
\* whatever a reader obtains from one call of GetWithMap / Values / Range / All (hundreds of keys) is one state of the
\* map, hence of a single version, and complete
TSnap == /\ Ev.ev = "Snapshot" /\ m' = m
         /\ Len(Ev.versions) = 1 /\ Ev.n = Ev.keys
TNext == l <= Len(Trace) /\ l' = l + 1 /\ (TSnap \/ TReset \/ TSet \/ TSetNx \/ TSetX \/ TDelete \/ TGet \/ TFinal)
TSpec == l = 1 /\ m = <<>> /\ [][TNext]_<<m, l>>
Accepted == TLCGet("stats").diameter - 1 = Len(Trace)
=============================================================================
