SPECIFICATION Spec
CONSTANTS
  MaxT = 6
  NK = 4
CONSTRAINT HighWater
POSTCONDITION Accepted
CHECK_DEADLOCK FALSE
