SPECIFICATION TSpec
CONSTANTS
  Vals = {1}
  MaxLen = 100000
POSTCONDITION Accepted
CHECK_DEADLOCK FALSE
