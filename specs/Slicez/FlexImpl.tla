------------------------------ MODULE FlexImpl ------------------------------
(* Code-shaped specification of slicez/flex.go: the sequence plus the         *)
(* capacity of its backing array, which decides whether Prepend shifts in     *)
(* place or reallocates (to 2*cap or exactly the needed size) and when the    *)
(* slice shrinks (capacity above 8 and length at most a quarter of it -> new  *)
(* capacity max(2*len, 8)).  Appends that would grow the array are left to    *)
(* the random driver: Go's growth policy belongs to the runtime.              *)
EXTENDS Integers, Sequences, TLC, Json
CONSTANTS Vals, MaxLen, InitCaps
VARIABLES v, cap, last
Abs == INSTANCE FlexSeq
Max(a, b) == IF a > b THEN a ELSE b
ShrinkCap(c, n) == IF c > 8 /\ n <= c \div 4 THEN Max(2 * n, 8) ELSE c
Init == v = <<>> /\ cap \in InitCaps /\ last = Abs!R("Init", <<cap>>, <<>>)
AppendV(xs) == Len(v) + Len(xs) <= cap /\ Len(v) + Len(xs) <= MaxLen /\ Abs!AppendV(xs) /\ UNCHANGED cap
Prepend(xs) == /\ Len(v) + Len(xs) <= MaxLen /\ Abs!Prepend(xs)
               /\ LET nc == Len(v) + Len(xs) IN cap' = IF cap >= nc THEN cap ELSE IF 2 * cap >= nc THEN 2 * cap ELSE nc
Get(i) == Abs!Get(i) /\ UNCHANGED cap
Remove(i) == Abs!Remove(i) /\ cap' = IF Abs!In(i) THEN ShrinkCap(cap, Len(v) - 1) ELSE cap
Pop == Abs!Pop /\ cap' = IF v # <<>> THEN ShrinkCap(cap, Len(v) - 1) ELSE cap
Shift == Abs!Shift /\ cap' = IF v # <<>> THEN ShrinkCap(cap, Len(v) - 1) ELSE cap
SubSlice(st, en) == Abs!SubSlice(st, en) /\ UNCHANGED cap
Xs == {<<a>> : a \in Vals} \cup {<<a, b>> : a \in Vals, b \in Vals} \cup {<<>>}
\* (Lo / Hi stand for math.MinInt / math.MaxInt: the adapter substitutes them)
Lo == -2000000000
Hi == 2000000000
Ixs == (-1..Len(v) + 1) \cup {Lo, Hi}
Next == \/ \E xs \in Xs : AppendV(xs) \/ Prepend(xs)
        \/ \E i \in Ixs : Get(i) \/ Remove(i) \/ \E j \in Ixs : SubSlice(i, j)
        \/ Pop \/ Shift
vars == <<v, cap, last>>
Spec == Init /\ [][Next]_vars
CapOK == Len(v) <= cap
View == <<v, cap>>
St == [s |-> [cap |-> cap], k |-> <<v, cap>>, o |-> Abs!O, d |-> v]
Emit == PrintT(ToJson([i |-> (v = <<>> /\ cap \in InitCaps /\ last.n = "Init"), f |-> St, op |-> last', t |-> St']))
=============================================================================
