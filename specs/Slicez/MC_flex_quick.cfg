SPECIFICATION Spec
CONSTANTS
  Vals = {1, 2}
  MaxLen = 4
  InitCaps = {0, 2, 9, 12}
INVARIANT CapOK
VIEW View
CHECK_DEADLOCK FALSE
ACTION_CONSTRAINT Emit
