SPECIFICATION Spec
CONSTANTS
  Vals = {1, 2}
  MaxLen = 6
  InitCaps = {0, 1, 3, 8, 9, 12, 17, 24}
INVARIANT CapOK
VIEW View
CHECK_DEADLOCK FALSE
ACTION_CONSTRAINT Emit
