SPECIFICATION Spec
CONSTANT MaxLen = 6
