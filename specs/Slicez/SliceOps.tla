------------------------------ MODULE SliceOps ------------------------------
(* Specification of the slice functions of slicez/slices.go (property C14):   *)
(* set operations select elements of the first slice in first-slice order,    *)
(* the InPlace variants return the same elements as a multiset and leave the  *)
(* argument a permutation of itself, Chunk / SubSlice / Copy / Remove / Index *)
(* / Equal follow their clamping rules.  TLC enumerates every slice over      *)
(* {1,2,3} up to length MaxLen (and nil), every second operand, and all       *)
(* index / length / chunk arguments from -2 to len+2.                         *)
EXTENDS Integers, Sequences, FiniteSets, TLC, Json
CONSTANT MaxLen
VARIABLE x
\* Equal is element-wise ==: with elements that are not equal to themselves (a float NaN - the model value 2 stands
\* for it when the runner instantiates the slices with floats) a slice is not even equal to itself
EqNaN(a, b) == Len(a) = Len(b) /\ \A i \in 1..Len(a) : a[i] = b[i] /\ a[i] # 2
Emit(c) == PrintT(ToJson(c))
RECURSIVE SeqsUpTo(_, _)
SeqsUpTo(A, n) == IF n = 0 THEN {<<>>}
                  ELSE LET S == SeqsUpTo(A, n - 1) IN S \cup {Append(s, a) : s \in {y \in S : Len(y) = n - 1}, a \in A}
Slices == SeqsUpTo({1, 2, 3}, MaxLen)
Short == SeqsUpTo({1, 2, 3}, 2) \cup {<<3, 1, 2>>, <<2, 2, 2, 1>>}
ElemSet(s) == {s[i] : i \in 1..Len(s)}
Sel(s, P(_)) == SelectSeq(s, P)
DiffDef(s1, s2) == SelectSeq(s1, LAMBDA e : e \notin ElemSet(s2))
InterDef(s1, s2) == SelectSeq(s1, LAMBDA e : e \in ElemSet(s2))
\* first occurrences, by key
FirstIdx(s, K(_)) == {i \in 1..Len(s) : \A j \in 1..i - 1 : K(s[j]) # K(s[i])}
PickIdx(s, I) == LET n == Cardinality(I) IN [k \in 1..n |-> s[CHOOSE i \in I : Cardinality({j \in I : j < i}) = k - 1]]
UniqueDef(s) == PickIdx(s, FirstIdx(s, LAMBDA e : e))
UniqueKeyDef(s) == PickIdx(s, FirstIdx(s, LAMBDA e : e % 2))         \* key = parity
FilterDef(s) == SelectSeq(s, LAMBDA e : e % 2 = 1)                    \* predicate = odd
SubDef(s, st, en) == LET st1 == IF st < 0 THEN 0 ELSE st
                         en1 == IF en < 0 \/ en > Len(s) THEN Len(s) ELSE en
                     IN IF st > Len(s) \/ st1 >= en1 THEN <<>> ELSE SubSeq(s, st1 + 1, en1)
CopyDef(s, st, ln) == LET l == Len(s)  st1 == IF st < 0 THEN 0 ELSE st IN
                      IF l = 0 \/ st >= l \/ ln = 0 THEN <<>>
                      ELSE LET mx == l - st1  n == IF ln < 0 \/ ln > mx THEN mx ELSE ln IN SubSeq(s, st1 + 1, st1 + n)
\* Chunk: consecutive pieces of size n (only the last may be shorter); n < 1 or n >= len: the slice itself
ChunkDef(s, n) == IF s = <<>> THEN <<>>
                  ELSE IF n < 1 \/ Len(s) <= n THEN <<s>>
                  ELSE [k \in 1..((Len(s) + n - 1) \div n) |-> SubSeq(s, (k - 1) * n + 1, IF k * n > Len(s) THEN Len(s) ELSE k * n)]
IndexDef(s, e) == IF e \in ElemSet(s) THEN (CHOOSE i \in 1..Len(s) : s[i] = e /\ \A j \in 1..i - 1 : s[j] # e) - 1 ELSE -1
RemoveDef(s, i) == IF i < 0 \/ i >= Len(s) THEN <<s, 0, FALSE>> ELSE <<SubSeq(s, 1, i) \o SubSeq(s, i + 2, Len(s)), s[i + 1], TRUE>>

TwoCases == \A s1 \in Slices : \A s2 \in Short :
    Emit([fn |-> "two", s |-> s1, a |-> <<s2>>, out |-> [diff |-> DiffDef(s1, s2), inter |-> InterDef(s1, s2), equal |-> (s1 = s2), equalnan |-> EqNaN(s1, s2)]])
\* Unique on elements that are not equal to themselves (the model value 2 = NaN): no NaN is a duplicate of another
UniqueNaN(s) == LET keep == {i \in 1..Len(s) : s[i] = 2 \/ \A j \in 1..i - 1 : s[j] # s[i]} IN
                [k \in 1..Cardinality(keep) |-> s[CHOOSE i \in keep : Cardinality({j \in keep : j < i}) = k - 1]]
OneCases == \A s \in Slices :
    Emit([fn |-> "one", s |-> s, a |-> <<>>, out |-> [unique |-> UniqueDef(s), uniquekey |-> UniqueKeyDef(s), filter |-> FilterDef(s), uniquenan |-> UniqueNaN(s),
                                                     index |-> [e \in 1..4 |-> IndexDef(s, e)]]])
\* Huge stands for the largest int (the runner passes math.MaxInt / math.MinInt for +Huge / -Huge): arguments far beyond
\* the length must be clamped like any other oversized argument, without overflowing on the way
Huge == 1073741824
ArgVals(s) == (-2..Len(s) + 2) \cup {Huge, Huge - 1, -Huge}
ArgCases == \A s \in Slices : \A p \in ArgVals(s) : \A q \in ArgVals(s) :
    Emit([fn |-> "args", s |-> s, a |-> <<p, q>>, out |-> [sub |-> SubDef(s, p, q), copy |-> CopyDef(s, p, q), chunk |-> ChunkDef(s, p), remove |-> RemoveDef(s, p)]])
ASSUME TwoCases
ASSUME OneCases
ASSUME ArgCases
Init == x = 0
Next == x' = x
Spec == Init /\ [][Next]_x
=============================================================================
