------------------------------ MODULE FlexTrace ------------------------------
EXTENDS FlexSeq, Json, TLC
VARIABLE l
Trace == ndJsonDeserialize("trace.ndjson")
Ev == Trace[l]
A(i) == Ev.a[i]
Step(Act) == /\ l' = l + 1 /\ Act /\ last'.r = Ev.r /\ ("o" \in DOMAIN Ev => O' = Ev.o)
TReset == Ev.ev = "Reset" /\ l' = l + 1 /\ v' = <<>> /\ last' = R("Init", <<>>, <<>>)
TDrain == Ev.ev = "Drain" /\ l' = l + 1 /\ Ev.d = v /\ UNCHANGED vars
TStep == \/ TReset
         \/ TDrain
         \/ Ev.ev = "Append" /\ Step(AppendV(A(1)))
         \/ Ev.ev = "Prepend" /\ Step(Prepend(A(1)))
         \/ Ev.ev = "Get" /\ Step(Get(A(1)))
         \/ Ev.ev = "Remove" /\ Step(Remove(A(1)))
         \/ Ev.ev = "Pop" /\ Step(Pop)
         \/ Ev.ev = "Shift" /\ Step(Shift)
         \/ Ev.ev = "SubSlice" /\ Step(SubSlice(A(1), A(2)))
TNext == l <= Len(Trace) /\ TStep
TInit == l = 1 /\ v = <<>> /\ last = R("Init", <<>>, <<>>)
TSpec == TInit /\ [][TNext]_<<vars, l>>
Accepted == TLCGet("stats").diameter - 1 = Len(Trace)
=============================================================================
