------------------------------- MODULE FlexSeq -------------------------------
(* Abstract specification of slicez.FlexSlice (property C14): a sequence      *)
(* under Append / Prepend / Get / Remove / Pop / Shift / SubSlice, whatever   *)
(* the spare capacity is.                                                     *)
EXTENDS Integers, Sequences
CONSTANTS Vals, MaxLen
VARIABLES v, last
R(n, args, r) == [n |-> n, a |-> args, r |-> r]
In(i) == i >= 0 /\ i < Len(v)
RemoveAt(s, i) == SubSeq(s, 1, i) \o SubSeq(s, i + 2, Len(s))
\* SubSlice clamping: start > len -> empty; start < 0 -> 0; end < 0 or > len -> len; start >= end -> empty
SubOf(s, st, en) == LET st1 == IF st < 0 THEN 0 ELSE st
                        en1 == IF en < 0 \/ en > Len(s) THEN Len(s) ELSE en
                    IN IF st > Len(s) \/ st1 >= en1 THEN <<>> ELSE SubSeq(s, st1 + 1, en1)
AppendV(xs) == v' = v \o xs /\ last' = R("Append", <<xs>>, <<>>)
Prepend(xs) == v' = xs \o v /\ last' = R("Prepend", <<xs>>, <<>>)
Get(i) == last' = R("Get", <<i>>, IF In(i) THEN <<v[i + 1], TRUE>> ELSE <<0, FALSE>>) /\ UNCHANGED v
Remove(i) == /\ last' = R("Remove", <<i>>, IF In(i) THEN <<v[i + 1], TRUE>> ELSE <<0, FALSE>>)
             /\ v' = IF In(i) THEN RemoveAt(v, i) ELSE v
Pop == /\ last' = R("Pop", <<>>, IF v # <<>> THEN <<v[Len(v)], TRUE>> ELSE <<0, FALSE>>)
       /\ v' = IF v # <<>> THEN SubSeq(v, 1, Len(v) - 1) ELSE v
Shift == /\ last' = R("Shift", <<>>, IF v # <<>> THEN <<v[1], TRUE>> ELSE <<0, FALSE>>)
         /\ v' = IF v # <<>> THEN Tail(v) ELSE v
SubSlice(st, en) == last' = R("SubSlice", <<st, en>>, <<SubOf(v, st, en)>>) /\ UNCHANGED v
O == [len |-> Len(v), vals |-> v]
vars == <<v, last>>
=============================================================================
