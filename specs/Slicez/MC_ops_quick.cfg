SPECIFICATION Spec
CONSTANT MaxLen = 4
