SPECIFICATION TSpec
CONSTANTS
  Vals = {1, 2, 3}
POSTCONDITION Accepted
CHECK_DEADLOCK FALSE
