----------------------------- MODULE SetAlgTrace -----------------------------
EXTENDS SetAlg
VARIABLE l
Trace == ndJsonDeserialize("trace.ndjson")
Ev == Trace[l]
A(k) == Ev.a[k]
Step(Act) == /\ l' = l + 1 /\ Act /\ last'.r = Ev.r /\ ("o" \in DOMAIN Ev => O' = Ev.o)
TReset == Ev.ev = "Reset" /\ l' = l + 1 /\ m' = Rng(Ev.s.init) /\ last' = R("Init", <<>>, <<>>)
TDrain == Ev.ev = "Drain" /\ l' = l + 1 /\ Ev.d = Asc(m) /\ UNCHANGED vars
TStep == \/ TReset
         \/ TDrain
         \/ Ev.ev = "Add" /\ Step(Add(A(1)))
         \/ Ev.ev = "AddAll" /\ Step(AddAll(A(1)))
         \/ Ev.ev = "Has" /\ Step(Has(A(1)))
         \/ Ev.ev = "Delete" /\ Step(Delete(A(1)))
         \/ Ev.ev = "Values" /\ Step(ValuesInto(A(1)))
         \/ Ev.ev = "Clear" /\ Step(Clear)
         \/ Ev.ev = "FilterOdd" /\ Step(FilterOdd)
         \/ Ev.ev = "Merge" /\ Step(Merge(Rng(A(1))))
         \/ Ev.ev = "Diff" /\ Step(Diff(Rng(A(1))))
         \/ Ev.ev = "Intersect" /\ Step(Intersect(Rng(A(1))))
         \/ Ev.ev = "DiffWithSlice" /\ Step(DiffWithSlice(A(1)))
         \/ Ev.ev = "IntersectWithSlice" /\ Step(IntersectWithSlice(A(1)))
         \/ Ev.ev = "AddMapKeys" /\ Step(AddMapKeys(Rng(A(1))))
         \/ Ev.ev = "AddMapValues" /\ Step(AddMapValues(Rng(A(1))))
TNext == l <= Len(Trace) /\ TStep
TInit == l = 1 /\ m = {} /\ last = R("Init", <<>>, <<>>)
TSpec == TInit /\ [][TNext]_<<vars, l>>
Accepted == TLCGet("stats").diameter - 1 = Len(Trace)
=============================================================================
