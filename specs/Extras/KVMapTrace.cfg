SPECIFICATION TSpec
CONSTANTS
  Keys = {1, 2, 3}
  Vals = {1, 2}
POSTCONDITION Accepted
CHECK_DEADLOCK FALSE
