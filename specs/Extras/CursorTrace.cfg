SPECIFICATION TSpec
CONSTANTS
  MaxBuf = 2
  Srcs = {}
POSTCONDITION Accepted
CHECK_DEADLOCK FALSE
