-------------------------------- MODULE KVMap --------------------------------
(* mapz.KV[K, V] (extra X05, outside the listed properties; SafeKV of C12 wraps *)
(* it under a lock): a finite map.  One action per method.                      *)
EXTENDS Integers, Sequences, FiniteSets, TLC, Json
CONSTANTS Keys, Vals
VARIABLES m, last          \* m: function from the present keys to values
R(n, args, r) == [n |-> n, a |-> args, r |-> r]
SX == INSTANCE SequencesExt
Asc(S) == SX!SetToSortSeq(S, LAMBDA a, b : a < b)
Rng(s) == {s[k] : k \in 1..Len(s)}
Put(k, v) == [x \in DOMAIN m \cup {k} |-> IF x = k THEN v ELSE m[x]]
Without(S) == [x \in DOMAIN m \ S |-> m[x]]
Get(k) == UNCHANGED m /\ last' = R("Get", <<k>>, IF k \in DOMAIN m THEN <<m[k], TRUE>> ELSE <<0, FALSE>>)
Set(k, v) == m' = Put(k, v) /\ last' = R("Set", <<k, v>>, <<>>)
SetNx(k, v) == m' = (IF k \in DOMAIN m THEN m ELSE Put(k, v)) /\ last' = R("SetNx", <<k, v>>, <<k \notin DOMAIN m>>)
SetX(k, v) == m' = (IF k \in DOMAIN m THEN Put(k, v) ELSE m) /\ last' = R("SetX", <<k, v>>, <<k \in DOMAIN m>>)
Delete(ks) == m' = Without(Rng(ks)) /\ last' = R("Delete", <<ks>>, <<>>)
Has(k) == UNCHANGED m /\ last' = R("Has", <<k>>, <<k \in DOMAIN m>>)
\* Range(fn) with fn returning false after n calls: exactly min(n, size) calls, all on distinct present pairs
RangeStop(n) == UNCHANGED m /\ last' = R("RangeStop", <<n>>, <<IF n < Cardinality(DOMAIN m) THEN n ELSE Cardinality(DOMAIN m)>>)
\* the free functions Keys(m, m) / Values(m, m) over several maps concatenate
KeysTwice == UNCHANGED m /\ last' = R("KeysTwice", <<>>, <<Asc(DOMAIN m) \o Asc(DOMAIN m)>>)
O == [len |-> Cardinality(DOMAIN m), keys |-> Asc(DOMAIN m),
      pairs |-> [i \in 1..Cardinality(DOMAIN m) |-> <<Asc(DOMAIN m)[i], m[Asc(DOMAIN m)[i]]>>],
      nvalues |-> Cardinality(DOMAIN m)]
Init == m = <<>> /\ last = R("Init", <<>>, <<>>)
KeySeqs == {<<>>} \cup {<<a>> : a \in Keys} \cup {<<a, b>> : a \in Keys, b \in Keys}
Next == \/ \E k \in Keys : Get(k) \/ Has(k) \/ \E v \in Vals : Set(k, v) \/ SetNx(k, v) \/ SetX(k, v)
        \/ \E ks \in KeySeqs : Delete(ks)
        \/ \E n \in 0..Cardinality(Keys) : RangeStop(n)
        \/ KeysTwice
vars == <<m, last>>
Spec == Init /\ [][Next]_vars
TypeOK == DOMAIN m \subseteq Keys /\ \A k \in DOMAIN m : m[k] \in Vals
View == m
St == [s |-> [n |-> Cardinality(DOMAIN m)], k |-> O.pairs, o |-> O, d |-> O.pairs]
Emit == PrintT(ToJson([i |-> (last.n = "Init"), f |-> St, op |-> last', t |-> St']))
=============================================================================
