------------------------------- MODULE SetAlg -------------------------------
(* setz.Set[T] and dsz.Set[T] (extra X04, outside the listed properties): a    *)
(* mutable set under the set algebra the methods are named after.              *)
(* `m` is the set; every method is one action; results as the adapter reports  *)
(* them (enumerations sorted, since map order is unspecified).                 *)
EXTENDS Integers, Sequences, FiniteSets, TLC, Json
CONSTANTS Vals
VARIABLES m, last
R(n, args, r) == [n |-> n, a |-> args, r |-> r]
SX == INSTANCE SequencesExt
Asc(S) == SX!SetToSortSeq(S, LAMBDA a, b : a < b)
Rng(s) == {s[k] : k \in 1..Len(s)}
Odd(v) == v % 2 = 1
Add(v) == m' = m \cup {v} /\ last' = R("Add", <<v>>, <<v \notin m>>)
AddAll(vs) == m' = m \cup Rng(vs) /\ last' = R("AddAll", <<vs>>, <<>>)
Has(v) == UNCHANGED m /\ last' = R("Has", <<v>>, <<v \in m>>)
Delete(v) == m' = m \ {v} /\ last' = R("Delete", <<v>>, <<v \in m>>)
\* Values(dst) appends the members to dst: the prefix is untouched, the rest is the set
ValuesInto(dst) == UNCHANGED m /\ last' = R("Values", <<dst>>, <<dst, Asc(m)>>)
Clear == m' = {} /\ last' = R("Clear", <<>>, <<>>)
FilterOdd == m' = {v \in m : Odd(v)} /\ last' = R("FilterOdd", <<>>, <<>>)
Merge(o) == m' = m \cup o /\ last' = R("Merge", <<Asc(o)>>, <<>>)
Diff(o) == m' = m \ o /\ last' = R("Diff", <<Asc(o)>>, <<>>)
Intersect(o) == m' = m \cap o /\ last' = R("Intersect", <<Asc(o)>>, <<>>)
DiffWithSlice(vs) == m' = m \ Rng(vs) /\ last' = R("DiffWithSlice", <<vs>>, <<>>)
IntersectWithSlice(vs) == m' = m \cap Rng(vs) /\ last' = R("IntersectWithSlice", <<vs>>, <<>>)
\* map keys / values poured into the set (the map is key k -> value (k % 2) + 1, keys o)
AddMapKeys(o) == m' = m \cup o /\ last' = R("AddMapKeys", <<Asc(o)>>, <<>>)
AddMapValues(o) == m' = m \cup {(k % 2) + 1 : k \in o} /\ last' = R("AddMapValues", <<Asc(o)>>, <<>>)
O == [len |-> Cardinality(m), vals |-> Asc(m), range |-> Asc(m), has |-> [k \in 1..Len(Asc(Vals)) |-> Asc(Vals)[k] \in m]]
Slices == {<<>>} \cup {<<a>> : a \in Vals} \cup {<<a, b>> : a \in Vals, b \in Vals}
Init == m \in {{}, Vals} /\ last = R("Init", <<Asc(m)>>, <<>>)
Next == \/ \E v \in Vals : Add(v) \/ Has(v) \/ Delete(v)
        \/ \E vs \in Slices : AddAll(vs) \/ DiffWithSlice(vs) \/ IntersectWithSlice(vs) \/ ValuesInto(vs)
        \/ \E o \in SUBSET Vals : Merge(o) \/ Diff(o) \/ Intersect(o) \/ AddMapKeys(o) \/ AddMapValues(o)
        \/ Clear \/ FilterOdd
vars == <<m, last>>
Spec == Init /\ [][Next]_vars
TypeOK == m \subseteq Vals
View == m
St == [s |-> [init |-> Asc(m)], k |-> Asc(m), o |-> O, d |-> Asc(m)]
Emit == PrintT(ToJson([i |-> (last.n = "Init"), f |-> St, op |-> last', t |-> St']))
=============================================================================
