SPECIFICATION TSpec
CONSTANTS
  Vals = {1, 2, 3, 4}
POSTCONDITION Accepted
CHECK_DEADLOCK FALSE
