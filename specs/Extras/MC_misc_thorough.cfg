SPECIFICATION Spec
CONSTANTS
  MaxSort = 7
  MaxParts = 3
