SPECIFICATION Spec
CONSTANTS
  MaxLayers = 4
INVARIANTS ShieldHolds FlowsDown ValuesThrough Emit
PROPERTY Monotone
CHECK_DEADLOCK FALSE
