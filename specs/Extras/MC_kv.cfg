SPECIFICATION Spec
CONSTANTS
  Keys = {1, 2, 3}
  Vals = {1, 2}
INVARIANT TypeOK
VIEW View
CHECK_DEADLOCK FALSE
ACTION_CONSTRAINT Emit
