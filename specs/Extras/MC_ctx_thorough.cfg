SPECIFICATION Spec
CONSTANTS
  MaxLayers = 5
INVARIANTS ShieldHolds FlowsDown ValuesThrough Emit
PROPERTY Monotone
CHECK_DEADLOCK FALSE
