------------------------------- MODULE Recover -------------------------------
(* goz.Recover(fn, panicFn, cleanups...) (extra X03, outside the listed        *)
(* properties; Limiter.Go is Recover(task, handler, done)).                    *)
(* One action per step the code takes:                                         *)
(*   RunFn           fn runs: returns, panics, or ends its goroutine (Goexit)  *)
(*   Handler         the deferred function recovers a panic of fn and hands it *)
(*                   to panicFn (or prints it when there is none)              *)
(*   Cleanup         cleanups run in order                                     *)
(*   CleanupHandler  a panicking cleanup is recovered, reported with its index *)
(*                   ("cleanup panic: <p>, index: <i>") and ENDS the cleanup   *)
(*                   phase: the remaining cleanups do not run (as the code is) *)
(*   a panicFn that itself panics is not recovered: the panic leaves Recover   *)
(*   and, if it happened while reporting fn's panic, no cleanup has run        *)
(* The scenario (what each callback does) is chosen in Init; the behaviour is  *)
(* then deterministic and its event log is what the real code must produce.    *)
EXTENDS Integers, Sequences, FiniteSets, TLC, Json
CONSTANTS MaxCleanups
VARIABLES sc,     \* scenario: [fo, hp, hpan, co]
          pc, i, log, esc
vars == <<sc, pc, i, log, esc>>
Scenarios == {[fo |-> fo, hp |-> hp, hpan |-> hpan, co |-> co] :
                 fo \in {"ret", "panic", "goexit"}, hp \in BOOLEAN, hpan \in BOOLEAN,
                 co \in UNION {[1..n -> {"ret", "panic"}] : n \in 0..MaxCleanups}} 
N == Len(sc.co)
Init == sc \in {s \in Scenarios : s.hpan => s.hp} /\ pc = "fn" /\ i = 1 /\ log = <<>> /\ esc = "none"
RunFn == /\ pc = "fn" /\ log' = Append(log, <<"fn">>)
         /\ pc' = IF sc.fo = "panic" THEN "handler" ELSE "cleanup"
         /\ UNCHANGED <<sc, i, esc>>
Handler == /\ pc = "handler"
           /\ log' = IF sc.hp THEN Append(log, <<"handler", "fn">>) ELSE log
           /\ IF sc.hp /\ sc.hpan THEN pc' = "done" /\ esc' = "handler" ELSE pc' = "cleanup" /\ esc' = esc
           /\ UNCHANGED <<sc, i>>
Cleanup == /\ pc = "cleanup"
           /\ IF i > N THEN pc' = "done" /\ UNCHANGED <<i, log>>
              ELSE /\ log' = Append(log, <<"cleanup", i>>)
                   /\ IF sc.co[i] = "panic" THEN pc' = "cleanupHandler" /\ i' = i ELSE pc' = pc /\ i' = i + 1
           /\ UNCHANGED <<sc, esc>>
CleanupHandler == /\ pc = "cleanupHandler"
                  /\ log' = IF sc.hp THEN Append(log, <<"handler", "cleanup", i - 1>>) ELSE log    \* zero-based index in the message
                  /\ esc' = IF sc.hp /\ sc.hpan THEN "handler" ELSE esc
                  /\ pc' = "done" /\ UNCHANGED <<sc, i>>
Next == RunFn \/ Handler \/ Cleanup \/ CleanupHandler
Spec == Init /\ [][Next]_vars /\ WF_vars(Next)

\* ---- what a user of Recover relies on
Events(kind) == {k \in 1..Len(log) : log[k][1] = kind}
\* the handler hears of fn's panic before any cleanup runs
HandlerFirst == \A h \in Events("handler") : log[h][2] = "fn" => \A c \in Events("cleanup") : h < c
\* cleanups run in order, each at most once, without gaps
CleanupOrder == \A c \in Events("cleanup") : log[c][2] = 1 + Cardinality({d \in Events("cleanup") : d < c})
\* nothing escapes Recover unless panicFn itself panics
NoEscape == esc # "none" => sc.hp /\ sc.hpan
\* when no callback other than fn panics, every cleanup has run by the end - also after Goexit
AllCleanups == (pc = "done" /\ ~sc.hpan /\ \A k \in 1..N : sc.co[k] = "ret") => Cardinality(Events("cleanup")) = N
Terminates == <>(pc = "done")
\* one case per terminal state
EmitDone == pc = "done" => PrintT(ToJson([fn |-> "recover", s |-> <<sc.fo, sc.hp, sc.hpan>>, a |-> sc.co, out |-> [log |-> log, esc |-> esc]]))
=============================================================================
