------------------------------- MODULE CtxTree -------------------------------
(* ctxz.WithoutCancel inside a chain of contexts (extra X06, outside the       *)
(* listed properties).  A chain is built from context.Background() by layers   *)
(*   "c"    context.WithCancel            "df"  WithDeadline far in the future *)
(*   "dp"   WithDeadline in the past      "v1" / "v1b" / "v2"  WithValue       *)
(*   "n"    ctxz.WithoutCancel                                                 *)
(* and then layers of kind c / df are cancelled one after the other (actions). *)
(* The state is the set of cancelled layers; the observation of every layer j  *)
(* (Done closed?, Err, has a deadline?, the values of three keys) is a         *)
(* function of the chain and that set:                                         *)
(*   - cancellation and deadlines flow DOWN the chain but never across an "n"  *)
(*     layer: below the last shield only what lies between shield and j counts *)
(*   - values flow down the whole chain, shields or not                        *)
(* TLC explores every chain up to MaxLayers and every order of cancellations,  *)
(* checks the invariants below and prints one case per reachable state; the    *)
(* runner builds the chain with the real packages, performs the cancellations  *)
(* and compares every layer's observation.                                     *)
EXTENDS Integers, Sequences, FiniteSets, TLC, Json
CONSTANTS MaxLayers
VARIABLES chain, cancelled, order
vars == <<chain, cancelled, order>>
Kinds == {"c", "df", "dp", "v1", "v1b", "v2", "n"}
RECURSIVE SeqsUpTo(_, _)
SeqsUpTo(A, n) == IF n = 0 THEN {<<>>}
                  ELSE LET S == SeqsUpTo(A, n - 1) IN S \cup {Append(s, a) : s \in {y \in S : Len(y) = n - 1}, a \in A}
N == Len(chain)
Max(S) == CHOOSE m \in S : \A x \in S : x <= m
\* the last WithoutCancel layer at or above j (0: none)
Shield(j) == Max({0} \cup {i \in 1..j : chain[i] = "n"})
Live(j) == Shield(j) + 1..j          \* the layers whose cancellation / deadline reach layer j
Expired(j) == \E i \in Live(j) : chain[i] = "dp"
Done(j) == Expired(j) \/ \E i \in Live(j) : i \in cancelled
\* a deadline in the past ends a context when it is created, before anything is cancelled, and wins
Err(j) == IF Expired(j) THEN "deadline" ELSE IF Done(j) THEN "canceled" ELSE "nil"
HasDeadline(j) == \E i \in Live(j) : chain[i] \in {"df", "dp"}
\* key 1 is set by v1 (value 1) and v1b (value 2), key 2 by v2 (value 3), key 3 never: nearest layer above wins
Val(j, k) == LET S == {i \in 1..j : (k = 1 /\ chain[i] \in {"v1", "v1b"}) \/ (k = 2 /\ chain[i] = "v2")} IN
             IF S = {} THEN 0 ELSE CASE chain[Max(S)] = "v1" -> 1 [] chain[Max(S)] = "v1b" -> 2 [] OTHER -> 3
Obs(j) == [done |-> Done(j), err |-> Err(j), deadline |-> HasDeadline(j), vals |-> <<Val(j, 1), Val(j, 2), Val(j, 3)>>]

Init == /\ chain \in {s \in SeqsUpTo(Kinds, MaxLayers) : \E i \in 1..Len(s) : s[i] = "n"}
        /\ cancelled = {} /\ order = <<>>
Cancel(i) == /\ chain[i] \in {"c", "df"} /\ i \notin cancelled
             /\ cancelled' = cancelled \cup {i} /\ order' = Append(order, i) /\ UNCHANGED chain
Next == \E i \in 1..N : Cancel(i)
Spec == Init /\ [][Next]_vars

\* ---- checked by TLC
\* a WithoutCancel layer is never done, has no deadline and no error, whatever happens above it
ShieldHolds == \A j \in 1..N : chain[j] = "n" => ~Done(j) /\ Err(j) = "nil" /\ ~HasDeadline(j)
\* a layer that is done stays done; so does its error
Monotone == [][\A j \in 1..N : Done(j) => (Done(j)' /\ Err(j)' = Err(j))]_vars
\* cancellation flows down: below a done layer everything up to the next shield is done
FlowsDown == \A j \in 1..N - 1 : (Done(j) /\ chain[j + 1] # "n") => Done(j + 1)
\* values are untouched by shields and cancellations
ValuesThrough == \A j \in 1..N : \A k \in 1..3 : Val(j, k) = (LET S == {i \in 1..j : (k = 1 /\ chain[i] \in {"v1", "v1b"}) \/ (k = 2 /\ chain[i] = "v2")} IN
                                                             IF S = {} THEN 0 ELSE IF chain[Max(S)] = "v1" THEN 1 ELSE IF chain[Max(S)] = "v1b" THEN 2 ELSE 3)
Emit == PrintT(ToJson([fn |-> "ctx", s |-> chain, a |-> <<order>>, out |-> [j \in 1..N |-> Obs(j)]]))
=============================================================================
