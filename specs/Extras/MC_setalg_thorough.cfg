SPECIFICATION Spec
CONSTANTS
  Vals = {1, 2, 3, 4}
INVARIANT TypeOK
VIEW View
CHECK_DEADLOCK FALSE
ACTION_CONSTRAINT Emit
