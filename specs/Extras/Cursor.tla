------------------------------- MODULE Cursor -------------------------------
(* strz.Reader[T] (outside the twenty listed properties): a read cursor over  *)
(* an immutable byte sequence, implementing io.Reader, io.ReaderAt,           *)
(* io.ByteScanner, io.WriterTo and io.Seeker.                                  *)
(*   s    the underlying bytes (replaced only by Reset)                        *)
(*   i    the cursor; Seek may put it beyond the end, never before the start   *)
(* Every operation is one action; `last` holds name, arguments and result the  *)
(* way the Go adapter reports them.                                            *)
EXTENDS Integers, Sequences, TLC, Json
CONSTANTS Srcs,       \* the byte sequences a reader is created / Reset with
          MaxBuf      \* buffer sizes 0..MaxBuf
VARIABLES s, i, last
R(n, args, r) == [n |-> n, a |-> args, r |-> r]
Min(a, b) == IF a < b THEN a ELSE b
Rest == IF i >= Len(s) THEN <<>> ELSE SubSeq(s, i + 1, Len(s))
Piece(from, n) == SubSeq(s, from + 1, Min(from + n, Len(s)))

\* io.Reader: at the end (0, EOF) even for an empty buffer; otherwise as many bytes as fit, no error
Read(n) == IF i >= Len(s) THEN last' = R("Read", <<n>>, <<<<>>, "EOF">>) /\ UNCHANGED <<s, i>>
           ELSE LET d == Piece(i, n) IN last' = R("Read", <<n>>, <<d, "">>) /\ i' = i + Len(d) /\ UNCHANGED s
\* io.ReaderAt: does not move the cursor; a short read carries EOF
ReadAt(n, off) == /\ UNCHANGED <<s, i>>
                  /\ last' = R("ReadAt", <<n, off>>,
                        IF off < 0 THEN <<<<>>, "err">>
                        ELSE IF off >= Len(s) THEN <<<<>>, "EOF">>
                        ELSE LET d == Piece(off, n) IN <<d, IF Len(d) < n THEN "EOF" ELSE "">>)
ReadByte == IF i >= Len(s) THEN last' = R("ReadByte", <<>>, <<0, "EOF">>) /\ UNCHANGED <<s, i>>
            ELSE last' = R("ReadByte", <<>>, <<s[i + 1], "">>) /\ i' = i + 1 /\ UNCHANGED s
UnreadByte == IF i <= 0 THEN last' = R("UnreadByte", <<>>, <<"err">>) /\ UNCHANGED <<s, i>>
              ELSE last' = R("UnreadByte", <<>>, <<"">>) /\ i' = i - 1 /\ UNCHANGED s
\* io.WriterTo into a writer that takes at most k bytes and (fail) reports an error of its own: the cursor
\* advances by what was written; a short write without an error of the writer is io.ErrShortWrite
WriteTo(k, fail) == IF i >= Len(s) THEN last' = R("WriteTo", <<k, fail>>, <<<<>>, 0, "">>) /\ UNCHANGED <<s, i>>
                    ELSE LET m == Min(k, Len(Rest)) IN
                         /\ last' = R("WriteTo", <<k, fail>>, <<SubSeq(Rest, 1, m), m, IF fail THEN "werr" ELSE IF m # Len(Rest) THEN "short" ELSE "">>)
                         /\ i' = i + m /\ UNCHANGED s
\* io.Seeker: whence 0 start, 1 current, 2 end; anything else, or a negative target, is an error and moves nothing
Target(off, wh) == IF wh = 0 THEN off ELSE IF wh = 1 THEN i + off ELSE Len(s) + off
Seek(off, wh) == IF wh \notin {0, 1, 2} \/ Target(off, wh) < 0
                 THEN last' = R("Seek", <<off, wh>>, <<0, "err">>) /\ UNCHANGED <<s, i>>
                 ELSE last' = R("Seek", <<off, wh>>, <<Target(off, wh), "">>) /\ i' = Target(off, wh) /\ UNCHANGED s
ResetTo(src) == s' = src /\ i' = 0 /\ last' = R("ResetTo", <<src>>, <<>>)
Close == last' = R("Close", <<>>, <<"">>) /\ UNCHANGED <<s, i>>

\* what the public read-only methods show
O == [len |-> IF i >= Len(s) THEN 0 ELSE Len(s) - i, size |-> Len(s), bytes |-> Rest]

Init == s \in Srcs /\ i = 0 /\ last = R("Init", <<s>>, <<>>)
Next == \/ \E n \in 0..MaxBuf : Read(n) \/ \E off \in -1..Len(s) + 1 : ReadAt(n, off)
        \/ ReadByte \/ UnreadByte \/ Close
        \/ \E k \in 0..MaxBuf, f \in BOOLEAN : WriteTo(k, f)
        \/ \E wh \in 0..3, off \in -(Len(s) + 2)..Len(s) + 2 : Target(off, wh) <= Len(s) + 2 /\ Seek(off, wh)
        \/ \E src \in Srcs : ResetTo(src)
vars == <<s, i, last>>
Spec == Init /\ [][Next]_vars
\* invariants of the design: the cursor never goes negative; what is left to read is a suffix of s
CursorOK == i >= 0 /\ O.len + Min(i, Len(s)) = Len(s)
\* reading to the end concatenates to the rest (the action property the io contracts amount to)
ReadsAdvance == [][last'.n \in {"Read", "ReadByte", "WriteTo"} => (i' >= i /\ i' - i <= Len(Rest))]_vars
View == <<s, i>>
St == [s |-> [i |-> i, src |-> s], k |-> <<s, i>>, o |-> O, d |-> Rest]
Emit == PrintT(ToJson([i |-> (i = 0 /\ last.n = "Init"), f |-> St, op |-> last', t |-> St']))
=============================================================================
