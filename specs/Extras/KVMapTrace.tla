------------------------------ MODULE KVMapTrace ------------------------------
EXTENDS KVMap
VARIABLE l
Trace == ndJsonDeserialize("trace.ndjson")
Ev == Trace[l]
A(k) == Ev.a[k]
Step(Act) == /\ l' = l + 1 /\ Act /\ last'.r = Ev.r /\ ("o" \in DOMAIN Ev => O' = Ev.o)
TReset == Ev.ev = "Reset" /\ l' = l + 1 /\ m' = <<>> /\ last' = R("Init", <<>>, <<>>)
TDrain == Ev.ev = "Drain" /\ l' = l + 1 /\ Ev.d = O.pairs /\ UNCHANGED vars
TStep == \/ TReset
         \/ TDrain
         \/ Ev.ev = "Get" /\ Step(Get(A(1)))
         \/ Ev.ev = "Has" /\ Step(Has(A(1)))
         \/ Ev.ev = "Set" /\ Step(Set(A(1), A(2)))
         \/ Ev.ev = "SetNx" /\ Step(SetNx(A(1), A(2)))
         \/ Ev.ev = "SetX" /\ Step(SetX(A(1), A(2)))
         \/ Ev.ev = "Delete" /\ Step(Delete(A(1)))
         \/ Ev.ev = "RangeStop" /\ Step(RangeStop(A(1)))
         \/ Ev.ev = "KeysTwice" /\ Step(KeysTwice)
TNext == l <= Len(Trace) /\ TStep
TInit == l = 1 /\ Init
TSpec == TInit /\ [][TNext]_<<vars, l>>
Accepted == TLCGet("stats").diameter - 1 = Len(Trace)
=============================================================================
