SPECIFICATION Spec
CONSTANTS
  MaxCleanups = 3
INVARIANTS HandlerFirst CleanupOrder NoEscape AllCleanups EmitDone
PROPERTY Terminates
CHECK_DEADLOCK FALSE
