SPECIFICATION Spec
CONSTANTS
  MaxSort = 5
  MaxParts = 2
