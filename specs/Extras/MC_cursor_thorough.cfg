SPECIFICATION Spec
CONSTANTS
  MaxBuf = 4
  Srcs <- SrcsThorough
INVARIANT CursorOK
PROPERTY ReadsAdvance
VIEW View
CHECK_DEADLOCK FALSE
ACTION_CONSTRAINT Emit
