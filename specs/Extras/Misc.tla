-------------------------------- MODULE Misc --------------------------------
(* Small pure helpers outside the twenty listed properties (extra X02):       *)
(*   sortz      Asc / Desc / AscByKey / DescByKey / AscStableByKey /          *)
(*              DescStableByKey: the result is a permutation of the input,    *)
(*              ordered by key; the stable variants keep equal keys in input  *)
(*              order (the case carries the stable order as original indices) *)
(*   mathz      Max Min Sum Pow Abs BitCount IsPower2 IsEven Swap Binary      *)
(*              MaxBitApprox MinBitApprox on small integers                   *)
(*   strz.KeyGenerator  Generate / With / Spread as operations on the list of *)
(*              segments; With is persistent (siblings do not disturb each    *)
(*              other)                                                        *)
(*   strz.IPv4ToLong / LongToIPv4 on dotted quads                              *)
(*   mapz.Body  QueryString = "k=v" pairs in key order; Read streams the JSON *)
(*              document whatever the buffer sizes are                        *)
(* TLC prints one case per line; the Go runner executes the real functions.   *)
EXTENDS Integers, Sequences, FiniteSets, TLC, Json
CONSTANTS MaxSort, MaxParts
VARIABLE x
Emit(c) == PrintT(ToJson(c))
RECURSIVE SeqsUpTo(_, _)
SeqsUpTo(A, n) == IF n = 0 THEN {<<>>}
                  ELSE LET S == SeqsUpTo(A, n - 1) IN S \cup {Append(s, a) : s \in {y \in S : Len(y) = n - 1}, a \in A}
SX == INSTANCE SequencesExt

\* ---- sortz: keys 1..3; the element at input position i is <<key, i>>
\* stable ascending order = by (key, position); stable descending = by (-key, position)
StableAsc(ks) == SX!SetToSortSeq(1..Len(ks), LAMBDA a, b : ks[a] < ks[b] \/ (ks[a] = ks[b] /\ a < b))
StableDesc(ks) == SX!SetToSortSeq(1..Len(ks), LAMBDA a, b : ks[a] > ks[b] \/ (ks[a] = ks[b] /\ a < b))
LongKeys == {[i \in 1..n |-> ((i * m) % 5) + 1] : n \in {12, 13, 40, 100}, m \in {1, 3, 7}}
SortCases == \A ks \in SeqsUpTo(1..3, MaxSort) \cup LongKeys :
    Emit([fn |-> "sort", s |-> ks, a |-> <<>>,
          out |-> [asc |-> StableAsc(ks), desc |-> StableDesc(ks)]])

\* ---- mathz
RECURSIVE PowR(_, _)
PowR(b, n) == IF n = 0 THEN 1 ELSE b * PowR(b, n - 1)
RECURSIVE Pop(_)
Pop(n) == IF n = 0 THEN 0 ELSE (n % 2) + Pop(n \div 2)
AbsV(n) == IF n < 0 THEN -n ELSE n
IsPow2(n) == \E k \in 0..30 : n = 2 ^ k
HighBit(n) == CHOOSE p \in {2 ^ k : k \in 0..30} : p <= n /\ 2 * p > n                 \* n >= 1
LowBit(n) == IF n = 0 THEN 0 ELSE CHOOSE p \in {2 ^ k : k \in 0..30} : AbsV(n) % p = 0 /\ AbsV(n) % (2 * p) # 0
RECURSIVE Bin(_)
Bin(n) == IF n < 2 THEN <<n>> ELSE Append(Bin(n \div 2), n % 2)
MaxOf(s) == IF s = <<>> THEN 0 ELSE CHOOSE m \in {s[i] : i \in 1..Len(s)} : \A i \in 1..Len(s) : s[i] <= m
MinOf(s) == IF s = <<>> THEN 0 ELSE CHOOSE m \in {s[i] : i \in 1..Len(s)} : \A i \in 1..Len(s) : s[i] >= m
RECURSIVE SumOf(_)
SumOf(s) == IF s = <<>> THEN 0 ELSE Head(s) + SumOf(Tail(s))
MathCases ==
    /\ \A b \in -3..3 : \A n \in 0..9 : Emit([fn |-> "pow", s |-> <<b, n>>, a |-> <<>>, out |-> <<PowR(b, n)>>])
    /\ \A n \in -70..70 : Emit([fn |-> "int1", s |-> <<n>>, a |-> <<>>,
            out |-> [abs |-> AbsV(n), even |-> n % 2 = 0, lowbit |-> LowBit(n)]])
    /\ \A n \in 0..130 : Emit([fn |-> "nat1", s |-> <<n>>, a |-> <<>>,
            out |-> [bits |-> Pop(n), pow2 |-> IsPow2(n), highbit |-> IF n = 0 THEN 0 ELSE HighBit(n), bin |-> Bin(n)]])
    /\ \A s \in SeqsUpTo(-2..2, 3) : Emit([fn |-> "agg", s |-> s, a |-> <<>>, out |-> [max |-> MaxOf(s), min |-> MinOf(s), sum |-> SumOf(s)]])
    /\ \A p \in (-2..2) \X (-2..2) : Emit([fn |-> "swap", s |-> <<p[1], p[2]>>, a |-> <<>>, out |-> <<p[2], p[1]>>])

\* ---- strz.KeyGenerator: a generator is the list of its prefix segments; segments are non-empty and free of
\* the delimiter (an empty or delimiter-carrying segment is indistinguishable from two segments in the key text)
Segs == {"a", "bc", "d"}
KeyCases == \A base \in SeqsUpTo(Segs, MaxParts) : \A w1 \in SeqsUpTo(Segs, 2) : \A w2 \in SeqsUpTo({"x"}, 1) : \A g \in SeqsUpTo({"k", "bc"}, 2) \ {<<>>} :    \* (Generate() without segments yields the bare prefix, delimiter included)
    Emit([fn |-> "key", s |-> base, a |-> <<w1, w2, g>>,
          out |-> [self |-> base \o g,           \* NewKeyGenerator(d, base...).Generate(g...)
                   c1 |-> base \o w1 \o g,       \* .With(w1...).Generate(g...)
                   c2 |-> base \o w2 \o g,       \* a sibling derived from the same parent, generated after c1 was derived
                   c12 |-> base \o w1 \o w2 \o g,\* .With(w1...).With(w2...)
                   spread1 |-> base \o w1]])

\* ---- IPv4: dotted quads of these octets
Octets == {0, 1, 9, 10, 127, 128, 255}
IpCases == \A q \in Octets \X Octets \X Octets \X Octets : Emit([fn |-> "ipv4", s |-> <<q[1], q[2], q[3], q[4]>>, a |-> <<>>, out |-> <<>>])

\* ---- mapz.Body: a body is a set of keys with a value kind each; the query string lists the pairs in key order;
\* Read with the given buffer sizes (cyclically) returns the JSON document and then EOF
BodyKeys == {"a", "b", "zz", "A"}
Kinds == {"int", "str", "bool", "nil", "float", "bytes"}
KeyOrder == <<"A", "a", "b", "zz">>     \* byte order
\* the value of each kind (int 5, "x y", true, nil, 1.5, []byte("zb")) and its text in a query string
KindText == [int |-> "5", str |-> "x y", bool |-> "true", nil |-> "", float |-> "1.5", bytes |-> "zb"]
Sorted(K) == SX!SetToSortSeq(K, LAMBDA p, q : \E i, j \in 1..4 : KeyOrder[i] = p /\ KeyOrder[j] = q /\ i < j)
BodyCases == \A K \in SUBSET BodyKeys : \A kind \in Kinds : \A bufs \in {<<1>>, <<2, 5>>, <<64>>, <<0, 3>>} :
    Emit([fn |-> "body", s |-> Sorted(K), a |-> <<kind, bufs>>,
          out |-> [i \in 1..Cardinality(K) |-> <<Sorted(K)[i], KindText[kind]>>]])

ASSUME SortCases
ASSUME MathCases
ASSUME KeyCases
ASSUME IpCases
ASSUME BodyCases
Init == x = 0
Next == x' = x
Spec == Init /\ [][Next]_x
=============================================================================
