----------------------------- MODULE CursorTrace -----------------------------
EXTENDS Cursor
VARIABLE l
Trace == ndJsonDeserialize("trace.ndjson")
Ev == Trace[l]
A(k) == Ev.a[k]
Step(Act) == /\ l' = l + 1 /\ Act /\ last'.r = Ev.r /\ ("o" \in DOMAIN Ev => O' = Ev.o)
TReset == Ev.ev = "Reset" /\ l' = l + 1 /\ s' = Ev.s.src /\ i' = 0 /\ last' = R("Init", <<>>, <<>>)
TDrain == Ev.ev = "Drain" /\ l' = l + 1 /\ Ev.d = Rest /\ UNCHANGED vars
TStep == \/ TReset
         \/ TDrain
         \/ Ev.ev = "Read" /\ Step(Read(A(1)))
         \/ Ev.ev = "ReadAt" /\ Step(ReadAt(A(1), A(2)))
         \/ Ev.ev = "ReadByte" /\ Step(ReadByte)
         \/ Ev.ev = "UnreadByte" /\ Step(UnreadByte)
         \/ Ev.ev = "WriteTo" /\ Step(WriteTo(A(1), A(2)))
         \/ Ev.ev = "Seek" /\ Step(Seek(A(1), A(2)))
         \/ Ev.ev = "ResetTo" /\ Step(ResetTo(A(1)))
         \/ Ev.ev = "Close" /\ Step(Close)
TNext == l <= Len(Trace) /\ TStep
TInit == l = 1 /\ s = <<>> /\ i = 0 /\ last = R("Init", <<>>, <<>>)
TSpec == TInit /\ [][TNext]_<<vars, l>>
Accepted == TLCGet("stats").diameter - 1 = Len(Trace)
=============================================================================
