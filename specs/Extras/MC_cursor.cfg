SPECIFICATION Spec
CONSTANTS
  MaxBuf = 2
  Srcs <- SrcsQuick
INVARIANT CursorOK
PROPERTY ReadsAdvance
VIEW View
CHECK_DEADLOCK FALSE
ACTION_CONSTRAINT Emit
