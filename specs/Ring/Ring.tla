------------------------------- MODULE Ring -------------------------------
(* Abstract specification of ringz.Ring used from one goroutine: a bounded    *)
(* FIFO queue whose capacity can be changed (Recap, PushWithExpand).          *)
(* This module IS property C10 for Ring: every clause is an action guard /    *)
(* result below.  `last` is the observation of the latest call (name, args,   *)
(* results); it is what the real code is compared with.                       *)
EXTENDS Integers, Sequences
CONSTANTS Vals,      \* values that are pushed (non-zero integers)
          Caps,      \* initial capacities
          MaxCap     \* largest capacity explored
VARIABLES q, cap, last

Zero == 0
R(n, a, r) == [n |-> n, a |-> a, r |-> r]

TypeOK == /\ q \in Seq(Vals) /\ cap \in 1..MaxCap
Bounded == Len(q) <= cap

Init == /\ q = <<>> /\ cap \in Caps /\ last = R("Init", <<cap>>, <<>>)

Push(v) == /\ IF Len(q) < cap
              THEN q' = Append(q, v) /\ last' = R("Push", <<v>>, <<TRUE>>)
              ELSE q' = q /\ last' = R("Push", <<v>>, <<FALSE>>)
           /\ UNCHANGED cap

Pop == /\ IF q # <<>>
          THEN q' = Tail(q) /\ last' = R("Pop", <<>>, <<Head(q), TRUE>>)
          ELSE q' = q /\ last' = R("Pop", <<>>, <<Zero, FALSE>>)
       /\ UNCHANGED cap

Peek == /\ last' = IF q # <<>> THEN R("Peek", <<>>, <<Head(q), TRUE>>)
                               ELSE R("Peek", <<>>, <<Zero, FALSE>>)
        /\ UNCHANGED <<q, cap>>

\* PushWithExpand never fails: a full ring doubles its capacity first.
PushWithExpand(v) == /\ q' = Append(q, v)
                     /\ cap' = IF Len(q) = cap THEN 2 * cap ELSE cap
                     /\ last' = R("PushWithExpand", <<v>>, <<>>)

\* Recap succeeds exactly for positive capacities different from the current
\* one and not below Len; content and order are preserved.
RecapOk(c) == c > 0 /\ c # cap /\ c >= Len(q)
Recap(c) == /\ cap' = IF RecapOk(c) THEN c ELSE cap
            /\ last' = R("Recap", <<c>>, <<RecapOk(c)>>)
            /\ UNCHANGED q

\* Len, IsEmpty, IsFull, Cap in one observation step
Query == /\ last' = R("Query", <<>>, <<Len(q), q = <<>>, Len(q) = cap, cap>>)
         /\ UNCHANGED <<q, cap>>

Next == \/ \E v \in Vals : Push(v) \/ PushWithExpand(v)
        \/ Pop \/ Peek \/ Query
        \/ \E c \in -1..MaxCap : Recap(c)

vars == <<q, cap, last>>
Spec == Init /\ [][Next]_vars
=============================================================================
