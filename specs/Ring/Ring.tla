------------------------------- MODULE Ring -------------------------------
(* Abstract specification of ringz.Ring used from one goroutine: a bounded    *)
(* FIFO queue whose capacity can be changed (Recap, PushWithExpand).          *)
(* This module IS property C10 for Ring: every clause is an action guard /    *)
(* result below.  `last` is the observation of the latest call (name, args,   *)
(* results); it is what the real code is compared with.                       *)
EXTENDS Integers, Sequences
CONSTANTS Vals,      \* values that are pushed (non-zero integers)
          Caps,      \* initial capacities
          MaxCap     \* largest capacity explored
VARIABLES q, cap, last

Zero == 0
R(n, a, r) == [n |-> n, a |-> a, r |-> r]

TypeOK == /\ q \in Seq(Vals) /\ cap \in 1..MaxCap
Bounded == Len(q) <= cap

Init == /\ q = <<>> /\ cap \in Caps /\ last = R("Init", <<cap>>, <<>>)

Push(v) == /\ IF Len(q) < cap
              THEN q' = Append(q, v) /\ last' = R("Push", <<v>>, <<TRUE>>)
              ELSE q' = q /\ last' = R("Push", <<v>>, <<FALSE>>)
           /\ UNCHANGED cap

Pop == /\ IF q # <<>>
          THEN q' = Tail(q) /\ last' = R("Pop", <<>>, <<Head(q), TRUE>>)
          ELSE q' = q /\ last' = R("Pop", <<>>, <<Zero, FALSE>>)
       /\ UNCHANGED cap

Peek == /\ last' = IF q # <<>> THEN R("Peek", <<>>, <<Head(q), TRUE>>)
                               ELSE R("Peek", <<>>, <<Zero, FALSE>>)
        /\ UNCHANGED <<q, cap>>

\* PushWithExpand never fails: a full ring is given a larger capacity first (the code doubles it; the property only
\* asks that content and order survive, so the new capacity c is a parameter: larger when full, unchanged otherwise).
\* The capacity after the call is part of the observation.
PushWithExpand(v, c) == /\ q' = Append(q, v)
                        /\ IF Len(q) = cap THEN c > cap ELSE c = cap
                        /\ cap' = c
                        /\ last' = R("PushWithExpand", <<v>>, <<c>>)

\* Bursts (what a producer / consumer loop does): PushN pushes b+1, b+2, ... b+k and reports how many were accepted,
\* PopN pops up to k elements and reports them.  They are compositions of Push / Pop; traces of large rings use them
\* to move the head deep into the buffer and to fill the ring without one event per element.
Min(a, b) == IF a < b THEN a ELSE b
PushN(k, b) == LET m == Min(k, cap - Len(q)) IN
               /\ q' = q \o [i \in 1..m |-> b + i] /\ UNCHANGED cap
               /\ last' = R("PushN", <<k, b>>, <<m>>)
PopN(k) == LET m == Min(k, Len(q)) IN
           /\ q' = SubSeq(q, m + 1, Len(q)) /\ UNCHANGED cap
           /\ last' = R("PopN", <<k>>, SubSeq(q, 1, m))

\* Recap succeeds exactly for positive capacities different from the current
\* one and not below Len; content and order are preserved.
RecapOk(c) == c > 0 /\ c # cap /\ c >= Len(q)
Recap(c) == /\ cap' = IF RecapOk(c) THEN c ELSE cap
            /\ last' = R("Recap", <<c>>, <<RecapOk(c)>>)
            /\ UNCHANGED q

\* Len, IsEmpty, IsFull, Cap in one observation step
Query == /\ last' = R("Query", <<>>, <<Len(q), q = <<>>, Len(q) = cap, cap>>)
         /\ UNCHANGED <<q, cap>>

Next == \/ \E v \in Vals : Push(v) \/ \E c \in 1..MaxCap : PushWithExpand(v, c)
        \/ \E k \in 0..MaxCap : PopN(k) \/ \E b \in Vals : PushN(k, 0 * b)
        \/ Pop \/ Peek \/ Query
        \/ \E c \in -1..MaxCap : Recap(c)

vars == <<q, cap, last>>
Spec == Init /\ [][Next]_vars
=============================================================================
