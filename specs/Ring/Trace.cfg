SPECIFICATION TSpec
CONSTANTS
  Vals = {1}
  Caps = {1}
  MaxCap = 1
POSTCONDITION Accepted
CHECK_DEADLOCK FALSE
