----------------------------- MODULE RingImpl -----------------------------
(* Code-shaped specification of ringz/ring.go: the buffer, the head / tail    *)
(* indices with -1 meaning "empty", and the modular arithmetic of every       *)
(* method, statement by statement.  TLC checks that it refines Ring.tla for   *)
(* every rotation and fill level (THEOREM Refines) and prints every           *)
(* transition for replay against the real code (Emit).                        *)
EXTENDS Integers, Sequences, TLC, Json
CONSTANTS Vals, Caps, MaxCap
VARIABLES buf,   \* sequence of length cap; buf[i+1] is values[i]
          head, tail, cap, last

Zero == 0
R(n, a, r) == [n |-> n, a |-> a, r |-> r]
ZeroBuf(c) == [i \in 1..c |-> Zero]

IsEmpty == head = -1
IsFull  == (tail + 1) % cap = head
LenI == IF IsEmpty THEN 0 ELSE IF head <= tail THEN tail - head + 1 ELSE cap - head + tail + 1

InitPred == /\ head = -1 /\ tail = -1 /\ buf = ZeroBuf(cap)
Init == /\ cap \in Caps /\ InitPred /\ last = R("Init", <<cap>>, <<>>)

\* the body of Push (also used by PushWithExpand) on explicit pre-state
PushOn(b, h, t, c, v) ==
    IF (t + 1) % c = h THEN [ok |-> FALSE, b |-> b, h |-> h, t |-> t]
    ELSE LET h2 == IF h = -1 THEN 0 ELSE h
             t2 == (t + 1) % c
         IN [ok |-> TRUE, b |-> [b EXCEPT ![t2 + 1] = v], h |-> h2, t |-> t2]

Push(v) == LET p == PushOn(buf, head, tail, cap, v) IN
           /\ buf' = p.b /\ head' = p.h /\ tail' = p.t /\ UNCHANGED cap
           /\ last' = R("Push", <<v>>, <<p.ok>>)

Pop == IF IsEmpty
       THEN /\ last' = R("Pop", <<>>, <<Zero, FALSE>>) /\ UNCHANGED <<buf, head, tail, cap>>
       ELSE /\ last' = R("Pop", <<>>, <<buf[head + 1], TRUE>>)
            /\ buf' = [buf EXCEPT ![head + 1] = Zero]
            /\ IF head = tail THEN head' = -1 /\ tail' = -1
                              ELSE head' = (head + 1) % cap /\ tail' = tail
            /\ UNCHANGED cap

Peek == /\ last' = IF IsEmpty THEN R("Peek", <<>>, <<Zero, FALSE>>)
                              ELSE R("Peek", <<>>, <<buf[head + 1], TRUE>>)
        /\ UNCHANGED <<buf, head, tail, cap>>

\* Recap as the code does it: linearise the live region (two copies when wrapped)
RecapOn(b, h, t, c, n) ==
    LET l == IF h = -1 THEN 0 ELSE IF h <= t THEN t - h + 1 ELSE c - h + t + 1 IN
    IF n <= 0 \/ n = c \/ n < l THEN [ok |-> FALSE, b |-> b, h |-> h, t |-> t, c |-> c]
    ELSE IF h = -1 THEN [ok |-> TRUE, b |-> ZeroBuf(n), h |-> -1, t |-> -1, c |-> n]
    ELSE LET live == IF h <= t THEN SubSeq(b, h + 1, t + 1)
                               ELSE SubSeq(b, h + 1, c) \o SubSeq(b, 1, t + 1)
         IN [ok |-> TRUE, b |-> [i \in 1..n |-> IF i <= l THEN live[i] ELSE Zero],
             h |-> 0, t |-> l - 1, c |-> n]

Recap(n) == LET r == RecapOn(buf, head, tail, cap, n) IN
            /\ buf' = r.b /\ head' = r.h /\ tail' = r.t /\ cap' = r.c
            /\ last' = R("Recap", <<n>>, <<r.ok>>)

PushWithExpand(v) ==
    LET r == IF IsFull THEN RecapOn(buf, head, tail, cap, cap * 2)
                       ELSE [ok |-> FALSE, b |-> buf, h |-> head, t |-> tail, c |-> cap]
        p == PushOn(r.b, r.h, r.t, r.c, v)
    IN /\ buf' = p.b /\ head' = p.h /\ tail' = p.t /\ cap' = r.c
       /\ last' = R("PushWithExpand", <<v>>, <<r.c>>)

Query == /\ last' = R("Query", <<>>, <<LenI, IsEmpty, IsFull, cap>>)
         /\ UNCHANGED <<buf, head, tail, cap>>

Next == \/ \E v \in Vals : Push(v)
        \/ \E v \in Vals : (IsFull => 2 * cap <= MaxCap) /\ PushWithExpand(v)
        \/ Pop \/ Peek \/ Query
        \/ \E c \in -1..MaxCap : Recap(c)

vars == <<buf, head, tail, cap, last>>
Spec == Init /\ [][Next]_vars

--------------------------------------------------------------------------
\* Refinement mapping: the live region in order
LiveOf(b, h, t, c) == IF h = -1 THEN <<>> ELSE IF h <= t THEN SubSeq(b, h + 1, t + 1)
                      ELSE SubSeq(b, h + 1, c) \o SubSeq(b, 1, t + 1)
Live == LiveOf(buf, head, tail, cap)

Abs == INSTANCE Ring WITH q <- Live
Refines == Abs!Spec

TypeOK == /\ cap \in 1..MaxCap /\ Len(buf) = cap
          /\ head \in -1..cap-1 /\ tail \in -1..cap-1 /\ (head = -1 <=> tail = -1)
LenAgrees == LenI = Len(Live) /\ (IsFull <=> Len(Live) = cap)
DeadSlotsZero == \A i \in 0..cap-1 :
    LET live == IF head = -1 THEN FALSE ELSE IF head <= tail THEN i >= head /\ i <= tail
                ELSE i >= head \/ i <= tail
    IN ~live => buf[i + 1] = Zero

--------------------------------------------------------------------------
\* Edge emission for the model -> code walk
View == <<buf, head, tail, cap>>
St(b, h, t, c) == [s |-> [buf |-> b, head |-> h, tail |-> t, cap |-> c],
                   o |-> LET l == LiveOf(b, h, t, c) IN
                         [len |-> Len(l), cap |-> c, empty |-> (l = <<>>), full |-> (Len(l) = c),
                          peek |-> IF l = <<>> THEN <<Zero, FALSE>> ELSE <<l[1], TRUE>>],
                   d |-> LiveOf(b, h, t, c)]
Emit == PrintT(ToJson([i |-> InitPred, f |-> St(buf, head, tail, cap), op |-> last',
                       t |-> St(buf', head', tail', cap')]))
=============================================================================
