SPECIFICATION Spec
CONSTANTS
  Vals = {1, 2, 3}
  Caps = {1, 2, 3, 4, 5}
  MaxCap = 6
INVARIANTS TypeOK LenAgrees DeadSlotsZero
PROPERTY Refines
VIEW View
ACTION_CONSTRAINT Emit
