----------------------------- MODULE RingTrace -----------------------------
(* Trace validation: every line of trace.ndjson is one call made on the real  *)
(* ringz.Ring (with its arguments, results and the public observation taken   *)
(* right after it).  A trace is accepted iff it is a behaviour of Ring.tla.   *)
(* Several traces are concatenated; a "Reset" line starts a fresh ring.       *)
EXTENDS Ring, Json, TLC
VARIABLE l
Trace == ndJsonDeserialize("trace.ndjson")
Ev == Trace[l]

Obs == [len |-> Len(q), cap |-> cap, empty |-> (q = <<>>), full |-> (Len(q) = cap),
        peek |-> IF q = <<>> THEN <<Zero, FALSE>> ELSE <<Head(q), TRUE>>]

Step(A) == /\ l <= Len(Trace) /\ l' = l + 1 /\ A
           /\ last'.r = Ev.r /\ ("o" \in DOMAIN Ev => Obs' = Ev.o) /\ Bounded'

TReset == /\ l <= Len(Trace) /\ l' = l + 1 /\ Ev.ev = "Reset"
          /\ q' = <<>> /\ cap' = Ev.s.cap /\ last' = R("Init", <<cap'>>, <<>>)
TDrain == /\ l <= Len(Trace) /\ l' = l + 1 /\ Ev.ev = "Drain"
          /\ Ev.d = q /\ UNCHANGED <<q, cap, last>>

TStep == \/ TReset
         \/ TDrain
         \/ Ev.ev = "Push" /\ Step(Push(Ev.a[1]))
         \/ Ev.ev = "Pop" /\ Step(Pop)
         \/ Ev.ev = "Peek" /\ Step(Peek)
         \/ Ev.ev = "PushWithExpand" /\ Step(PushWithExpand(Ev.a[1], Ev.r[1]))
         \/ Ev.ev = "PushN" /\ Step(PushN(Ev.a[1], Ev.a[2]))
         \/ Ev.ev = "PopN" /\ Step(PopN(Ev.a[1]))
         \/ Ev.ev = "Recap" /\ Step(Recap(Ev.a[1]))
         \/ Ev.ev = "Query" /\ Step(Query)
TNext == l <= Len(Trace) /\ TStep

TInit == /\ l = 1 /\ q = <<>> /\ cap = 1 /\ last = R("Init", <<1>>, <<>>)
TSpec == TInit /\ [][TNext]_<<vars, l>>

\* one state per consumed line plus the initial state
Accepted == TLCGet("stats").diameter - 1 = Len(Trace)
\* where validation stopped (printed on failure by the driver)
=============================================================================
