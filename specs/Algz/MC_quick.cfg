SPECIFICATION Spec
CONSTANTS
  MaxItems = 3
  MaxVerts = 5
  NRandom = 400
