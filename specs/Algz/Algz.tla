-------------------------------- MODULE Algz --------------------------------
(* Specification of algz.Knapsack, algz.FindDpSolvers (with Best and          *)
(* BestAllowMinOverflow) and Graph.GetMaximalCliques (property C18), all      *)
(* declaratively over the subsets of the input.  The answers are not unique   *)
(* (any optimal selection, any selection per total, cliques in any order), so *)
(* the cases carry what every correct answer must satisfy: the optimum value, *)
(* the set of attainable totals, the smallest overshoot, the set of maximal   *)
(* cliques.                                                                   *)
EXTENDS Integers, Sequences, FiniteSets, TLC, Json, Randomization
CONSTANTS MaxItems, MaxVerts, NRandom
VARIABLE x
Emit(c) == PrintT(ToJson(c))
RECURSIVE SeqsUpTo(_, _)
SeqsUpTo(A, n) == IF n = 0 THEN {<<>>}
                  ELSE LET S == SeqsUpTo(A, n - 1) IN S \cup {Append(s, a) : s \in {y \in S : Len(y) = n - 1}, a \in A}
SX == INSTANCE SequencesExt
Asc(S) == SX!SetToSortSeq(S, LAMBDA a, b : a < b)
RECURSIVE SumOver(_, _, _)
SumOver(S, f, k) == IF S = {} THEN 0 ELSE LET i == CHOOSE j \in S : TRUE IN f[i][k] + SumOver(S \ {i}, f, k)
MaxOf(S) == CHOOSE m \in S : \A n \in S : n <= m
MinOf(S) == CHOOSE m \in S : \A n \in S : m <= n

\* ---- 0-1 knapsack: items are <<weight, value>>
Opt(items, limit) == MaxOf({SumOver(S, items, 2) : S \in {T \in SUBSET (1..Len(items)) : SumOver(T, items, 1) <= limit}})
ItemSet == {<<w, v>> : w \in 0..3, v \in 1..3}
KnapCases == \A items \in SeqsUpTo(ItemSet, MaxItems) : \A limit \in {0, 1, 2, 3, 5, 7} :
    Emit([fn |-> "knapsack", s |-> items, a |-> <<limit>>, out |-> <<Opt(items, limit)>>])
\* larger instances (selections of several items, many ties): a seeded random sample of sequences of 6 items
BigItem == {<<w, v>> : w \in 1..2, v \in 2..5}
KnapRandom == \A items \in RandomSubset(NRandom, [1..6 -> BigItem]) : \A limit \in {4, 5, 6} :
    Emit([fn |-> "knapsack", s |-> items, a |-> <<limit>>, out |-> <<Opt(items, limit)>>])

\* items far heavier than any limit (a sentinel weight, "never pick this"): Huge stands for the largest int, Huge - 1 for
\* 2^62 (the runner maps them; TLC integers have 32 bits, so the specification never adds them up: a selection that
\* contains such an item is over the limit whatever else it holds).  Several of them in one list, between ordinary
\* items whose best combination needs the cells on both sides.
Huge == 2 ^ 30
IsHuge(it) == it[1] >= Huge - 1
OptH(items, limit) == LET ok == {i \in 1..Len(items) : ~IsHuge(items[i])} IN
    MaxOf({SumOver(S, items, 2) : S \in {T \in SUBSET ok : SumOver(T, items, 1) <= limit}})
HugePool == {<<3, 5>>, <<4, 6>>, <<1, 1>>, <<2, 4>>, <<Huge, 9>>, <<Huge - 1, 8>>}
KnapHuge == \A items \in SeqsUpTo(HugePool, MaxItems + 1) : \A limit \in {5, 7} :
    (Cardinality({i \in 1..Len(items) : IsHuge(items[i])}) >= 1) =>
        Emit([fn |-> "knapsack", s |-> items, a |-> <<limit>>, out |-> <<OptH(items, limit)>>])

\* ---- subset sums: items are values; Totals <= max, smallest total above max
Vals(items) == [i \in 1..Len(items) |-> <<0, items[i]>>]
AllTotals(items) == {SumOver(S, Vals(items), 2) : S \in SUBSET (1..Len(items))}
SumCases == \A items \in SeqsUpTo(1..4, MaxItems + 1) : \A mx \in {0, 1, 3, 4, 6, 9} :
    LET tot == AllTotals(items)  over == {t \in tot : t > mx} IN
    Emit([fn |-> "sums", s |-> items, a |-> <<mx>>,
          out |-> [totals |-> Asc({t \in tot : t <= mx}), minover |-> IF over = {} THEN 0 ELSE MinOf(over)]])

\* ---- maximal cliques of an undirected simple graph on vertices 1..n; an edge set is a set of pairs <<a, b>>, a < b
Pairs(n) == {<<a, b>> \in (1..n) \X (1..n) : a < b}
Adj(E, a, b) == <<a, b>> \in E \/ <<b, a>> \in E
IsClique(E, C) == \A a \in C : \A b \in C : a # b => Adj(E, a, b)
MaxCliques(n, E) == {C \in (SUBSET (1..n)) \ {{}} : IsClique(E, C) /\ \A v \in (1..n) \ C : ~IsClique(E, C \cup {v})}
\* The Graph type stores arcs: AddEdge(a, b) adds the arc a -> b (creating the node a if need be), AddUndirectedEdge(a, b)
\* adds both arcs.  An undirected edge {a, b} can therefore be built in several ways; the arc set is the same for all:
BuildForms == 0..5
ArcsOfForm(f, a, b) == CASE f = 0 -> <<{<<a, b>>, <<b, a>>}>>                        \* AddUndirectedEdge(a, b)
                         [] f = 1 -> <<{<<b, a>>, <<a, b>>}>>                        \* AddUndirectedEdge(b, a)
                         [] f = 2 -> <<{<<a, b>>}, {<<b, a>>}>>                      \* AddEdge(a, b); AddEdge(b, a)
                         [] f = 3 -> <<{<<a, b>>}, {<<a, b>>, <<b, a>>}>>            \* AddEdge(a, b); AddUndirectedEdge(a, b)
                         [] f = 4 -> <<{<<b, a>>}, {<<a, b>>, <<b, a>>}>>            \* AddEdge(b, a); AddUndirectedEdge(a, b)
                         [] f = 5 -> <<{<<a, b>>, <<b, a>>}, {<<a, b>>, <<b, a>>}>>  \* AddUndirectedEdge(a, b) twice
RECURSIVE UnionAll(_)
UnionAll(sq) == IF sq = <<>> THEN {} ELSE Head(sq) \cup UnionAll(Tail(sq))
\* the k-th edge (in ascending order) of a case with rotation r is built in form (k + r) % 6
FormAt(k, r) == (k + r) % 6
FormsSame == \A f \in BuildForms : UnionAll(ArcsOfForm(f, 1, 2)) = {<<1, 2>>, <<2, 1>>}
ASSUME FormsSame
CliqueCases == \A n \in 1..MaxVerts : \A E \in SUBSET Pairs(n) : \A r \in (IF E = {} THEN {0} ELSE BuildForms) :
    Emit([fn |-> "cliques", s |-> Asc({e[1] * 10 + e[2] : e \in E}), a |-> <<n, r>>,
          out |-> Asc({LET c == Asc(C) IN SumOver(1..Len(c), [i \in 1..Len(c) |-> <<0, c[i] * (2 ^ (3 * (i - 1)))>>], 2) : C \in MaxCliques(n, E)})])
ASSUME KnapCases
ASSUME KnapRandom
ASSUME KnapHuge
ASSUME SumCases
ASSUME CliqueCases
Init == x = 0
Next == x' = x
Spec == Init /\ [][Next]_x
=============================================================================
