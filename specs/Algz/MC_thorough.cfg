SPECIFICATION Spec
CONSTANTS
  MaxItems = 4
  MaxVerts = 6
  NRandom = 4000
