------------------------------- MODULE U32Set -------------------------------
(* Abstract specification of setz.RoaringBitmap (property C03): a set of      *)
(* uint32.  A value is <<hi, lo>> (high and low 16 bits).  To reach the real  *)
(* sparse/dense threshold (4096 values per bucket) with a small model, a      *)
(* bucket may additionally hold a FILLER block: the F consecutive low values  *)
(* FLo..FHi, added / removed by the macro steps Prefill / Unfill.  In         *)
(* enumerations the complete block appears as the single token <<hi, -1>>.    *)
EXTENDS Integers, Sequences, FiniteSets
CONSTANTS His, Los, FLo, FHi      \* bucket keys, model low values (outside FLo..FHi), filler range
VARIABLES mem, fill, fill2, last
R(n, args, r) == [n |-> n, a |-> args, r |-> r]
SX == INSTANCE SequencesExt
F == FHi - FLo + 1
\* a second block G2Lo..G2Hi (everything between the first block and 65535), used by the random driver only, lets a bucket
\* become full (65536 values) or all but full; its token in enumerations is <<hi, -2>>
G2Lo == FHi + 1
G2Hi == 65534
F2 == G2Hi - G2Lo + 1
Asc(S) == SX!SetToSortSeq(S, LAMBDA x, y : x < y)
Card == Cardinality(mem) + F * Cardinality({h \in His : fill[h]}) + F2 * Cardinality({h \in His : fill2[h]})
\* ascending enumeration: per bucket the lows below the filler block, the block token, the lows above
\* (the low values present in bucket h: in the state graph a subset of Los, in traces of the random driver anything)
LowsOf(h) == {m[2] : m \in {x \in mem : x[1] = h}}
BucketSeq(h) == LET below == Asc({l \in LowsOf(h) : l < FLo})
                    mid == Asc({l \in LowsOf(h) : l > FHi /\ l < G2Hi + 1})       \* (empty while the second block is present)
                    above == Asc({l \in LowsOf(h) : l > G2Hi})
                IN [i \in 1..Len(below) |-> <<h, below[i]>>] \o (IF fill[h] THEN << <<h, -1>> >> ELSE <<>>)
                   \o [i \in 1..Len(mid) |-> <<h, mid[i]>>] \o (IF fill2[h] THEN << <<h, -2>> >> ELSE <<>>)
                   \o [i \in 1..Len(above) |-> <<h, above[i]>>]
RECURSIVE Cat(_, _)
Cat(hs, i) == IF i > Len(hs) THEN <<>> ELSE BucketSeq(hs[i]) \o Cat(hs, i + 1)
Enum == Cat(Asc(His), 1)
First(s, n) == SubSeq(s, 1, IF Len(s) < n THEN Len(s) ELSE n)
\* the first two REAL values (Range stopped after two callbacks): a block token stands for FLo, FLo+1, ...
Exp(tok) == IF tok[2] = -1 THEN << <<tok[1], FLo>>, <<tok[1], FLo + 1>> >>
            ELSE IF tok[2] = -2 THEN << <<tok[1], G2Lo>>, <<tok[1], G2Lo + 1>> >> ELSE <<tok>>
First2 == LET e == First(Enum, 2) IN
          First(IF Len(e) = 0 THEN <<>> ELSE IF Len(e) = 1 THEN Exp(e[1]) ELSE Exp(e[1]) \o Exp(e[2]), 2)
\* (iterpair: two iterators alive at once, advanced alternately - each enumerates the whole set)
Reads == [len |-> Card, iter |-> Enum, iterpair |-> <<Enum, Enum>>, range |-> Enum, all |-> Enum, range2 |-> First2,
          contains |-> [i \in 1..Len(Asc(His)) |-> [j \in 1..Len(Asc(Los)) |-> <<Asc(His)[i], Asc(Los)[j]>> \in mem]]]

Init == mem = {} /\ fill = [h \in His |-> FALSE] /\ fill2 = [h \in His |-> FALSE] /\ last = R("Init", <<>>, <<>>)
Add(h, l) == mem' = mem \cup {<<h, l>>} /\ last' = R("Add", <<h, l>>, <<<<h, l>> \notin mem>>) /\ UNCHANGED <<fill, fill2>>
Remove(h, l) == mem' = mem \ {<<h, l>>} /\ last' = R("Remove", <<h, l>>, <<<<h, l>> \in mem>>) /\ UNCHANGED <<fill, fill2>>
Contains(h, l) == last' = R("Contains", <<h, l>>, <<<<h, l>> \in mem>>) /\ UNCHANGED <<mem, fill, fill2>>
\* r = number of Adds / Removes of the block that reported a membership change
Prefill(h) == fill' = [fill EXCEPT ![h] = TRUE] /\ last' = R("Prefill", <<h>>, <<IF fill[h] THEN 0 ELSE F>>) /\ UNCHANGED <<mem, fill2>>
Unfill(h) == fill' = [fill EXCEPT ![h] = FALSE] /\ last' = R("Unfill", <<h>>, <<IF fill[h] THEN F ELSE 0>>) /\ UNCHANGED <<mem, fill2>>
\* (driven only while no single value of the bucket lies inside the second block)
Prefill2(h) == fill2' = [fill2 EXCEPT ![h] = TRUE] /\ last' = R("Prefill2", <<h>>, <<IF fill2[h] THEN 0 ELSE F2>>) /\ UNCHANGED <<mem, fill>>
Unfill2(h) == fill2' = [fill2 EXCEPT ![h] = FALSE] /\ last' = R("Unfill2", <<h>>, <<IF fill2[h] THEN F2 ELSE 0>>) /\ UNCHANGED <<mem, fill>>
vars == <<mem, fill, fill2, last>>
=============================================================================
