----------------------------- MODULE RoaringImpl -----------------------------
(* Code-shaped specification of setz/roaring_bitmap.go: one container per     *)
(* high-16-bit key, stored as a sorted array while it holds at most 4096      *)
(* values, converted to a bitmap when the 4097th value arrives (never         *)
(* converted back), removed when it becomes empty.                            *)
EXTENDS Integers, Sequences, FiniteSets, TLC, Json
CONSTANTS His, Los, FLo, FHi
VARIABLES mem, fill, kind, last       \* kind[h] \in {"none", "array", "bitmap"}
Abs == INSTANCE U32Set WITH fill2 <- [h \in His |-> FALSE]      \* (the second filler block is a device of the random driver)
R(n, args, r) == [n |-> n, a |-> args, r |-> r]
F == FHi - FLo + 1
Limit == 4096
CardB(m, f, h) == Cardinality({l \in Los : <<h, l>> \in m}) + (IF f[h] THEN F ELSE 0)

Init == mem = {} /\ fill = [h \in His |-> FALSE] /\ kind = [h \in His |-> "none"] /\ last = R("Init", <<>>, <<>>)

\* kind of bucket h after it went from cardinality c0 to c1 by insertions
AfterAdd(k, c0, c1) == IF k = "bitmap" THEN "bitmap" ELSE IF c1 > Limit THEN "bitmap" ELSE "array"
AfterRemove(k, c1) == IF c1 = 0 THEN "none" ELSE k
Add(h, l) == /\ Abs!Add(h, l)
             /\ kind' = [kind EXCEPT ![h] = IF <<h, l>> \in mem THEN @ ELSE AfterAdd(@, CardB(mem, fill, h), CardB(mem', fill', h))]
Remove(h, l) == /\ Abs!Remove(h, l)
                /\ kind' = [kind EXCEPT ![h] = IF <<h, l>> \in mem THEN AfterRemove(@, CardB(mem', fill', h)) ELSE @]
Contains(h, l) == Abs!Contains(h, l) /\ UNCHANGED kind
Prefill(h) == /\ Abs!Prefill(h)
              /\ kind' = [kind EXCEPT ![h] = IF fill[h] THEN @ ELSE AfterAdd(@, CardB(mem, fill, h), CardB(mem', fill', h))]
Unfill(h) == /\ Abs!Unfill(h)
             /\ kind' = [kind EXCEPT ![h] = IF fill[h] THEN AfterRemove(@, CardB(mem', fill', h)) ELSE @]
Next == \E h \in His : \/ \E l \in Los : Add(h, l) \/ Remove(h, l) \/ Contains(h, l)
                       \/ Prefill(h) \/ Unfill(h)
vars == <<mem, fill, kind, last>>
Spec == Init /\ [][Next]_vars

KindOK == \A h \in His : /\ (kind[h] = "none" <=> CardB(mem, fill, h) = 0)
                         /\ (kind[h] = "array" => CardB(mem, fill, h) <= Limit)
\* the conversion really happens in this model (vacuity guard, checked by the driver through coverage of states)
SomeBitmap == \E h \in His : kind[h] = "bitmap"

View == <<mem, fill, kind>>
St == [s |-> [kinds |-> [i \in 1..Len(Abs!Asc(His)) |-> kind[Abs!Asc(His)[i]]]],
       k |-> <<mem, fill, kind>>, o |-> Abs!Reads, d |-> Abs!Enum]
Emit == PrintT(ToJson([i |-> (mem = {} /\ \A h \in His : ~fill[h]), f |-> St, op |-> last', t |-> St']))
=============================================================================
