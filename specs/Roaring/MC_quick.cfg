SPECIFICATION Spec
CONSTANTS
  His = {0, 65535}
  Los = {0, 1, 65535}
  FLo = 2
  FHi = 4095
INVARIANT KindOK
VIEW View
CHECK_DEADLOCK FALSE
ACTION_CONSTRAINT Emit
