---------------------------- MODULE RoaringTrace ----------------------------
EXTENDS U32Set, Json, TLC
VARIABLE l
Trace == ndJsonDeserialize("trace.ndjson")
Ev == Trace[l]
A(i) == Ev.a[i]
Step(Act) == /\ l' = l + 1 /\ Act /\ last'.r = Ev.r /\ ("o" \in DOMAIN Ev => Reads' = Ev.o)
TReset == Ev.ev = "Reset" /\ l' = l + 1 /\ mem' = {} /\ fill' = [h \in His |-> FALSE] /\ fill2' = [h \in His |-> FALSE] /\ last' = R("Init", <<>>, <<>>)
TDrain == Ev.ev = "Drain" /\ l' = l + 1 /\ Ev.d = Enum /\ UNCHANGED vars
TStep == \/ TReset
         \/ TDrain
         \/ Ev.ev = "Add" /\ Step(Add(A(1), A(2)))
         \/ Ev.ev = "Remove" /\ Step(Remove(A(1), A(2)))
         \/ Ev.ev = "Contains" /\ Step(Contains(A(1), A(2)))
         \/ Ev.ev = "Prefill" /\ Step(Prefill(A(1)))
         \/ Ev.ev = "Unfill" /\ Step(Unfill(A(1)))
         \/ Ev.ev = "Prefill2" /\ Step(Prefill2(A(1)))
         \/ Ev.ev = "Unfill2" /\ Step(Unfill2(A(1)))
TNext == l <= Len(Trace) /\ TStep
TInit == l = 1 /\ Init
TSpec == TInit /\ [][TNext]_<<vars, l>>
Accepted == TLCGet("stats").diameter - 1 = Len(Trace)
=============================================================================
