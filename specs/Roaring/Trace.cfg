SPECIFICATION TSpec
CONSTANTS
  His = {0, 65535}
  Los = {0, 1, 65535}
  FLo = 2
  FHi = 4095
POSTCONDITION Accepted
CHECK_DEADLOCK FALSE
