--------------------------- MODULE SyncRingImpl ---------------------------
(* Step-level, code-shaped specification of ringz/sync.go (Push, Pop, Len):   *)
(* the ticket protocol over two position counters and one sequence number per *)
(* slot.  One action = one atomic operation plus the plain code that follows  *)
(* it, except that the plain slot accesses (value write after the tail CAS,   *)
(* value read after the head CAS) are actions of their own, so the windows    *)
(* "position claimed, slot not yet written / read" are explicit states.       *)
(* All position arithmetic is modulo M (the code: 2^32); the initial position *)
(* is chosen so that the counters wrap inside every run.                      *)
EXTENDS Integers, Sequences, FiniteSets, TLC, Json
CONSTANTS Progs,    \* set of program assignments (sequence of per-goroutine call sequences)
          Inits,    \* set of initial configurations [cap, base, q]
          M
VARIABLES prog, cap, head, tail, seq, val,   \* shared memory (cap and prog fixed after Init)
          loc,                               \* per goroutine: pc, opi, pos, sq, ret, okf, took
          absQ, gh,                          \* ghosts: abstract queue at the linearization points; per-goroutine flags
          last

Threads == 1..Len(prog)
HasOp(t) == loc[t].opi <= Len(prog[t])
Op(t) == prog[t][loc[t].opi]
Add(a, b) == (a + b) % M
Sub(a, b) == (a - b + M) % M
Idx(p) == p % cap
Mask == cap - 1
Obs(t, g, ops) == [n |-> "Step", a |-> <<t, g>>, r |-> ops]
PC(t) == loc[t].pc

vars == <<prog, cap, head, tail, seq, val, loc, absQ, gh, last>>
shared == <<head, tail, seq, val>>

SlotDist(i, b, c) == ((i - 1) - (b % c) + c) % c     \* distance of slot i-1 from the slot of position b
InitWith(p, c) ==
    LET n == Len(p)  k == Len(c.q) IN
    /\ prog = p /\ cap = c.cap /\ head = c.base /\ tail = (c.base + k) % M
    /\ seq = [i \in 1..c.cap |-> LET d == SlotDist(i, c.base, c.cap)  p0 == (c.base + d) % M
                                 IN IF d < k THEN (p0 + 1) % M ELSE p0]
    /\ val = [i \in 1..c.cap |-> LET d == SlotDist(i, c.base, c.cap) IN IF d < k THEN c.q[d + 1] ELSE 0]
    /\ loc = [t \in 1..n |-> [pc |-> "idle", opi |-> 1, pos |-> 0, sq |-> 0, ret |-> <<>>, okf |-> FALSE, took |-> 0, lenok |-> TRUE]]
    /\ absQ = c.q
    /\ gh = [t \in 1..n |-> [sf |-> FALSE, se |-> FALSE, ov |-> FALSE]]
    /\ last = [n |-> "Init", a |-> <<>>, r |-> <<>>]
Init == \E p \in Progs, c \in Inits : InitWith(p, c)

\* ghost flags of every call in flight after this step: has it seen the abstract queue full /
\* empty, has another call been in flight at the same time
Ghost(locn, qn) ==
    gh' = [u \in Threads |->
            IF locn[u].pc = "idle" THEN gh[u]
            ELSE LET old == IF loc[u].pc = "idle" THEN [sf |-> FALSE, se |-> FALSE, ov |-> FALSE] ELSE gh[u] IN
                 [sf |-> old.sf \/ Len(qn) = cap \/ Len(absQ) = cap,
                  se |-> old.se \/ qn = <<>> \/ absQ = <<>>,
                  ov |-> old.ov \/ (\E w \in Threads : w # u /\ (locn[w].pc # "idle" \/ loc[w].pc # "idle"))]]

\* local update helpers
Set(t, r) == [loc EXCEPT ![t] = r]
Goto(t, l) == [loc[t] EXCEPT !.pc = l]
Return(t, r) == [loc[t] EXCEPT !.pc = "idle", !.ret = r, !.opi = @ + 1]

-----------------------------------------------------------------------------
\* Push(v) / PushWait(v, 0)
PushStart(t) == /\ PC(t) = "idle" /\ HasOp(t) /\ Op(t)[1] \in {"push", "pushwait0"}
                /\ loc' = Set(t, Goto(t, "p_lt")) /\ last' = Obs(t, 1, <<>>)
                /\ Ghost(loc', absQ) /\ UNCHANGED <<prog, cap, shared, absQ>>
PushLoadTail(t) == /\ PC(t) = "p_lt"
                   /\ loc' = Set(t, [loc[t] EXCEPT !.pc = "p_ls", !.pos = tail])
                   /\ last' = Obs(t, 2, << <<"Load", "tail", tail>> >>)
                   /\ Ghost(loc', absQ) /\ UNCHANGED <<prog, cap, shared, absQ>>
PushLoadSeq(t) == /\ PC(t) = "p_ls"
                  /\ LET s == seq[Idx(loc[t].pos) + 1] IN
                     /\ last' = Obs(t, 2, << <<"Load", "seq", Idx(loc[t].pos), s>> >>)
                     /\ loc' = Set(t, IF loc[t].pos # s THEN [Return(t, <<FALSE>>) EXCEPT !.sq = s]
                                                        ELSE [loc[t] EXCEPT !.pc = "p_cas", !.sq = s])
                  /\ Ghost(loc', absQ) /\ UNCHANGED <<prog, cap, shared, absQ>>
PushCAS(t) == /\ PC(t) = "p_cas"
              /\ IF tail = loc[t].pos
                 THEN /\ tail' = Add(loc[t].pos, 1) /\ absQ' = Append(absQ, Op(t)[2])      \* linearization point
                      /\ loc' = Set(t, [loc[t] EXCEPT !.pc = "p_wr", !.okf = TRUE])
                      /\ last' = Obs(t, 1, << <<"CAS", "tail", TRUE>> >>)
                 ELSE /\ UNCHANGED <<tail, absQ>>
                      /\ loc' = Set(t, [loc[t] EXCEPT !.pc = "p_wr", !.okf = FALSE])
                      /\ last' = Obs(t, 1, << <<"CAS", "tail", FALSE>> >>)
              /\ Ghost(loc', absQ') /\ UNCHANGED <<prog, cap, head, seq, val>>
\* plain code after the CAS: give up, or write the value into the claimed slot
PushWrite(t) == /\ PC(t) = "p_wr" /\ last' = Obs(t, 1, <<>>)
                /\ IF loc[t].okf
                   THEN /\ val' = [val EXCEPT ![Idx(loc[t].pos) + 1] = Op(t)[2]]
                        /\ loc' = Set(t, Goto(t, "p_st"))
                   ELSE /\ UNCHANGED val /\ loc' = Set(t, Return(t, <<FALSE>>))
                /\ Ghost(loc', absQ) /\ UNCHANGED <<prog, cap, head, tail, seq, absQ>>
PushStore(t) == /\ PC(t) = "p_st"
                /\ seq' = [seq EXCEPT ![Idx(loc[t].pos) + 1] = Add(loc[t].sq, 1)]
                /\ last' = Obs(t, 2, << <<"Store", "seq", Idx(loc[t].pos), Add(loc[t].sq, 1)>> >>)
                /\ loc' = Set(t, Return(t, <<TRUE>>))
                /\ Ghost(loc', absQ) /\ UNCHANGED <<prog, cap, head, tail, val, absQ>>

\* Pop() / PopWait(0)
PopStart(t) == /\ PC(t) = "idle" /\ HasOp(t) /\ Op(t)[1] \in {"pop", "popwait0"}
               /\ loc' = Set(t, Goto(t, "o_lh")) /\ last' = Obs(t, 1, <<>>)
               /\ Ghost(loc', absQ) /\ UNCHANGED <<prog, cap, shared, absQ>>
PopLoadHead(t) == /\ PC(t) = "o_lh"
                  /\ loc' = Set(t, [loc[t] EXCEPT !.pc = "o_ls", !.pos = head])
                  /\ last' = Obs(t, 2, << <<"Load", "head", head>> >>)
                  /\ Ghost(loc', absQ) /\ UNCHANGED <<prog, cap, shared, absQ>>
PopLoadSeq(t) == /\ PC(t) = "o_ls"
                 /\ LET s == seq[Idx(loc[t].pos) + 1] IN
                    /\ last' = Obs(t, 2, << <<"Load", "seq", Idx(loc[t].pos), s>> >>)
                    /\ loc' = Set(t, IF Add(loc[t].pos, 1) # s THEN [Return(t, <<0, FALSE>>) EXCEPT !.sq = s]
                                                               ELSE [loc[t] EXCEPT !.pc = "o_cas", !.sq = s])
                 /\ Ghost(loc', absQ) /\ UNCHANGED <<prog, cap, shared, absQ>>
PopCAS(t) == /\ PC(t) = "o_cas"
             /\ IF head = loc[t].pos
                THEN /\ head' = Add(loc[t].pos, 1)
                     /\ absQ' = IF absQ = <<>> THEN absQ ELSE Tail(absQ)                    \* linearization point
                     /\ loc' = Set(t, [loc[t] EXCEPT !.pc = "o_rd", !.okf = TRUE,
                                                    !.took = IF absQ = <<>> THEN -1 ELSE Head(absQ)])
                     /\ last' = Obs(t, 1, << <<"CAS", "head", TRUE>> >>)
                ELSE /\ UNCHANGED <<head, absQ>>
                     /\ loc' = Set(t, [loc[t] EXCEPT !.pc = "o_rd", !.okf = FALSE])
                     /\ last' = Obs(t, 1, << <<"CAS", "head", FALSE>> >>)
             /\ Ghost(loc', absQ') /\ UNCHANGED <<prog, cap, tail, seq, val>>
\* plain code after the CAS: give up, or read the value and clear the slot
PopRead(t) == /\ PC(t) = "o_rd" /\ last' = Obs(t, 1, <<>>)
              /\ IF loc[t].okf
                 THEN /\ loc' = Set(t, [loc[t] EXCEPT !.pc = "o_st", !.ret = <<val[Idx(loc[t].pos) + 1], TRUE>>])
                      /\ val' = [val EXCEPT ![Idx(loc[t].pos) + 1] = 0]
                 ELSE /\ UNCHANGED val /\ loc' = Set(t, Return(t, <<0, FALSE>>))
              /\ Ghost(loc', absQ) /\ UNCHANGED <<prog, cap, head, tail, seq, absQ>>
PopStore(t) == /\ PC(t) = "o_st"
               /\ seq' = [seq EXCEPT ![Idx(loc[t].pos) + 1] = Add(loc[t].sq, Mask)]
               /\ last' = Obs(t, 2, << <<"Store", "seq", Idx(loc[t].pos), Add(loc[t].sq, Mask)>> >>)
               /\ loc' = Set(t, Return(t, loc[t].ret))
               /\ Ghost(loc', absQ) /\ UNCHANGED <<prog, cap, head, tail, val, absQ>>

\* Len(): tail first, then head; the difference is clamped to cap
LenStart(t) == /\ PC(t) = "idle" /\ HasOp(t) /\ Op(t)[1] = "len"
               /\ loc' = Set(t, Goto(t, "l_lt")) /\ last' = Obs(t, 1, <<>>)
               /\ Ghost(loc', absQ) /\ UNCHANGED <<prog, cap, shared, absQ>>
LenLoadTail(t) == /\ PC(t) = "l_lt"
                  /\ loc' = Set(t, [loc[t] EXCEPT !.pc = "l_lh", !.pos = tail])
                  /\ last' = Obs(t, 2, << <<"Load", "tail", tail>> >>)
                  /\ Ghost(loc', absQ) /\ UNCHANGED <<prog, cap, shared, absQ>>
LenOf(tl, hd) == LET d == Sub(tl, hd) IN IF d > cap THEN cap ELSE d
LenLoadHead(t) == /\ PC(t) = "l_lh"
                  /\ LET n == LenOf(loc[t].pos, head) IN
                     loc' = Set(t, [Return(t, <<n>>) EXCEPT
                                !.lenok = n >= 0 /\ n <= cap /\ (~gh[t].ov => n = Len(absQ))])
                  /\ last' = Obs(t, 2, << <<"Load", "head", head>> >>)
                  /\ Ghost(loc', absQ) /\ UNCHANGED <<prog, cap, shared, absQ>>

Step(t) == \/ PushStart(t) \/ PushLoadTail(t) \/ PushLoadSeq(t) \/ PushCAS(t) \/ PushWrite(t) \/ PushStore(t)
           \/ PopStart(t) \/ PopLoadHead(t) \/ PopLoadSeq(t) \/ PopCAS(t) \/ PopRead(t) \/ PopStore(t)
           \/ LenStart(t) \/ LenLoadTail(t) \/ LenLoadHead(t)
Next == \E t \in Threads : Step(t)
Spec == Init /\ [][Next]_vars

-----------------------------------------------------------------------------
AllIdle == \A t \in Threads : PC(t) = "idle"
AllDone == \A t \in Threads : ~HasOp(t)
TypeOK == /\ head \in 0..M-1 /\ tail \in 0..M-1
Bounded == Len(absQ) <= cap
\* the head CAS never succeeds on an empty abstract queue, and the value read is the one dequeued
PopNonEmpty == \A t \in Threads : PC(t) \in {"o_rd", "o_st"} /\ loc[t].okf => loc[t].took # -1
PopValue == \A t \in Threads : PC(t) = "o_st" => loc[t].ret = <<loc[t].took, TRUE>>
\* a failed call is legitimate: the queue was full / empty at some instant of the call, or it was overlapped
IsPushOp(o) == o[1] \in {"push", "pushwait0"}
IsPopOp(o) == o[1] \in {"pop", "popwait0"}
LastOp(t) == prog[t][loc[t].opi - 1]
FalseLegit == \A t \in Threads : (PC(t) = "idle" /\ loc[t].opi > 1) =>
    /\ (IsPushOp(LastOp(t)) /\ loc[t].ret = <<FALSE>>) => (gh[t].sf \/ gh[t].ov)
    /\ (IsPopOp(LastOp(t)) /\ loc[t].ret = <<0, FALSE>>) => (gh[t].se \/ gh[t].ov)
\* Len() lies in [0, cap] and is exact when no other call overlapped it (evaluated when it returns)
LenRange == \A t \in Threads : loc[t].lenok
\* what the slots must look like when nothing is in flight
LiveSeq == [k \in 1..Sub(tail, head) |-> val[Idx(Add(head, k - 1)) + 1]]
QuiescentExact == AllIdle => /\ Sub(tail, head) = Len(absQ) /\ LiveSeq = absQ
                             /\ \A k \in 0..cap-1 : LET p == Add(head, k) IN
                                  seq[Idx(p) + 1] = IF k < Sub(tail, head) THEN Add(p, 1) ELSE p
\* progress: if every call is a Push and the ring has room for all of them (every call is a Pop and
\* the ring holds enough), at least one of the calls issued concurrently succeeds
AllOps(P(_)) == \A t \in Threads : \A i \in 1..Len(prog[t]) : P(prog[t][i])
NCalls == LET RECURSIVE S(_)
              S(t) == IF t = 0 THEN 0 ELSE Len(prog[t]) + S(t - 1) IN S(Len(prog))
SomeOk == \E t \in Threads : loc[t].opi > 1 /\ loc[t].okf     \* (one call per goroutine: okf = its CAS succeeded)
\* (if nobody succeeded the abstract queue still has its initial content)
Progress == (AllDone /\ ~SomeOk /\ \A t \in Threads : Len(prog[t]) = 1) =>
    /\ AllOps(IsPushOp) => Len(absQ) + Len(prog) > cap      \* there was not room for all of them
    /\ AllOps(IsPopOp) => Len(absQ) < Len(prog)             \* there were not enough stored elements

-----------------------------------------------------------------------------
\* TicketRing.IndInv (the invariant shown inductive by Apalache for the protocol without wrap) read modulo M on this
\* code-shaped model, whose every edge is replayed on the real ring: the same facts hold in every reachable state
\* here, across the counter wrap.  Distances are taken modulo M (sound while M >= 2 * cap, as in every configuration).
IsWriting(t) == (PC(t) = "p_wr" /\ loc[t].okf) \/ PC(t) = "p_st"
IsReading(t) == (PC(t) = "o_rd" /\ loc[t].okf) \/ PC(t) = "o_st"
TicketInv ==
    /\ Sub(tail, head) <= cap
    /\ \A t \in Threads : IsWriting(t) =>
           /\ Sub(loc[t].pos, head) < Sub(tail, head) /\ seq[Idx(loc[t].pos) + 1] = loc[t].pos
    /\ \A t \in Threads : IsReading(t) =>
           /\ Sub(head, loc[t].pos) >= 1 /\ Sub(head, loc[t].pos) <= cap
           /\ Sub(tail, loc[t].pos) <= cap /\ seq[Idx(loc[t].pos) + 1] = Add(loc[t].pos, 1)
    /\ \A t, u \in Threads : (t # u /\ ((IsWriting(t) /\ IsWriting(u)) \/ (IsReading(t) /\ IsReading(u)))) => loc[t].pos # loc[u].pos
    /\ \A k \in 0..cap - 1 : LET p == Add(head, k)  s == seq[Idx(p) + 1] IN
           IF k < Sub(tail, head)
           THEN s = Add(p, 1) \/ (s = p /\ \E t \in Threads : IsWriting(t) /\ loc[t].pos = p)
           ELSE s = p \/ (s = Add(Sub(p, cap), 1) /\ \E t \in Threads : IsReading(t) /\ loc[t].pos = Sub(p, cap))
\* no two goroutines in the plain (non-atomic) access of the same slot's value
SlotExclusion == \A t, u \in Threads :
    (t # u /\ PC(t) \in {"p_wr", "o_rd"} /\ loc[t].okf /\ PC(u) \in {"p_wr", "o_rd"} /\ loc[u].okf) => Idx(loc[t].pos) # Idx(loc[u].pos)

-----------------------------------------------------------------------------
\* Edge emission (see SyncListImpl): s = shared memory as the harness can read it, k = complete
\* model state, o = what an observer calling Len()/IsEmpty()/IsFull() now sees, d = black-box probe
View == <<prog, cap, head, tail, seq, val, loc>>
InitPred == AllIdle /\ \A t \in Threads : loc[t].opi = 1
PoppableSeq == LET RECURSIVE P(_, _)
                   P(p, fuel) == IF fuel = 0 \/ seq[Idx(p) + 1] # Add(p, 1) THEN <<>>
                                 ELSE <<val[Idx(p) + 1]>> \o P(Add(p, 1), fuel - 1)
               IN P(head, cap)
St == [s |-> [prog |-> prog, cap |-> cap, m |-> M, head |-> head, tail |-> tail, seq |-> seq, val |-> val],
       k |-> <<prog, cap, head, tail, seq, val, loc>>,
       o |-> [len |-> LenOf(tail, head), empty |-> (head = tail), full |-> (Sub(tail, head) = cap),
              idx |-> [t \in Threads |-> IF PC(t) = "idle" THEN loc[t].opi - 1 ELSE loc[t].opi]],
       d |-> [len |-> LenOf(tail, head), popped |-> PoppableSeq]]
Emit == PrintT(ToJson([i |-> InitPred, f |-> St, op |-> last', t |-> St']))
=============================================================================
