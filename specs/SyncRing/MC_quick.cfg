SPECIFICATION Spec
CONSTANTS
  Progs <- ProgsQuick
  Inits <- InitsQuick
  M = 8
INVARIANTS TypeOK Bounded PopNonEmpty PopValue FalseLegit LenRange QuiescentExact TicketInv SlotExclusion Progress
VIEW View
CHECK_DEADLOCK FALSE
ACTION_CONSTRAINT Emit
