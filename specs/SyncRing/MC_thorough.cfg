SPECIFICATION Spec
CONSTANTS
  Progs <- ProgsThorough
  Inits <- InitsThorough
  M = 8
INVARIANTS TypeOK Bounded PopNonEmpty PopValue FalseLegit LenRange QuiescentExact TicketInv SlotExclusion Progress
VIEW View
CHECK_DEADLOCK FALSE
