---------------------------- MODULE MCSyncRing ----------------------------
EXTENDS SyncRingImpl
PU(v) == <<"push", v>>
PO == <<"pop">>
LE == <<"len">>
RECURSIVE SeqsOf(_, _)
SeqsOf(A, n) == IF n = 0 THEN {<<>>} ELSE {<<a>> \o s : a \in A, s \in SeqsOf(A, n - 1)}
Calls(t) == {PU(t), PO, LE}
CallsPP(t) == {PU(t), PO}
Progs2x2 == {<<p1, p2>> : p1 \in SeqsOf(CallsPP(1), 2), p2 \in SeqsOf(CallsPP(2), 2)}
Progs3x1 == {<<p1, p2, p3>> : p1 \in SeqsOf(Calls(1), 1), p2 \in SeqsOf(Calls(2), 1), p3 \in SeqsOf(Calls(3), 1)}
ProgsQuick == Progs2x2 \cup Progs3x1
\* cap 2, M = 8: positions 6,7 then wrap; every fill level 0..2
InitsQuick == {[cap |-> 2, base |-> 6, q |-> <<>>], [cap |-> 2, base |-> 7, q |-> <<8>>], [cap |-> 2, base |-> 6, q |-> <<8, 9>>]}
Progs3x2 == {<<p1, p2, p3>> : p1 \in SeqsOf(CallsPP(1), 2), p2 \in SeqsOf(CallsPP(2), 2), p3 \in SeqsOf({PO, LE}, 2)}
Progs2x3 == {<<p1, p2>> : p1 \in SeqsOf(Calls(1), 3), p2 \in SeqsOf(Calls(2), 3)}
Progs4x1 == {<<p1, p2, p3, p4>> : p1 \in SeqsOf(CallsPP(1), 1), p2 \in SeqsOf(CallsPP(2), 1), p3 \in SeqsOf(CallsPP(3), 1), p4 \in SeqsOf(Calls(4), 1)}
ProgsThorough == Progs3x2 \cup Progs2x3 \cup Progs4x1
InitsThorough == {[cap |-> 2, base |-> 7, q |-> <<>>], [cap |-> 2, base |-> 6, q |-> <<8>>], [cap |-> 2, base |-> 7, q |-> <<8, 9>>],
                  [cap |-> 4, base |-> 6, q |-> <<8>>], [cap |-> 4, base |-> 5, q |-> <<8, 9, 8>>]}
=============================================================================
