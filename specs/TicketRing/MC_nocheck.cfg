SPECIFICATION Spec
CONSTANTS
  N = 3
  Cap = 2
  Flaw = "nocheck"
INVARIANTS Safety
CONSTRAINT Bound
CHECK_DEADLOCK FALSE
