----------------------------- MODULE TicketRing -----------------------------
(* The ticket protocol of ringz.SyncRing (properties C01 / C10) without        *)
(* programs, values or counter wrap: N goroutines run Push and Pop for ever.   *)
(* SyncRingImpl.tla (checked by TLC, replayed on the code) covers bounded      *)
(* programs at the real 2^32 wrap; this module is for an UNBOUNDED argument:   *)
(* IndInv is an inductive invariant - Init => IndInv and IndInv /\ Next =>     *)
(* IndInv' are discharged by Apalache (SMT) for the given N and Cap - and it   *)
(* implies that                                                                *)
(*   - the ring never holds more than Cap claimed positions (Bounded)          *)
(*   - no two goroutines ever touch the value cell of the same slot at the     *)
(*     same time (SlotExclusion: the plain, non-atomic accesses cannot race)   *)
(*   - positions are handed out exactly once on either side (Tickets)          *)
(* for runs of any length and any interleaving.  TLC checks the same spec      *)
(* exhaustively up to a bound as a cross-check of the transcription.           *)
(* Steps (one atomic operation of ringz/sync.go each):                         *)
(*   Push: load tail; load seq[slot] (!= pos: full, give up); CAS tail;        *)
(*         plain write of the value; store seq[slot] = pos + 1                 *)
(*   Pop:  load head; load seq[slot] (!= pos + 1: empty, give up); CAS head;   *)
(*         plain read of the value; store seq[slot] = pos + Cap                *)
EXTENDS Integers, FiniteSets

CONSTANTS
    \* @type: Int;
    N,
    \* @type: Int;
    Cap,
    \* @type: Str;
    Flaw      \* "none": the protocol as it is; "earlystore" (slot released before the value is read) / "nocheck" (no full test): two broken variants used as vacuity guards

VARIABLES
    \* @type: Int;
    head,
    \* @type: Int;
    tail,
    \* @type: Int -> Int;
    seq,
    \* @type: Int -> Str;
    pc,
    \* @type: Int -> Int;
    pos

vars == <<head, tail, seq, pc, pos>>
Threads == 1..N
Slots == 0..(Cap - 1)
Slot(p) == p % Cap
Writing == {"p_wr", "p_st"}      \* position claimed by a pusher, not yet published
Reading == {"o_rd", "o_st"}      \* position claimed by a popper, slot not yet released
PCs == {"idle", "p_ls", "p_cas", "p_wr", "p_st", "o_ls", "o_cas", "o_rd", "o_st"}

Init == /\ head = 0 /\ tail = 0
        /\ seq = [s \in Slots |-> s]
        /\ pc = [t \in Threads |-> "idle"]
        /\ pos = [t \in Threads |-> 0]

Go(t, l) == pc' = [pc EXCEPT ![t] = l]
PushLoadTail(t) == pc[t] = "idle" /\ Go(t, "p_ls") /\ pos' = [pos EXCEPT ![t] = tail] /\ UNCHANGED <<head, tail, seq>>
PushLoadSeq(t) == /\ pc[t] = "p_ls" /\ UNCHANGED <<head, tail, seq, pos>>
                  /\ IF seq[Slot(pos[t])] = pos[t] \/ Flaw = "nocheck" THEN Go(t, "p_cas") ELSE Go(t, "idle")
PushCAS(t) == /\ pc[t] = "p_cas" /\ UNCHANGED <<head, seq, pos>>
              /\ IF tail = pos[t] THEN tail' = tail + 1 /\ Go(t, "p_wr") ELSE tail' = tail /\ Go(t, "idle")
PushWrite(t) == pc[t] = "p_wr" /\ Go(t, "p_st") /\ UNCHANGED <<head, tail, seq, pos>>
PushStore(t) == /\ pc[t] = "p_st" /\ Go(t, "idle") /\ UNCHANGED <<head, tail, pos>>
                /\ seq' = [seq EXCEPT ![Slot(pos[t])] = pos[t] + 1]
PopLoadHead(t) == pc[t] = "idle" /\ Go(t, "o_ls") /\ pos' = [pos EXCEPT ![t] = head] /\ UNCHANGED <<head, tail, seq>>
PopLoadSeq(t) == /\ pc[t] = "o_ls" /\ UNCHANGED <<head, tail, seq, pos>>
                 /\ IF seq[Slot(pos[t])] = pos[t] + 1 THEN Go(t, "o_cas") ELSE Go(t, "idle")
PopCAS(t) == /\ pc[t] = "o_cas" /\ UNCHANGED <<tail, seq, pos>>
             /\ IF head = pos[t] THEN head' = head + 1 /\ Go(t, IF Flaw = "earlystore" THEN "o_st" ELSE "o_rd") ELSE head' = head /\ Go(t, "idle")
PopRead(t) == pc[t] = "o_rd" /\ Go(t, IF Flaw = "earlystore" THEN "idle" ELSE "o_st") /\ UNCHANGED <<head, tail, seq, pos>>
PopStore(t) == /\ pc[t] = "o_st" /\ Go(t, IF Flaw = "earlystore" THEN "o_rd" ELSE "idle") /\ UNCHANGED <<head, tail, pos>>
               /\ seq' = [seq EXCEPT ![Slot(pos[t])] = pos[t] + Cap]
Next == \E t \in Threads : \/ PushLoadTail(t) \/ PushLoadSeq(t) \/ PushCAS(t) \/ PushWrite(t) \/ PushStore(t)
                           \/ PopLoadHead(t) \/ PopLoadSeq(t) \/ PopCAS(t) \/ PopRead(t) \/ PopStore(t)
Spec == Init /\ [][Next]_vars

-----------------------------------------------------------------------------
\* what users rely on
Bounded == head <= tail /\ tail <= head + Cap
SlotExclusion == \A t \in Threads : \A u \in Threads :
    (t # u /\ pc[t] \in {"p_wr", "o_rd"} /\ pc[u] \in {"p_wr", "o_rd"}) => Slot(pos[t]) # Slot(pos[u])
Tickets == \A t \in Threads : \A u \in Threads :
    (t # u /\ ((pc[t] \in Writing /\ pc[u] \in Writing) \/ (pc[t] \in Reading /\ pc[u] \in Reading))) => pos[t] # pos[u]
Safety == Bounded /\ SlotExclusion /\ Tickets

-----------------------------------------------------------------------------
\* the inductive invariant
TypeOK == /\ head >= 0 /\ tail >= 0
          /\ seq \in [Slots -> Int]
          /\ pc \in [Threads -> PCs]
          /\ pos \in [Threads -> Int]
\* a pusher that has claimed p and not yet published it: p is inside the ring, its slot still says "free for p"
WritersOK == \A t \in Threads : pc[t] \in Writing =>
                 /\ head <= pos[t] /\ pos[t] < tail /\ seq[Slot(pos[t])] = pos[t]
\* a popper that has claimed p and not yet released the slot: p is behind head, the slot still says "holds p",
\* and the pushers cannot have come round to it
ReadersOK == \A t \in Threads : pc[t] \in Reading =>
                 /\ 0 <= pos[t] /\ pos[t] < head /\ tail <= pos[t] + Cap /\ seq[Slot(pos[t])] = pos[t] + 1
\* every position inside the ring is published or being written; every free position up to one lap ahead
\* is free or still being read from the lap before
SlotsOK == \A k \in Slots :
    LET p == head + k IN
    IF p < tail
    THEN \/ seq[Slot(p)] = p + 1
         \/ seq[Slot(p)] = p /\ \E t \in Threads : pc[t] \in Writing /\ pos[t] = p
    ELSE \/ seq[Slot(p)] = p
         \/ seq[Slot(p)] = p - Cap + 1 /\ \E t \in Threads : pc[t] \in Reading /\ pos[t] = p - Cap
\* sequence numbers of a slot only grow: what a goroutine saw before its CAS is a lower bound
SeenOK == \A t \in Threads :
             /\ pc[t] = "p_cas" => (seq[Slot(pos[t])] >= pos[t] /\ pos[t] >= 0)
             /\ pc[t] = "o_cas" => (seq[Slot(pos[t])] >= pos[t] + 1 /\ pos[t] >= 0)
             /\ pc[t] \in {"p_ls", "o_ls"} => pos[t] >= 0
IndInv == TypeOK /\ Bounded /\ Tickets /\ WritersOK /\ ReadersOK /\ SlotsOK /\ SeenOK
\* for Apalache: --init=IndInit --inv=IndInv --length=1, and --init=IndInit --inv=Safety --length=0
IndInit == /\ head \in Nat /\ tail \in Nat /\ seq \in [Slots -> Int] /\ pc \in [Threads -> PCs] /\ pos \in [Threads -> Int]
           /\ IndInv
\* constants for Apalache (--cinit)
CInit32 == N = 3 /\ Cap = 2 /\ Flaw = "none"
CInit24 == N = 2 /\ Cap = 4 /\ Flaw = "none"
CInit34 == N = 3 /\ Cap = 4 /\ Flaw = "none"
CInitEarly == N = 3 /\ Cap = 2 /\ Flaw = "earlystore"
CInitNoCheck == N = 3 /\ Cap = 2 /\ Flaw = "nocheck"
\* IndInit is satisfiable far from the initial state (Apalache must find this "violation")
NotThere == ~(head = 1000 /\ tail = 1001 /\ \E t \in Threads : pc[t] = "o_rd")
\* state constraint for the bounded TLC cross-check
Bound == tail <= 6
=============================================================================
