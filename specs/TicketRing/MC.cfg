SPECIFICATION Spec
CONSTANTS
  N = 3
  Cap = 2
  Flaw = "none"
INVARIANTS IndInv Safety
CONSTRAINT Bound
CHECK_DEADLOCK FALSE
