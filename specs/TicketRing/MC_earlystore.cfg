SPECIFICATION Spec
CONSTANTS
  N = 3
  Cap = 2
  Flaw = "earlystore"
INVARIANTS Safety
CONSTRAINT Bound
CHECK_DEADLOCK FALSE
