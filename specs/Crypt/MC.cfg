SPECIFICATION Spec
