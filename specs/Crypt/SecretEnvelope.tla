--------------------------- MODULE SecretEnvelope ---------------------------
(* Specification of the secret-based envelopes of cryptz/crypt.go (property   *)
(* C09): wire format  "Salted__" . salt(8) . body, key material by the        *)
(* OpenSSL EVP_BytesToKey chain with one MD5 round per block                  *)
(*     D1 = H(secret . salt),  D2 = H(D1 . secret . salt),  D3 = H(D2 ...)    *)
(*     key = D1 . D2,  iv = D3  (GCM: nonce = D3[0..12))                      *)
(* with H, the block cipher, base64 and hex UNINTERPRETED (interpreted by the *)
(* runner with the Go standard library).  The specification decides the       *)
(* decision table of the decrypt entry points (too short, not a block         *)
(* multiple, bad magic, bad padding, bad tag => error, never a fault), the    *)
(* tamper table, and - as a state machine - the io.Reader contract under      *)
(* which the stream functions must work for every chunking.                   *)
EXTENDS Integers, Sequences, FiniteSets, TLC, Json
VARIABLE x
Emit(c) == PrintT(ToJson(c))
RECURSIVE SeqsOfLen(_, _)
SeqsOfLen(A, n) == IF n = 0 THEN {<<>>} ELSE {Append(s, a) : s \in SeqsOfLen(A, n - 1), a \in A}

\* round trips: plaintext length, secret length, secret/plaintext given as string or bytes
\* (secret lengths around the sizes at which digest + secret + salt cross 64 / 128 bytes)
\* (forms: plaintext / secret given as string, []byte, or as a DEFINED type over them - "S": type Password string,
\* "B": type Key []byte - which the type constraint ~string | ~[]byte admits: the same bytes are the same secret)
RtCases == \A n \in {0, 1, 15, 16, 17, 47, 48} : \A sl \in {0, 1, 8, 39, 40, 41, 48, 55, 56, 57, 63, 64, 65, 104, 105, 200} : \A form \in {"ss", "sb", "bs", "bb", "sS", "bB", "SB", "Bs"} :
    Emit([fn |-> "roundtrip", s |-> <<>>, a |-> <<n, sl, form>>,
          out |-> [cbc_len |-> 16 + n + 16 - (n % 16), gcm_len |-> 16 + n + 16]])
\* the text forms `openssl enc -a` produces: one line (-A), or lines of 64 characters each ended by a newline (the
\* default; CR LF on some platforms).  A message assembled from the specification in any of them must decrypt.
OpensslForms == \A n \in {0, 15, 31, 32, 33, 47, 48, 100, 400} : \A wrap \in {"oneline", "lf64", "crlf64", "lf76"} :
    Emit([fn |-> "opensslform", s |-> <<>>, a |-> <<n, wrap>>, out |-> <<>>])
\* every single-character corruption class of the encoded message
TamperCases == \A mode \in {"cbc", "gcm"} : \A n \in {0, 5, 16, 33} : \A sl \in {9, 57, 64} :
    \A part \in {"magic", "salt", "body", "tail"} : \A pos \in {"first", "last"} :
        Emit([fn |-> "tamper", s |-> <<>>, a |-> <<mode, n, part, pos, sl>>, out |-> <<>>])
OtherKey == \A mode \in {"cbc", "gcm"} : \A what \in {"secret", "aad"} : (mode = "cbc" => what = "secret") =>
    Emit([fn |-> "otherkey", s |-> <<>>, a |-> <<mode, what>>, out |-> <<>>])
\* truncations and garbage: error, never a panic.  Lengths of the RAW (decoded) message around every boundary
TruncCases == \A mode \in {"cbc", "gcm"} : \A keep \in {0, 1, 7, 8, 15, 16, 17, 31, 32, 33} :
    Emit([fn |-> "truncate", s |-> <<>>, a |-> <<mode, keep>>, out |-> <<>>])
GarbageCases == \A mode \in {"cbc", "gcm"} : \A n \in {0, 1, 3, 4, 15, 16, 22, 24, 32, 44, 64} : \A kind \in {"zero", "rand", "magic", "notenc"} :
    Emit([fn |-> "garbage", s |-> <<>>, a |-> <<mode, n, kind>>, out |-> <<>>])

\* corruption of the ENCODED text (hex for GCM, base64 for Decrypt): the character at a position is replaced by each of
\* the 256 byte values.  GCM: error unless the replacement spells the same hex digit (other letter case); base64: never a
\* fault, and an error for every byte outside the alphabet.  Appended junk ("=", "==", a stray character, a newline) is
\* never a fault either, and an error in hex.
EncTamper == \A mode \in {"cbc", "gcm"} : \A n \in {0, 5, 16} : \A where \in {"first", "second", "mid", "last"} : \A b \in 0..255 :
    Emit([fn |-> "enctamper", s |-> <<>>, a |-> <<mode, n, where, b>>, out |-> <<>>])
EncAppend == \A mode \in {"cbc", "gcm"} : \A n \in 0..18 : \A suffix \in {<<61>>, <<61, 61>>, <<61, 61, 61>>, <<65>>, <<65, 61>>, <<10>>, <<61, 10>>, <<65, 65, 61, 61>>} :
    \A cut \in 0..2 :     \* characters removed from the end of the encoded text before the suffix is appended
    Emit([fn |-> "encappend", s |-> suffix, a |-> <<mode, n, cut>>, out |-> <<>>])

-----------------------------------------------------------------------------
\* io.Reader contract: a reader hands out the remaining bytes in chunks of any size >= 0 and may deliver the last
\* chunk together with io.EOF or report EOF separately.  A chunking is the sizes of the first three reads followed by a
\* size used for all further reads (0 there would never finish, so >= 1).
Sizes == {0, 1, 2, 15, 16, 17}
HeaderLen == 16
\* what a single Read of the header obtains under a chunking: the first chunk, capped at 16 and at the stream length
FirstRead(ch, total) == LET c == ch[1] IN IF c > HeaderLen THEN (IF HeaderLen > total THEN total ELSE HeaderLen) ELSE (IF c > total THEN total ELSE c)
StreamCases == \A body \in {0, 1, 2, 17} : \A pre \in SeqsOfLen(Sizes, 3) : \A rest \in {1, 7, 1000} : \A eof \in {"with_data", "separate"} :
    \A wchunk \in {0, 1, 5} :       \* writer side: 0 = accepts everything at once, k = the harness feeds the encrypter k bytes at a time
    Emit([fn |-> "stream", s |-> pre, a |-> <<body, rest, eof, wchunk>>,
          \* the property: round trip for EVERY chunking.  single_read_gets: what an implementation that reads the header
          \* with one Read call would obtain (it works only if this is 16)
          out |-> [ok |-> TRUE, single_read_gets |-> FirstRead(pre \o <<rest>>, HeaderLen + body)]])
\* The stream body is AES-256-CTR under the derived key and iv: with E the (uninterpreted) block cipher and iv + j the
\* 128-bit big-endian counter, body[i] = plain[i] XOR E(key, iv + (i \div 16))[i % 16] - a function of the POSITION of a
\* byte in the stream only, whatever Read / Write calls the bytes travel in.  StreamShape varies the shape of the
\* plaintext reader (long chunk, then a shorter one, then more data; empty reads in between) on bodies of several
\* cipher blocks, and feeds the resulting message back through a reader of another shape.
ShapeSizes == {0, 1, 5, 16, 17, 33}
StreamShape == \A body \in {40, 100} : \A pc \in SeqsOfLen(ShapeSizes, 4) : \A rest \in {1, 1000} : \A eof \in {"with_data", "separate"} :
    Emit([fn |-> "streamshape", s |-> pc, a |-> <<body, rest, eof>>, out |-> [len |-> HeaderLen + body]])
StreamBad == \A keep \in {0, 1, 8, 15} : \A rest \in {1, 1000} :
    Emit([fn |-> "streambad", s |-> <<>>, a |-> <<keep, rest>>, out |-> <<>>])
\* two stream encryptions in flight at once (the functions are package-level and keep no state of their own): the writer
\* of the first call is held inside its first Write while a second call runs to completion; both must round-trip
StreamOverlap == \A n \in {0, 5, 40} : \A m \in {0, 17} : Emit([fn |-> "streamoverlap", s |-> <<>>, a |-> <<n, m>>, out |-> <<>>])
ASSUME StreamOverlap
ASSUME RtCases
ASSUME OpensslForms
ASSUME TamperCases
ASSUME OtherKey
ASSUME TruncCases
ASSUME GarbageCases
ASSUME EncTamper
ASSUME EncAppend
ASSUME StreamCases
ASSUME StreamBad
ASSUME StreamShape
Init == x = 0
Next == x' = x
Spec == Init /\ [][Next]_x
=============================================================================
