------------------------------- MODULE Pkcs7 -------------------------------
(* Specification of the padding / envelope structure of cryptz/aes.go         *)
(* (property C08).  The block cipher and GCM are UNINTERPRETED here: the      *)
(* runner interprets them with crypto/aes and crypto/cipher (trusted base)    *)
(* and evaluates the CBC chaining formula C_i = E(k, P_i xor C_{i-1}) itself. *)
(* What the specification decides: PKCS#7 pad / unpad (exhaustively for small *)
(* block sizes), the exact length helpers, which inputs CBC decryption must   *)
(* reject, the aliasing layouts, key-size validation and the tamper table of  *)
(* GCM.                                                                       *)
EXTENDS Integers, Sequences, FiniteSets, TLC, Json
VARIABLE x
Emit(c) == PrintT(ToJson(c))
RECURSIVE SeqsUpTo(_, _)
SeqsUpTo(A, n) == IF n = 0 THEN {<<>>}
                  ELSE LET S == SeqsUpTo(A, n - 1) IN S \cup {Append(s, a) : s \in {y \in S : Len(y) = n - 1}, a \in A}
Rep(v, n) == [i \in 1..n |-> v]

PadLen(n, b) == b - (n % b)
Pad(d, b) == d \o Rep(PadLen(Len(d), b), PadLen(Len(d), b))
\* UnPad accepts exactly the image of Pad (of a non-empty datum, for the standalone functions)
UnPadOK(s, b) == /\ Len(s) > 0 /\ Len(s) % b = 0
                 /\ LET p == s[Len(s)] IN p >= 1 /\ p <= b /\ p <= Len(s) /\ \A i \in Len(s) - p + 1..Len(s) : s[i] = p
UnPadLen(s, b) == Len(s) - s[Len(s)]

\* exhaustive: every byte string over a small alphabet (with accidental valid paddings), block sizes 1..4
SmallB == 1..4
Alpha(b) == {0, 1, 2, b, 255}
MaxLenFor(b) == IF b <= 2 THEN 2 * b + 1 ELSE IF b = 3 THEN 6 ELSE 5
UnpadCases == \A b \in SmallB : \A s \in SeqsUpTo(Alpha(b), MaxLenFor(b)) :
    Emit([fn |-> "unpad", s |-> s, a |-> <<b>>, out |-> IF UnPadOK(s, b) THEN <<1, UnPadLen(s, b)>> ELSE <<0, 0>>])
PadCases == /\ \A b \in {1, 2, 3, 4, 8, 16, 255} : \A n \in {1, 2, b - 1, b, b + 1, 2 * b, 2 * b + 1} :
                 n >= 1 => Emit([fn |-> "pad", s |-> <<>>, a |-> <<n, b>>, out |-> <<PadLen(n, b), n + PadLen(n, b)>>])
            \* every block size 1..255 with every padding length 1..b (the shortest non-empty datum that needs it)
            /\ \A b \in 1..255 : \A q \in 1..b :
                 LET n == IF b - q >= 1 THEN b - q ELSE 2 * b - q IN
                 Emit([fn |-> "pad", s |-> <<>>, a |-> <<n, b>>, out |-> <<PadLen(n, b), n + PadLen(n, b)>>])
\* standalone un-padding of structured inputs for larger block sizes: nb blocks whose last byte is q, the run of q
\* bytes written when it fits, corrupted at offset c from the end (0 = not corrupted)
BigUnpadCases == \A b \in {5, 15, 16, 17, 18, 32, 33, 64, 128, 255} : \A nb \in 1..2 :
    \A q \in {0, 1, 2, 15, 16, 17, 18, b - 1, b, b + 1, 255} : \A c \in {0, 2, 16, 17, 18, b} :
    (q >= 0 /\ q <= 255 /\ c <= b * nb) =>
    LET ok == q >= 1 /\ q <= b /\ (c = 0 \/ c > q) IN
    Emit([fn |-> "bigunpad", s |-> <<>>, a |-> <<b, nb, q, c>>, out |-> IF ok THEN <<1, b * nb - q>> ELSE <<0, 0>>])
\* round trip on the specification itself (checked by TLC)
PadSane == \A b \in SmallB : \A d \in SeqsUpTo(Alpha(b), MaxLenFor(b) - 1) : d # <<>> => (UnPadOK(Pad(d, b), b) /\ UnPadLen(Pad(d, b), b) = Len(d))
\* block sizes <= 0 and the empty datum are errors
PadErrCases == \A b \in {-1, 0} : Emit([fn |-> "paderr", s |-> <<>>, a |-> <<3, b>>, out |-> <<>>])

\* lengths that are NOT a multiple of the block size, ending in something that looks like padding: always an error
OddLenUnpadCases == \A b \in {2, 8, 15, 16, 17, 32} : \A n \in {1, 3, b - 1, b + 1, 2 * b - 1, 2 * b + 1} : \A q \in {1, 2, 3, 9, b} :
    (n >= 1 /\ n % b # 0 /\ q <= 255) => Emit([fn |-> "oddunpad", s |-> <<>>, a |-> <<b, n, q>>, out |-> <<0, 0>>])
\* structured 16-byte-block cases for un-padding inside CBC decryption: nb blocks whose last byte is p and whose
\* final run is corrupted at offset c from the end (c = 0: not corrupted)
CbcUnpadCases == \A nb \in 1..3 : \A p \in {0, 1, 2, 15, 16, 17, 32, 255} : \A c \in {0, 2, 15, 16} :
    LET ok == p >= 1 /\ p <= 16 /\ (c = 0 \/ c > p) IN
    Emit([fn |-> "cbcunpad", s |-> <<>>, a |-> <<nb, p, c>>, out |-> IF ok THEN <<1, 16 * nb - p>> ELSE <<0, 0>>])
\* lengths, aliasing layouts ("fresh": separate buffers, "shared": dst and src start at the same address), key sizes
\* ("pool": dst and src are disjoint windows of one allocation; "shift": src lies 16 bytes into the buffer dst starts at)
CbcCases == \A n \in 0..49 : \A k \in {16, 24, 32} : \A lay \in {"fresh", "shared", "pool", "shift"} :
    Emit([fn |-> "cbc", s |-> <<>>, a |-> <<n, k, lay>>, out |-> <<n + 16 - (n % 16), (n \div 16) + 1, 16 - (n % 16)>>])
CbcBadLen == \A n \in {0, 1, 15, 17, 31, 33} : Emit([fn |-> "cbcbadlen", s |-> <<>>, a |-> <<n>>, out |-> <<>>])
KeyCases == \A k \in {0, 1, 15, 17, 23, 25, 31, 33, 64} : Emit([fn |-> "badkey", s |-> <<>>, a |-> <<k>>, out |-> <<>>])
\* sequences of calls whose keys are related: the same bytes at another length (K, then K followed by zero bytes), valid
\* and invalid lengths alternating.  Every call must behave as if it were the only one.
KeySeqs == {<<16, 24>>, <<16, 32>>, <<24, 32>>, <<32, 16>>, <<16, 17>>, <<16, 31>>, <<24, 25>>, <<16, 24, 16, 32>>, <<32, 33, 16>>}
KeySeqCases == \A ks \in KeySeqs : \A mode \in {"cbc", "gcm"} : Emit([fn |-> "keyseq", s |-> ks, a |-> <<mode>>, out |-> <<>>])
\* GCM: Open(Seal(x)) = x, output = standard Seal, any single-bit change of ciphertext / tag / nonce / aad => failure
GcmCases == \A n \in {0, 1, 15, 16, 17, 33} : \A nl \in {12, 1, 3, 13, 16} : \A al \in {0, 5} : \A k \in {16, 24, 32} : \A lay \in {"fresh", "shared", "pool"} :
    Emit([fn |-> "gcm", s |-> <<>>, a |-> <<n, nl, al, k, lay>>, out |-> <<n + 16>>])
GcmTamper == \A n \in {0, 1, 17} : \A nl \in {12, 16} : \A al \in {0, 5} :
    \A part \in {"ct", "tag", "nonce", "aad"} : \A pos \in {"first", "mid", "last"} : \A bit \in {0, 7} :
        ((part = "ct" => n > 0) /\ (part = "aad" => al > 0)) =>
            Emit([fn |-> "gcmtamper", s |-> <<>>, a |-> <<n, nl, al, part, pos, bit>>, out |-> <<>>])
ASSUME PadSane
ASSUME UnpadCases
ASSUME PadCases
ASSUME BigUnpadCases
ASSUME OddLenUnpadCases
ASSUME PadErrCases
ASSUME CbcUnpadCases
ASSUME CbcCases
ASSUME CbcBadLen
ASSUME KeyCases
ASSUME KeySeqCases
ASSUME GcmCases
ASSUME GcmTamper
Init == x = 0
Next == x' = x
Spec == Init /\ [][Next]_x
=============================================================================
