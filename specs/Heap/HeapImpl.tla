------------------------------ MODULE HeapImpl ------------------------------
(* Code-shaped specification of heapz: the binary heap array and the sift-up  *)
(* / sift-down / fix / build routines of heapz/adjustment.go (shared by Heap, *)
(* Slice and - as std_up / std_down - by the generic functions), transcribed  *)
(* with the code's tie-breaking, and the swap callback that rewrites the      *)
(* cached indices.  TLC checks the heap order after every step and that every *)
(* behaviour is a behaviour of HandlePQ (refinement).                         *)
EXTENDS Integers, Sequences, FiniteSets, TLC, Json
CONSTANTS Prios, MaxH, MaxLive, InitSeqs
VARIABLES arr,   \* the heap array (sequence of handles)
          pr, next, last

R(n, args, r) == [n |-> n, a |-> args, r |-> r]
At(s, i) == s[i + 1]                                  \* 0-based access
Swap(s, i, j) == [s EXCEPT ![i + 1] = s[j + 1], ![j + 1] = s[i + 1]]
Less(p, a, b) == p[a] < p[b]                          \* cmp(a.Value, b.Value)

RECURSIVE Up(_, _, _)
Up(p, s, j) == LET i == IF j = 0 THEN 0 ELSE (j - 1) \div 2 IN      \* Go: (0-1)/2 = 0
               IF i = j \/ ~Less(p, At(s, j), At(s, i)) THEN s ELSE Up(p, Swap(s, i, j), i)
\* Down returns <<array, final index>>
RECURSIVE Down(_, _, _, _)
Down(p, s, i, n) == LET j1 == 2 * i + 1 IN
    IF j1 >= n THEN <<s, i>>
    ELSE LET j == IF j1 + 1 < n /\ Less(p, At(s, j1 + 1), At(s, j1)) THEN j1 + 1 ELSE j1 IN
         IF ~Less(p, At(s, j), At(s, i)) THEN <<s, i>> ELSE Down(p, Swap(s, i, j), j, n)
FixAtIdx(p, s, i, tail) == LET d == Down(p, s, i, tail) IN IF d[2] > i THEN d[1] ELSE Up(p, s, i)
RECURSIVE BuildFrom(_, _, _)
BuildFrom(p, s, i) == IF i < 0 THEN s ELSE BuildFrom(p, Down(p, s, i, Len(s))[1], i - 1)
Build(p, s) == BuildFrom(p, s, (Len(s) \div 2) - 1)

Live == {arr[k] : k \in 1..Len(arr)}
IdxOf(h) == (CHOOSE k \in 1..Len(arr) : arr[k] = h) - 1
Created == 1..(next - 1)

Init == arr = <<>> /\ pr = [h \in 0..MaxH |-> 0] /\ next = 1 /\ last = R("Init", <<>>, <<>>)

Push(p) == /\ next <= MaxH /\ Len(arr) < MaxLive
           /\ pr' = [pr EXCEPT ![next] = p]
           /\ arr' = Up(pr', Append(arr, next), Len(arr))
           /\ next' = next + 1 /\ last' = R("Push", <<p>>, <<next>>)
Repush(h) == /\ h >= 1 /\ h < next /\ h \notin Live /\ Len(arr) < MaxLive
             /\ arr' = Up(pr, Append(arr, h), Len(arr))
             /\ last' = R("Repush", <<h>>, <<>>) /\ UNCHANGED <<pr, next>>
Pop == LET n == Len(arr) IN
       /\ IF n = 0 THEN arr' = arr /\ last' = R("Pop", <<>>, <<0, 0>>)
          ELSE IF n = 1 THEN arr' = <<>> /\ last' = R("Pop", <<>>, <<arr[1], pr[arr[1]]>>)
          ELSE LET s == Down(pr, Swap(arr, 0, n - 1), 0, n - 1)[1] IN
               arr' = SubSeq(s, 1, n - 1) /\ last' = R("Pop", <<>>, <<s[n], pr[s[n]]>>)
       /\ UNCHANGED <<pr, next>>
Peek == /\ last' = IF arr = <<>> THEN R("Peek", <<>>, <<0, 0>>) ELSE R("Peek", <<>>, <<arr[1], pr[arr[1]]>>)
        /\ UNCHANGED <<arr, pr, next>>
RemoveIdx(p, s, i) == LET n == Len(s) - 1 IN
                      IF n # i THEN SubSeq(FixAtIdx(p, Swap(s, i, n), i, n), 1, n) ELSE SubSeq(s, 1, n)
Remove(h) == /\ h \in Created \cup {0}
             /\ arr' = IF h \in Live THEN RemoveIdx(pr, arr, IdxOf(h)) ELSE arr
             /\ last' = R("Remove", <<h>>, <<>>) /\ UNCHANGED <<pr, next>>
Fix(h, p) == /\ h \in Created \cup {0}
             /\ pr' = [pr EXCEPT ![h] = p]
             /\ arr' = IF h \in Live THEN FixAtIdx(pr', arr, IdxOf(h), Len(arr)) ELSE arr
             /\ last' = R("Fix", <<h, p>>, <<>>) /\ UNCHANGED next
RemoveAt(i) == /\ (i < 0 \/ i >= Len(arr)) /\ last' = R("RemoveAt", <<i>>, <<0, 0>>) /\ UNCHANGED <<arr, pr, next>>
FixAt(i) == /\ (i < 0 \/ i >= Len(arr)) /\ last' = R("FixAt", <<i>>, <<>>) /\ UNCHANGED <<arr, pr, next>>
InitFrom(ps) == /\ next = 1 /\ arr = <<>>
                /\ pr' = [h \in 0..MaxH |-> IF h >= 1 /\ h <= Len(ps) THEN ps[h] ELSE 0]
                /\ arr' = Build(pr', [k \in 1..Len(ps) |-> k])
                /\ next' = Len(ps) + 1 /\ last' = R("InitFrom", <<ps>>, <<>>)

Next == \/ \E p \in Prios : Push(p)
        \/ Pop \/ Peek
        \/ \E h \in 1..MaxH : Repush(h)
        \/ \E h \in 0..MaxH : Remove(h) \/ \E p \in Prios : Fix(h, p)
        \/ \E i \in {-1, Len(arr), Len(arr) + 1} : RemoveAt(i) \/ FixAt(i)
        \/ \E ps \in InitSeqs : InitFrom(ps)
vars == <<arr, pr, next, last>>
Spec == Init /\ [][Next]_vars

-----------------------------------------------------------------------------
HeapOrder == \A k \in 1..Len(arr) - 1 : ~Less(pr, At(arr, k), At(arr, (k - 1) \div 2))
NoDup == \A i, j \in 1..Len(arr) : i # j => arr[i] # arr[j]
Abs == INSTANCE HandlePQ WITH live <- Live
AbsNext == \/ last'.n = "Push" /\ Abs!Push(last'.a[1])
           \/ last'.n = "Repush" /\ Abs!Repush(last'.a[1])
           \/ last'.n = "Pop" /\ Abs!Pop
           \/ last'.n = "Peek" /\ Abs!Peek
           \/ last'.n = "Remove" /\ Abs!Remove(last'.a[1])
           \/ last'.n = "Fix" /\ Abs!Fix(last'.a[1], last'.a[2])
           \/ last'.n = "RemoveAt" /\ Abs!RemoveAt(last'.a[1])
           \/ last'.n = "FixAt" /\ Abs!FixAt(last'.a[1])
           \/ last'.n = "InitFrom" /\ Abs!InitFrom(last'.a[1])
Refines == Abs!Init /\ [][AbsNext]_<<Live, pr, next, last>>

\* drain: PopAll must yield the priorities in ascending order
SX == INSTANCE SequencesExt
SortedPrios(p, s) == LET S == {<<p[s[k]], k>> : k \in 1..Len(s)}
                         ss == SX!SetToSortSeq(S, LAMBDA x, y : x[1] < y[1] \/ (x[1] = y[1] /\ x[2] < y[2]))
                     IN [i \in 1..Len(ss) |-> ss[i][1]]
MinPr == IF arr = <<>> THEN 0 ELSE pr[arr[1]]
View == <<arr, pr, next>>
O == [len |-> Len(arr), peekprio |-> MinPr, live |-> SX!SetToSortSeq(Live, LAMBDA x, y : x < y), heapok |-> TRUE]
St == [s |-> [arr |-> arr, pr |-> [h \in 1..MaxH |-> pr[h]]], k |-> <<arr, pr, next>>, o |-> O, d |-> SortedPrios(pr, arr)]
\* (the walker needs the drain prediction only for the target state)
StF == [s |-> [arr |-> arr, pr |-> [h \in 1..MaxH |-> pr[h]]], k |-> <<arr, pr, next>>, o |-> O, d |-> <<>>]
Emit == PrintT(ToJson([i |-> (next = 1 /\ arr = <<>>), f |-> StF, op |-> last', t |-> St']))
=============================================================================
