SPECIFICATION TSpec
CONSTANTS
  Prios = {1}
  MaxH = 80
POSTCONDITION Accepted
CHECK_DEADLOCK FALSE
