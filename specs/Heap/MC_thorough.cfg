SPECIFICATION Spec
CONSTANTS
  Prios = {1, 2, 3}
  MaxH = 6
  MaxLive = 5
  InitSeqs <- InitSeqsThorough
INVARIANTS HeapOrder NoDup
PROPERTY Refines
VIEW View
CHECK_DEADLOCK FALSE
ACTION_CONSTRAINT Emit
