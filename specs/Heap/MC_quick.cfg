SPECIFICATION Spec
CONSTANTS
  Prios = {1, 2}
  MaxH = 4
  MaxLive = 4
  InitSeqs <- InitSeqsQuick
INVARIANTS HeapOrder NoDup
PROPERTY Refines
VIEW View
CHECK_DEADLOCK FALSE
ACTION_CONSTRAINT Emit
