------------------------------ MODULE HeapTrace ------------------------------
(* Trace validation of heapz runs against the abstract HandlePQ: the handle   *)
(* that a real Pop / Peek returned is bound from the log and must be one of   *)
(* the minimal live handles.                                                  *)
EXTENDS HandlePQ, Json, TLC
VARIABLE l
Trace == ndJsonDeserialize("trace.ndjson")
Ev == Trace[l]
A(i) == Ev.a[i]
SX == INSTANCE SequencesExt
MinPr == IF live = {} THEN 0 ELSE CHOOSE p \in {pr[h] : h \in live} : \A g \in live : pr[g] >= p
O == [len |-> Cardinality(live), peekprio |-> MinPr, live |-> SX!SetToSortSeq(live, LAMBDA x, y : x < y), heapok |-> TRUE]
Step(Act) == /\ l' = l + 1 /\ Act /\ last'.r = Ev.r /\ ("o" \in DOMAIN Ev => O' = Ev.o)
TReset == Ev.ev = "Reset" /\ l' = l + 1 /\ live' = {} /\ pr' = [h \in 0..MaxH |-> 0] /\ next' = 1 /\ last' = R("Init", <<>>, <<>>)
\* PopAll: the priorities must come out in ascending order and be exactly those of the live handles
SortedPr == LET S == {<<pr[h], h>> : h \in live}
                ss == SX!SetToSortSeq(S, LAMBDA x, y : x[1] < y[1] \/ (x[1] = y[1] /\ x[2] < y[2]))
            IN [i \in 1..Len(ss) |-> ss[i][1]]
TDrain == Ev.ev = "Drain" /\ l' = l + 1 /\ Ev.d = SortedPr /\ UNCHANGED vars
\* PopAll whose loop body pushes one more element (priority A(1)) when it receives the first one: the yielded elements
\* ys = <<<<handle, priority>>, ...>> must be legal Pops in that order, every element comes out exactly once (also the
\* pushed one), and the heap is empty afterwards
RECURSIVE LegalDrain(_, _, _)
LegalDrain(L, P, ys) == IF ys = <<>> THEN L = {}
                        ELSE LET h == ys[1][1] IN
                             /\ h \in L /\ P[h] = ys[1][2] /\ \A g2 \in L : P[g2] >= P[h]
                             /\ LegalDrain(L \ {h}, P, Tail(ys))
TPopAllPush == /\ Ev.ev = "PopAllPush" /\ l' = l + 1
               /\ LET ys == Ev.r IN
                  IF live = {} THEN /\ ys = <<>> /\ next <= MaxH       \* nothing to yield: the element is pushed afterwards
                                    /\ live' = {next} /\ pr' = [pr EXCEPT ![next] = A(1)] /\ next' = next + 1
                  ELSE /\ ys # <<>> /\ next <= MaxH
                       /\ ys[1][1] \in live /\ pr[ys[1][1]] = ys[1][2] /\ \A g2 \in live : pr[g2] >= ys[1][2]
                       /\ LegalDrain((live \ {ys[1][1]}) \cup {next}, [pr EXCEPT ![next] = A(1)], Tail(ys))
                       /\ live' = {} /\ pr' = [pr EXCEPT ![next] = A(1)] /\ next' = next + 1
               /\ last' = R("PopAllPush", <<A(1)>>, Ev.r) /\ ("o" \in DOMAIN Ev => O' = Ev.o)

TStep == \/ TReset
         \/ TPopAllPush
         \/ Ev.ev = "Repush" /\ Step(Repush(A(1)))
         \/ TDrain
         \/ Ev.ev = "Push" /\ Step(Push(A(1)))
         \/ Ev.ev = "Pop" /\ Step(Pop)
         \/ Ev.ev = "Peek" /\ Step(Peek)
         \/ Ev.ev = "Remove" /\ Step(Remove(A(1)))
         \/ Ev.ev = "Fix" /\ Step(Fix(A(1), A(2)))
         \/ Ev.ev = "RemoveAt" /\ Step(RemoveAt(A(1)))
         \/ Ev.ev = "FixAt" /\ Step(FixAt(A(1)))
         \/ Ev.ev = "InitFrom" /\ Step(InitFrom(A(1)))
TNext == l <= Len(Trace) /\ TStep
TInit == l = 1 /\ Init
TSpec == TInit /\ [][TNext]_<<vars, l>>
Accepted == TLCGet("stats").diameter - 1 = Len(Trace)
=============================================================================
