------------------------------ MODULE HandlePQ ------------------------------
(* Abstract specification of the heapz heaps (property C04): a priority queue *)
(* over a multiset of elements with stable handles.  Pop and Peek may return  *)
(* ANY live handle that no live handle precedes (ties are not ordered);       *)
(* Remove(h) / Fix(h) act on exactly h, and handles that are not live (popped,*)
(* removed, or of another heap: handle 0) are ignored.                        *)
EXTENDS Integers, Sequences, FiniteSets
CONSTANTS Prios, MaxH     \* priorities; number of handles that may be created
VARIABLES live,  \* set of live handles
          pr,    \* handle -> current priority (also of dead handles: their Value can still be changed)
          next,  \* next handle to be created
          last
R(n, args, r) == [n |-> n, a |-> args, r |-> r]
Handles == 1..MaxH
Created == 1..(next - 1)
Foreign == 0
IsMin(h) == h \in live /\ \A g \in live : pr[g] >= pr[h]

Init == live = {} /\ pr = [h \in 0..MaxH |-> 0] /\ next = 1 /\ last = R("Init", <<>>, <<>>)
Push(p) == /\ next <= MaxH /\ live' = live \cup {next} /\ pr' = [pr EXCEPT ![next] = p] /\ next' = next + 1
           /\ last' = R("Push", <<p>>, <<next>>)
\* PushElement with an element that has left the heap (popped or removed): the same handle is live again
Repush(h) == /\ h \in Created /\ h \notin live
             /\ live' = live \cup {h} /\ last' = R("Repush", <<h>>, <<>>) /\ UNCHANGED <<pr, next>>
\* any minimal live handle may come out
Pop == \/ /\ live = {} /\ last' = R("Pop", <<>>, <<0, 0>>) /\ UNCHANGED <<live, pr, next>>
       \/ \E h \in live : /\ IsMin(h) /\ live' = live \ {h} /\ last' = R("Pop", <<>>, <<h, pr[h]>>)
                          /\ UNCHANGED <<pr, next>>
Peek == \/ /\ live = {} /\ last' = R("Peek", <<>>, <<0, 0>>) /\ UNCHANGED <<live, pr, next>>
        \/ \E h \in live : IsMin(h) /\ last' = R("Peek", <<>>, <<h, pr[h]>>) /\ UNCHANGED <<live, pr, next>>
Remove(h) == /\ h \in Created \cup {Foreign}
             /\ live' = live \ {h} /\ last' = R("Remove", <<h>>, <<>>) /\ UNCHANGED <<pr, next>>
\* the caller changes e.Value to p and calls Fix(e)
Fix(h, p) == /\ h \in Created \cup {Foreign}
             /\ pr' = [pr EXCEPT ![h] = p] /\ last' = R("Fix", <<h, p>>, <<>>) /\ UNCHANGED <<live, next>>
\* index-based forms of Slice / the generic functions with an index that is out of range: ignored
RemoveAt(i) == /\ (i < 0 \/ i >= Cardinality(live)) /\ last' = R("RemoveAt", <<i>>, <<0, 0>>) /\ UNCHANGED <<live, pr, next>>
FixAt(i) == /\ (i < 0 \/ i >= Cardinality(live)) /\ last' = R("FixAt", <<i>>, <<>>) /\ UNCHANGED <<live, pr, next>>
\* a heap built from a list of priorities (Heap.Init / FromSlice / Init), only as the first step
InitFrom(ps) == /\ next = 1 /\ Len(ps) <= MaxH
                /\ live' = 1..Len(ps) /\ pr' = [h \in 0..MaxH |-> IF h >= 1 /\ h <= Len(ps) THEN ps[h] ELSE 0]
                /\ next' = Len(ps) + 1 /\ last' = R("InitFrom", <<ps>>, <<>>)
vars == <<live, pr, next, last>>
=============================================================================
