------------------------------- MODULE MCHeap -------------------------------
EXTENDS HeapImpl
RECURSIVE SeqsUpTo(_, _)
SeqsUpTo(A, n) == IF n = 0 THEN {<<>>} ELSE SeqsUpTo(A, n - 1) \cup {Append(s, a) : s \in {x \in SeqsUpTo(A, n - 1) : Len(x) = n - 1}, a \in A}
InitSeqsQuick == SeqsUpTo({1, 2}, 3)
InitSeqsThorough == SeqsUpTo({1, 2, 3}, 4)
=============================================================================
