SPECIFICATION Spec
CONSTANTS
  Prios = {1, 2, 3}
  MaxH = 5
  MaxLive = 5
  InitSeqs <- InitSeqsThorough
INVARIANTS HeapOrder NoDup
PROPERTY Refines
VIEW View
CHECK_DEADLOCK FALSE
