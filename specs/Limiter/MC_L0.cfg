SPECIFICATION FairSpec
CONSTANTS
  Limit = 0
  Tasks = {1,2,3,4}
  Panics = {}
INVARIANTS Bound TokensOK WaitSafe
PROPERTIES AllRun WaitReturns SlotsBack
CHECK_DEADLOCK FALSE
