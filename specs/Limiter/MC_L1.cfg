SPECIFICATION FairSpec
CONSTANTS
  Limit = 1
  Tasks = {1,2,3}
  Panics = {1,3}
INVARIANTS Bound TokensOK WaitSafe
PROPERTIES AllRun WaitReturns SlotsBack
CHECK_DEADLOCK FALSE
