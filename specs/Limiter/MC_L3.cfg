SPECIFICATION FairSpec
CONSTANTS
  Limit = 3
  Tasks = {1,2,3,4,5}
  Panics = {2,4}
INVARIANTS Bound TokensOK WaitSafe
PROPERTIES AllRun WaitReturns SlotsBack
CHECK_DEADLOCK FALSE
