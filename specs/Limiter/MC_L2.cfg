SPECIFICATION FairSpec
CONSTANTS
  Limit = 2
  Tasks = {1,2,3,4}
  Panics = {2}
INVARIANTS Bound TokensOK WaitSafe
PROPERTIES AllRun WaitReturns SlotsBack
CHECK_DEADLOCK FALSE
