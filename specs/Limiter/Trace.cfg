SPECIFICATION Spec
CONSTANT MaxTasks = 320
POSTCONDITION Accepted
CHECK_DEADLOCK FALSE
