SPECIFICATION Spec
CONSTANT MaxTasks = 12
POSTCONDITION Accepted
CHECK_DEADLOCK FALSE
