---------------------------- MODULE LimiterTrace ----------------------------
(* Trace validation for goz.Limiter: the events are what is observable from   *)
(* outside - the submitted functions themselves log `enter` / `exit`, the     *)
(* driver logs its calls of Go and Wait and what the panic handler received.  *)
(* Order comes from one shared atomic counter.  Every clause of property C19  *)
(* that a finite log can refute is a guard below.                             *)
EXTENDS Integers, FiniteSets, Sequences, TLC, Json
CONSTANT MaxTasks
VARIABLES cap, st, ret, pan, handled, waitset, waiter, l,
          nh,           \* no handler of the driver is configured (the library reports panics itself): nothing to observe
          cfgh, hat     \* the handler configured now, and the one that was configured when each function was submitted
Trace == ndJsonDeserialize("trace.ndjson")
Ev == Trace[l]
T == 1..MaxTasks
Inside == {t \in T : st[t] = "in"}

Init == /\ l = 1 /\ cap = 3 /\ st = [t \in T |-> "none"] /\ ret = {} /\ pan = {} /\ handled = {} /\ waitset = {} /\ waiter = "idle"
        /\ cfgh = 0 /\ hat = [t \in T |-> 0] /\ nh = FALSE
New == /\ Ev.ev = "new" /\ cap' = (IF Ev.n < 1 THEN 3 ELSE Ev.n)
       /\ st' = [t \in T |-> "none"] /\ ret' = {} /\ pan' = {} /\ handled' = {} /\ waitset' = {} /\ waiter' = "idle"
       /\ cfgh' = 0 /\ hat' = [t \in T |-> 0]
       /\ nh' = ("nohandler" \in DOMAIN Ev /\ Ev.nohandler)
\* SetPanicHandler between submissions (by the submitting goroutine): later submissions report to the new handler
SetHandler == /\ Ev.ev = "sethandler" /\ cfgh' = Ev.h /\ UNCHANGED <<cap, st, ret, pan, handled, waitset, waiter, hat, nh>>
GoCall == /\ Ev.ev = "gocall" /\ st[Ev.i] = "none" /\ st' = [st EXCEPT ![Ev.i] = "called"]
          /\ hat' = [hat EXCEPT ![Ev.i] = cfgh]
          /\ UNCHANGED <<cap, ret, pan, handled, waitset, waiter, cfgh, nh>>
GoRet == /\ Ev.ev = "goret" /\ st[Ev.i] # "none" /\ ret' = ret \cup {Ev.i}
         /\ UNCHANGED <<cap, st, pan, handled, waitset, waiter, cfgh, hat, nh>>
\* a nil function was submitted (only in scenarios without an observing handler): it never runs; the library must
\* account for it as for a function that panicked
NilFn == /\ Ev.ev = "nilfn" /\ st[Ev.i] = "called" /\ nh
         /\ st' = [st EXCEPT ![Ev.i] = "out"] /\ pan' = pan \cup {Ev.i}
         /\ UNCHANGED <<cap, ret, handled, waitset, waiter, cfgh, hat, nh>>
\* a submitted function starts: exactly once, and never while `cap` functions are inside
Enter == /\ Ev.ev = "enter" /\ st[Ev.i] = "called"
         /\ Cardinality(Inside) < cap
         /\ st' = [st EXCEPT ![Ev.i] = "in"] /\ UNCHANGED <<cap, ret, pan, handled, waitset, waiter, cfgh, hat, nh>>
Exit == /\ Ev.ev = "exit" /\ st[Ev.i] = "in" /\ st' = [st EXCEPT ![Ev.i] = "out"]
        /\ pan' = (IF Ev.panic THEN pan \cup {Ev.i} ELSE pan)
        /\ UNCHANGED <<cap, ret, handled, waitset, waiter, cfgh, hat, nh>>
\* the handler receives exactly the value a finished function panicked with, once
Handler == /\ Ev.ev = "handler" /\ Ev.v \in pan /\ Ev.v \notin handled /\ handled' = handled \cup {Ev.v}
           /\ ("h" \in DOMAIN Ev => Ev.h = hat[Ev.v])      \* ... by the handler configured when the function was submitted
           /\ UNCHANGED <<cap, st, ret, pan, waitset, waiter, cfgh, hat, nh>>
WaitCall == /\ Ev.ev = "waitcall" /\ waiter' = "waiting" /\ waitset' = ret
            /\ UNCHANGED <<cap, st, ret, pan, handled, cfgh, hat, nh>>
\* Wait returns only after every function submitted before the call has finished (and its panic was handled)
WaitRet == /\ Ev.ev = "waitret" /\ waiter = "waiting"
           /\ \A t \in waitset : st[t] = "out" /\ ((t \in pan /\ ~nh) => t \in handled)
           /\ waiter' = "returned" /\ UNCHANGED <<cap, st, ret, pan, handled, waitset, cfgh, hat, nh>>
\* end of a scenario (the driver has opened every gate, Wait has returned, the n probe tasks that
\* test for leaked slots have all been inside together): everything submitted has run exactly once
End == /\ Ev.ev = "end" /\ \A t \in T : st[t] \in {"none", "out"} /\ ((t \in pan /\ ~nh) => t \in handled)
       /\ Ev.submitted = Cardinality({t \in T : st[t] = "out"})
       /\ UNCHANGED <<cap, st, ret, pan, handled, waitset, waiter, cfgh, hat, nh>>
Next == l <= Len(Trace) /\ l' = l + 1 /\ (New \/ SetHandler \/ NilFn \/ GoCall \/ GoRet \/ Enter \/ Exit \/ Handler \/ WaitCall \/ WaitRet \/ End)
vars == <<cap, st, ret, pan, handled, waitset, waiter, l, cfgh, hat, nh>>
Spec == Init /\ [][Next]_vars
Accepted == TLCGet("stats").diameter - 1 = Len(Trace)
=============================================================================
