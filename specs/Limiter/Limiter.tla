------------------------------- MODULE Limiter -------------------------------
(* Design-level specification of goz.Limiter (property C19): a counting       *)
(* semaphore of `limit` tokens plus a WaitGroup.  One action per step of the  *)
(* code: the submitter takes a token and adds to the WaitGroup (Go), the      *)
(* worker goroutine runs the function, a panic is recovered and handed to     *)
(* the handler, then the cleanup calls Done and gives the token back.         *)
EXTENDS Integers, FiniteSets, Sequences
CONSTANTS Limit,        \* requested limit (may be < 1: falls back to 3)
          Tasks,        \* set of task ids, submitted in increasing order by one submitter
          Panics        \* subset of Tasks whose function panics
VARIABLES tokens, wg, st, handled, nextT, waiter
Cap == IF Limit < 1 THEN 3 ELSE Limit
MaxTask == CHOOSE t \in Tasks : \A u \in Tasks : u <= t
\* st[t]: "new" | "acquired" (token taken, wg incremented, goroutine started) | "running" (inside fn)
\*        | "ended" (fn returned or panicked) | "handled" (panic passed to the handler) | "wgdone" | "released"
Init == /\ tokens = 0 /\ wg = 0 /\ st = [t \in Tasks |-> "new"] /\ handled = {} /\ nextT = 1
        /\ waiter = "idle"
\* Go(fn): blocks while all tokens are taken
Submit(t) == /\ t = nextT /\ t \in Tasks /\ st[t] = "new" /\ tokens < Cap
             /\ tokens' = tokens + 1 /\ wg' = wg + 1 /\ st' = [st EXCEPT ![t] = "acquired"] /\ nextT' = nextT + 1
             /\ UNCHANGED <<handled, waiter>>
Start(t) == st[t] = "acquired" /\ st' = [st EXCEPT ![t] = "running"] /\ UNCHANGED <<tokens, wg, handled, nextT, waiter>>
Finish(t) == st[t] = "running" /\ st' = [st EXCEPT ![t] = "ended"] /\ UNCHANGED <<tokens, wg, handled, nextT, waiter>>
\* recover(): a panic value reaches the handler before any cleanup runs
Handle(t) == /\ st[t] = "ended"
             /\ IF t \in Panics THEN handled' = handled \cup {t} ELSE UNCHANGED handled
             /\ st' = [st EXCEPT ![t] = "handled"] /\ UNCHANGED <<tokens, wg, nextT, waiter>>
Done(t) == st[t] = "handled" /\ wg' = wg - 1 /\ st' = [st EXCEPT ![t] = "wgdone"] /\ UNCHANGED <<tokens, handled, nextT, waiter>>
Release(t) == st[t] = "wgdone" /\ tokens' = tokens - 1 /\ st' = [st EXCEPT ![t] = "released"] /\ UNCHANGED <<wg, handled, nextT, waiter>>
\* Wait() is called once every task has been submitted, and returns when the WaitGroup is zero
WaitCall == waiter = "idle" /\ nextT > MaxTask /\ waiter' = "waiting" /\ UNCHANGED <<tokens, wg, st, handled, nextT>>
WaitRet == waiter = "waiting" /\ wg = 0 /\ waiter' = "returned" /\ UNCHANGED <<tokens, wg, st, handled, nextT>>
Next == \/ \E t \in Tasks : Submit(t) \/ Start(t) \/ Finish(t) \/ Handle(t) \/ Done(t) \/ Release(t)
        \/ WaitCall \/ WaitRet
vars == <<tokens, wg, st, handled, nextT, waiter>>
Spec == Init /\ [][Next]_vars
FairSpec == Spec /\ WF_vars(Next) /\ \A t \in Tasks : WF_vars(Start(t) \/ Finish(t) \/ Handle(t) \/ Done(t) \/ Release(t))

Running == {t \in Tasks : st[t] = "running"}
\* at no instant are more than Cap functions running
Bound == Cardinality(Running) <= Cap
TokensOK == tokens = Cardinality({t \in Tasks : st[t] \in {"acquired", "running", "ended", "handled", "wgdone"}}) /\ tokens <= Cap
\* Wait returns only after every submitted function has finished, and every panic has been handled by then
WaitSafe == waiter = "returned" => \A t \in Tasks : st[t] \in {"wgdone", "released"} /\ (t \in Panics => t \in handled)
\* liveness: every task runs, Wait returns, and every slot comes back (also after panics)
AllRun == <>(\A t \in Tasks : st[t] = "released")
WaitReturns == <>(waiter = "returned")
SlotsBack == <>[](tokens = 0)
=============================================================================
