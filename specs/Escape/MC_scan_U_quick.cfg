SPECIFICATION Spec
CONSTANTS
  Codec = "U"
  MaxTok = 2
INVARIANTS Ordered Correct EmitDone
PROPERTIES Advances Terminates
CHECK_DEADLOCK FALSE
