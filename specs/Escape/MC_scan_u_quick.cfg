SPECIFICATION Spec
CONSTANTS
  Codec = "u"
  MaxTok = 2
INVARIANTS Ordered Correct EmitDone
PROPERTIES Advances Terminates
CHECK_DEADLOCK FALSE
