SPECIFICATION Spec
CONSTANT MaxTok = 2
