SPECIFICATION Spec
CONSTANTS
  Codec = "hex"
  MaxTok = 3
INVARIANTS Ordered Correct EmitDone
PROPERTIES Advances Terminates
CHECK_DEADLOCK FALSE
