SPECIFICATION Spec
CONSTANTS
  Codec = "octal"
  MaxTok = 2
INVARIANTS Ordered Correct EmitDone
PROPERTIES Advances Terminates
CHECK_DEADLOCK FALSE
