------------------------------- MODULE Escape -------------------------------
(* Case generation for property C07: the definitions are in EscapeDefs.tla    *)
(* (shared with the step-level specification of the parsers, ScanParse.tla).  *)
EXTENDS EscapeDefs
VARIABLE x
ASSUME FormatCases
ASSUME FormatBadCases
ASSUME ParseCases
Init == x = 0
Next == x' = x
Spec == Init /\ [][Next]_x
=============================================================================
