------------------------------- MODULE EscapeDefs ----------------------------
(* Specification of the backslash escape codecs of strz/enc.go (property C07) *)
(*   octal  \ooo         (one byte, 3 octal digits)                           *)
(*   hex    \xXX         (one byte)                                           *)
(*   U      \UXXXXXXXX   (one code point)                                     *)
(*   u      \uXXXX       (UTF-16 code unit; a surrogate pair above U+FFFF)    *)
(* Format: every byte / code point becomes one fixed-width upper-case escape. *)
(* Parse: an input is a sequence of TOKENS - backslash-free literal text,     *)
(* well-formed escapes (any hex-digit case) and malformed fragments.  If all  *)
(* tokens are text or well-formed escapes the output is the text with every   *)
(* escape replaced by what it denotes; in every case the parser returns       *)
(* (no panic) at most len(input) bytes, and backslash-free input unchanged.   *)
(* Strings are sequences of byte codes.                                       *)
EXTENDS Integers, Sequences, FiniteSets, TLC, Json
CONSTANT MaxTok
Emit(c) == PrintT(ToJson(c))
RECURSIVE SeqsUpTo(_, _)
SeqsUpTo(A, n) == IF n = 0 THEN {<<>>}
                  ELSE LET S == SeqsUpTo(A, n - 1) IN S \cup {Append(s, a) : s \in {y \in S : Len(y) = n - 1}, a \in A}
RECURSIVE Flat(_)
Flat(ss) == IF ss = <<>> THEN <<>> ELSE Head(ss) \o Flat(Tail(ss))

\* character codes
BS == 92    \* backslash
DigitChar(d, upper) == IF d < 10 THEN 48 + d ELSE (IF upper THEN 55 ELSE 87) + d      \* 0-9, A-F / a-f
RECURSIVE Digits(_, _, _, _)
Digits(v, base, width, upper) == IF width = 0 THEN <<>> ELSE Digits(v \div base, base, width - 1, upper) \o <<DigitChar(v % base, upper)>>
\* UTF-8 encoding of a code point
Utf8(v) == IF v < 128 THEN <<v>>
           ELSE IF v < 2048 THEN <<192 + (v \div 64), 128 + (v % 64)>>
           ELSE IF v < 65536 THEN <<224 + (v \div 4096), 128 + ((v \div 64) % 64), 128 + (v % 64)>>
           ELSE <<240 + (v \div 262144), 128 + ((v \div 4096) % 64), 128 + ((v \div 64) % 64), 128 + (v % 64)>>
\* the escape of value v in codec k
Esc(k, v, upper) ==
    CASE k = "octal" -> <<BS>> \o Digits(v, 8, 3, TRUE)
      [] k = "hex" -> <<BS, 120>> \o Digits(v, 16, 2, upper)
      [] k = "U" -> <<BS, 85>> \o Digits(v, 16, 8, upper)
      [] k = "u" -> IF v < 65536 THEN <<BS, 117>> \o Digits(v, 16, 4, upper)
                    ELSE LET w == v - 65536 IN
                         <<BS, 117>> \o Digits(55296 + (w \div 1024), 16, 4, upper) \o <<BS, 117>> \o Digits(56320 + (w % 1024), 16, 4, upper)
Denotes(k, v) == IF k \in {"octal", "hex"} THEN <<v>> ELSE Utf8(v)
Codecs == {"octal", "hex", "U", "u"}
ByteVals == {0, 7, 8, 63, 64, 127, 128, 255}
\* (703710 = U+ABCDE and 917607 = U+E0067 have letters in the high hex digits, 134071 = U+20BB7 lies in an even plane)
RuneVals == {0, 65, 92, 127, 128, 2047, 2048, 55295, 57344, 65533, 65535, 65536, 134071, 703710, 917607, 1114111}
Vals(k) == IF k \in {"octal", "hex"} THEN ByteVals ELSE RuneVals

\* ---- Format: every sequence of <= 2 values (and a longer one) -> escaped text
FormatCases == \A k \in Codecs : \A vs \in SeqsUpTo(Vals(k), 2) \cup {<<65, 128>> \o [i \in 1..3 |-> 255]} :
    (\A i \in 1..Len(vs) : vs[i] \in Vals(k) \/ k \in {"octal", "hex"} \/ vs[i] <= 255) =>
    Emit([fn |-> "format", s |-> vs, a |-> <<k>>, out |-> Flat([i \in 1..Len(vs) |-> Esc(k, IF k \in {"octal", "hex"} THEN vs[i] % 256 ELSE vs[i], TRUE)])])

\* bytes that are not valid UTF-8 are formatted as U+FFFD (one escape per invalid byte)
FormatBadCases == \A k \in {"U", "u"} : \A n \in 1..3 :
    Emit([fn |-> "formatbad", s |-> <<n>>, a |-> <<k>>, out |-> Flat([i \in 1..n |-> Esc(k, 65533, TRUE)])])

\* ---- Parse: tokens
\* literal text without backslash (incl. characters that look like escape bodies, and non-ASCII bytes)
Lits == {<<>>, <<97>>, <<120, 85, 55>>, <<195, 169>>, <<117, 48, 48, 52, 49>>, <<255>>}
WellFormed(k) == {Esc(k, v, up) : v \in Vals(k), up \in {TRUE, FALSE}}
\* malformed fragments per codec: truncated at every length, a wrong digit, out of range, wrong marker case,
\* lone / reversed / unpaired surrogates
Trunc(e) == {SubSeq(e, 1, n) : n \in 1..Len(e) - 1}
Bad(k) ==
    CASE k = "octal" -> Trunc(Esc(k, 83, TRUE)) \cup {<<BS, 52, 48, 48>>, <<BS, 55, 55, 55>>, <<BS, 49, 56, 49>>, <<BS, 49, 50, 120>>, <<BS, BS>>}
      [] k = "hex" -> Trunc(Esc(k, 171, TRUE)) \cup {<<BS, 120, 71, 49>>, <<BS, 120, 49, 71>>, <<BS, 88, 52, 49>>, <<BS, BS>>}
      [] k = "U" -> Trunc(Esc(k, 20013, TRUE)) \cup {<<BS, 85>> \o Digits(1114112, 16, 8, TRUE), <<BS, 85, 70, 70, 70, 70, 70, 70, 70, 70>>,
                                                   <<BS, 85, 48, 48, 48, 71, 48, 48, 52, 49>>, <<BS, 117>> \o Digits(65, 16, 8, TRUE),
                                                   <<BS, 85>> \o Digits(55296, 16, 8, TRUE), <<BS, BS>>}
      [] k = "u" -> Trunc(Esc(k, 20013, TRUE)) \cup
                    {<<BS, 117>> \o Digits(55296, 16, 4, TRUE),                                              \* lone high
                     <<BS, 117>> \o Digits(56320, 16, 4, TRUE),                                              \* lone low
                     <<BS, 117>> \o Digits(56320, 16, 4, TRUE) \o <<BS, 117>> \o Digits(55296, 16, 4, TRUE), \* reversed
                     <<BS, 117>> \o Digits(55296, 16, 4, TRUE) \o <<BS, 117>> \o Digits(65, 16, 4, TRUE),    \* high + BMP
                     <<BS, 117>> \o Digits(55296, 16, 4, TRUE) \o <<BS, 117, 48, 48>>,                       \* high + truncated
                     <<BS, 117>> \o Digits(55296, 16, 4, TRUE) \o <<120>>,                                   \* high + text
                     <<BS, 117>> \o Digits(55296, 16, 4, TRUE) \o <<BS, 117, 71, 48, 48, 48>>,               \* high + bad digit
                     <<BS, 117, 48, 71, 52, 49>>, <<BS, 85, 48, 48, 52, 49>>, <<BS, BS>>}
\* a token: <<kind, input bytes, denoted bytes>>
Tokens(k) == {<<"lit", l, l>> : l \in Lits} \cup {<<"esc", Esc(k, v, up), Denotes(k, v)>> : v \in Vals(k), up \in {TRUE, FALSE}}
             \cup {<<"bad", b, <<>>>> : b \in Bad(k)}
\* two adjacent literals, or a literal that could complete a malformed fragment, would blur the token structure:
\* exact expectations are only stated when no malformed fragment is present
ParseCases == \A k \in Codecs : \A ts \in SeqsUpTo(Tokens(k), MaxTok) :
    LET inp == Flat([i \in 1..Len(ts) |-> ts[i][2]])
        exact == \A i \in 1..Len(ts) : ts[i][1] # "bad"
    IN Emit([fn |-> "parse", s |-> inp, a |-> <<k, IF exact THEN 1 ELSE 0>>,
             out |-> IF exact THEN Flat([i \in 1..Len(ts) |-> ts[i][3]]) ELSE <<>>])
=============================================================================
