SPECIFICATION Spec
CONSTANTS
  Codec = "U"
  MaxTok = 3
INVARIANTS Ordered Correct EmitDone
PROPERTIES Advances Terminates
CHECK_DEADLOCK FALSE
