------------------------------ MODULE ScanParse ------------------------------
(* Step-level specification of the four escape parsers of strz/enc.go         *)
(* (OctalParse, HexParse, UnicodeParse, Utf16Parse; property C07): the code's *)
(* three cursors over src / dst                                               *)
(*     i   read position          f   start of the text not yet copied        *)
(*     e   write position in dst                                              *)
(* one action per loop iteration, plus the final copy of the tail.  TLC       *)
(* checks on every input of the token grammar of EscapeDefs that              *)
(*   - the cursors stay ordered  e <= f <= i <= len(src)  (so a write never   *)
(*     reaches text that has not been read: at most len(src) bytes come out)  *)
(*   - every iteration advances i (termination)                               *)
(*   - at the end the output is the denotation of the token sequence when no  *)
(*     malformed fragment is present (refinement of the declarative Parse),   *)
(*     and the input itself when it holds no backslash                        *)
(* and prints the final output for EVERY input, malformed ones included: the  *)
(* real parser must agree byte for byte (a disagreement on malformed input is *)
(* model drift, on well-formed input a violation).                            *)
EXTENDS EscapeDefs
CONSTANT Codec
VARIABLES src, want, exact, i, f, e, dst, pc
vars == <<src, want, exact, i, f, e, dst, pc>>

W == CASE Codec = "octal" -> 4 [] Codec = "hex" -> 4 [] Codec = "U" -> 10 [] OTHER -> 6     \* width of one escape
M == IF Codec = "octal" THEN 1 ELSE 2                                                       \* backslash (+ marker letter)
Base == IF Codec = "octal" THEN 8 ELSE 16
Marker == CASE Codec = "hex" -> 120 [] Codec = "U" -> 85 [] OTHER -> 117
Min2(a, b) == IF a < b THEN a ELSE b

\* parseUint: digit value of a character (letters a-z / A-Z count 10..35), first offending index
DigitVal(c) == IF c >= 48 /\ c <= 57 THEN c - 48 ELSE IF c >= 97 /\ c <= 122 THEN c - 87 ELSE IF c >= 65 /\ c <= 90 THEN c - 55 ELSE 99
RECURSIVE ValueOf(_)
ValueOf(ds) == IF ds = <<>> THEN 0 ELSE ValueOf(SubSeq(ds, 1, Len(ds) - 1)) * Base + DigitVal(ds[Len(ds)])
BadIdx(ds) == {k \in 1..Len(ds) : DigitVal(ds[k]) >= Base}
FirstBad(ds) == CHOOSE k \in BadIdx(ds) : \A m \in BadIdx(ds) : k <= m
\* [ok, j (0-based index where parseUint stopped), n]; an octal value above 255 stops at its last digit;
\* \U values are compared with MaxRune without ever building a number TLC cannot hold (8 hex digits)
Parsed(ds) == IF BadIdx(ds) # {} THEN [ok |-> FALSE, j |-> FirstBad(ds) - 1, n |-> 0]
              ELSE IF Codec = "octal" /\ ValueOf(ds) > 255 THEN [ok |-> FALSE, j |-> 2, n |-> 0]
              ELSE IF Codec = "U" THEN
                   (IF DigitVal(ds[1]) # 0 \/ DigitVal(ds[2]) # 0 \/ ValueOf(SubSeq(ds, 3, 8)) > 1114111
                    THEN [ok |-> TRUE, j |-> 8, n |-> -1]         \* above utf8.MaxRune
                    ELSE [ok |-> TRUE, j |-> 8, n |-> ValueOf(SubSeq(ds, 3, 8))])
              ELSE [ok |-> TRUE, j |-> Len(ds), n |-> ValueOf(ds)]
\* utf8.EncodeRune: surrogate halves become U+FFFD
Enc(n) == IF n >= 55296 /\ n <= 57343 THEN Utf8(65533) ELSE Utf8(n)
Write(d, pos, bytes) == [k \in 1..Len(d) |-> IF k > pos /\ k <= pos + Len(bytes) THEN bytes[k - pos] ELSE d[k]]
\* copy the pending text src[f .. i) to dst[e ..)
Flushed(at) == Write(dst, e, SubSeq(src, f + 1, at))
IsEsc(at) == src[at + 1] = BS /\ (M = 1 \/ src[at + 2] = Marker)
Digs(at) == SubSeq(src, at + M + 1, at + W)

Init == /\ \E ts \in SeqsUpTo(Tokens(Codec), MaxTok) :
              /\ src = Flat([k \in 1..Len(ts) |-> ts[k][2]])
              /\ exact = (\A k \in 1..Len(ts) : ts[k][1] # "bad")
              /\ want = Flat([k \in 1..Len(ts) |-> ts[k][3]])
        /\ i = 0 /\ f = 0 /\ e = 0 /\ dst = [k \in 1..Len(src) |-> 0] /\ pc = "loop"

\* an escape was decoded to `bytes` and ends at `upto`: flush, write, move all three cursors
Decode(bytes, upto) == /\ dst' = Write(Flushed(i), e + (i - f), bytes)
                       /\ e' = e + (i - f) + Len(bytes) /\ i' = upto /\ f' = upto /\ pc' = pc
Skip(to) == i' = to /\ UNCHANGED <<f, e, dst, pc>>

Simple == \* octal, hex, \U: one escape per iteration
    LET p == Parsed(Digs(i)) IN
    IF ~p.ok THEN Skip(i + M + p.j)
    ELSE IF p.n < 0 THEN Skip(i + W)
    ELSE Decode(IF Codec = "U" THEN Enc(p.n) ELSE <<p.n>>, i + W)

Utf16 == \* \u: the pending text is flushed as soon as the first escape has four hex digits
    LET p == Parsed(Digs(i)) IN
    IF ~p.ok THEN Skip(i + M + p.j)
    ELSE LET d1 == Flushed(i)  e1 == e + (i - f) IN      \* (f = i from here on)
         IF p.n < 55296 \/ p.n >= 57344
         THEN /\ dst' = Write(d1, e1, Enc(p.n)) /\ e' = e1 + Len(Enc(p.n)) /\ i' = i + 6 /\ f' = i + 6 /\ pc' = pc
         ELSE IF p.n < 56320         \* high half: look at the next six characters
         THEN LET i2 == i + 6 IN
              IF Len(src) - i2 < 6 THEN /\ dst' = d1 /\ e' = e1 /\ f' = i /\ i' = i2 /\ pc' = "tail"
              ELSE IF ~IsEsc(i2) THEN dst' = d1 /\ e' = e1 /\ f' = i /\ i' = i2 + 1 /\ pc' = pc
              ELSE LET q == Parsed(Digs(i2)) IN
                   IF ~q.ok THEN dst' = d1 /\ e' = e1 /\ f' = i /\ i' = i2 + 2 + q.j /\ pc' = pc
                   ELSE IF q.n >= 56320 /\ q.n < 57344
                   THEN LET r == 65536 + (p.n - 55296) * 1024 + (q.n - 56320) IN
                        /\ dst' = Write(d1, e1, Utf8(r)) /\ e' = e1 + 4 /\ i' = i2 + 6 /\ f' = i2 + 6 /\ pc' = pc
                   ELSE dst' = d1 /\ e' = e1 /\ f' = i /\ i' = i2 + 6 /\ pc' = pc      \* both escapes stay text
         ELSE dst' = d1 /\ e' = e1 /\ f' = i /\ i' = i + 6 /\ pc' = pc                  \* lone low half stays text

Loop == /\ pc = "loop"
        /\ IF Len(src) - i < W THEN pc' = "tail" /\ UNCHANGED <<i, f, e, dst>>
           ELSE IF ~IsEsc(i) THEN Skip(i + 1)
           ELSE IF Codec = "u" THEN Utf16 ELSE Simple
        /\ UNCHANGED <<src, want, exact>>
TailCopy == /\ pc = "tail" /\ pc' = "done"
        /\ dst' = Write(dst, e, SubSeq(src, f + 1, Len(src))) /\ e' = e + (Len(src) - f)
        /\ UNCHANGED <<src, want, exact, i, f>>
Next == Loop \/ TailCopy
Spec == Init /\ [][Next]_vars /\ WF_vars(Next)

Out == SubSeq(dst, 1, e)
Ordered == /\ pc # "done" => (0 <= e /\ e <= f /\ f <= i /\ i <= Len(src))
           /\ e <= Len(src)
Advances == [][(pc = "loop" /\ pc' = "loop") => i' > i]_vars
Terminates == <>(pc = "done")
\* the declarative clauses of C07 hold of the algorithm
Correct == pc = "done" => /\ e <= Len(src)
                          /\ exact => Out = want
                          /\ (\A k \in 1..Len(src) : src[k] # BS) => Out = src
EmitDone == pc = "done" => PrintT(ToJson([fn |-> "parseimpl", s |-> src, a |-> <<Codec, IF exact THEN 1 ELSE 0>>, out |-> Out]))
=============================================================================
