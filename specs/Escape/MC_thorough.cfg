SPECIFICATION Spec
CONSTANT MaxTok = 3
