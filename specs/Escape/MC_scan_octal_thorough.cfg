SPECIFICATION Spec
CONSTANTS
  Codec = "octal"
  MaxTok = 3
INVARIANTS Ordered Correct EmitDone
PROPERTIES Advances Terminates
CHECK_DEADLOCK FALSE
