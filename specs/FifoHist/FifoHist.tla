------------------------------ MODULE FifoHist ------------------------------
(* Abstract specification of a concurrent FIFO queue as seen through its      *)
(* call histories - the statement of properties C01 (SyncRing, cap > 0) and   *)
(* C11 (SyncList, cap = 0 meaning unbounded) - and at the same time the       *)
(* trace specification that validates histories recorded from the real code.  *)
(*                                                                            *)
(* A history is a sequence of events:                                         *)
(*   reset      {cap, init}        a fresh queue holding init                 *)
(*   inv / ret  {t, op, arg, ret}  invocation / response of a call of         *)
(*                                 goroutine t, in real-time order            *)
(*   probe      {len, ..}          an extra observer called Len() (and        *)
(*                                 IsEmpty/IsFull) while the others stood     *)
(*                                 still                                      *)
(*   probedrain {len, popped}      the observer called Len() and then Pop     *)
(*                                 until it failed                            *)
(* Every call takes effect atomically at one instant (the internal step Lin)  *)
(* between its invocation and its response: linearizability.  TLC searches    *)
(* for the instants; a history is accepted iff the search consumes all events.*)
EXTENDS Integers, Sequences, FiniteSets, TLC, Json
CONSTANT MaxT
VARIABLES q,     \* abstract queue content
          cap,   \* capacity, 0 = unbounded
          st,    \* per goroutine: phase of its current call and what it has seen
          g,     \* summary of the history since reset (for the progress clause)
          l      \* next event of the history

Trace == ndJsonDeserialize("trace.ndjson")
Ev == Trace[l]
T == 1..MaxT

\* (pushwait20 / popwait20: PushWait / PopWait with a 20 ms limit - timing decides only WHEN they give up; what they
\* return must still be explained like a plain Push / Pop)
PushLike == {"push", "pushwait0", "pushwaitneg", "pushwait20"}
PopLike == {"pop", "popwait0", "popwaitneg", "popwait20"}
Blocking == {"pushwaitneg", "popwaitneg"}

Idle == [ph |-> "idle", op |-> "", arg |-> <<>>, res |-> <<>>, sf |-> FALSE, se |-> FALSE, ov |-> FALSE]
Pending(s, t) == s[t].ph # "idle"
IsFullQ(qq) == cap > 0 /\ Len(qq) = cap

\* after every change: each pending call remembers whether it has seen the queue full / empty and
\* whether another call was in flight at the same time
Mark(s, qq) == [t \in T |->
    IF s[t].ph = "idle" THEN s[t]
    ELSE [s[t] EXCEPT !.sf = @ \/ IsFullQ(qq), !.se = @ \/ (qq = <<>>),
                      !.ov = @ \/ (\E u \in T : u # t /\ s[u].ph # "idle")]]

\* kind: "none" | "push" | "pop" | "mixed" (which calls were issued), n: how many, ok: one succeeded,
\* init: initial length, dirty: an observer already popped
G0(n0) == [kind |-> "none", n |-> 0, ok |-> FALSE, init |-> n0, dirty |-> FALSE]
KindOf(op) == IF op \in PushLike THEN "push" ELSE IF op \in PopLike THEN "pop" ELSE "mixed"
Join(k1, k2) == IF k1 = "none" THEN k2 ELSE IF k1 = k2 THEN k1 ELSE "mixed"

Init == /\ l = 1 /\ q = <<>> /\ cap = 0 /\ st = [t \in T |-> Idle] /\ g = G0(0) /\ TLCSet(1, 0)

Reset == /\ Ev.ev = "reset" /\ l' = l + 1
         /\ q' = Ev.init /\ cap' = Ev.cap /\ st' = [t \in T |-> Idle] /\ g' = G0(Len(Ev.init))

Inv == /\ Ev.ev = "inv" /\ l' = l + 1
       /\ st[Ev.t].ph = "idle"
       /\ st' = Mark([st EXCEPT ![Ev.t] = [Idle EXCEPT !.ph = "inv", !.op = Ev.op, !.arg = Ev.arg]], q)
       /\ g' = [g EXCEPT !.kind = Join(@, KindOf(Ev.op)), !.n = @ + 1]
       /\ UNCHANGED <<q, cap>>

\* the instant at which the call of t takes effect
Lin(t) == /\ st[t].ph = "inv"
          /\ \/ /\ st[t].op \in PushLike /\ ~IsFullQ(q)
                /\ q' = Append(q, st[t].arg[1])
                /\ st' = Mark([st EXCEPT ![t].ph = "lin", ![t].res = <<TRUE>>], q')
             \/ /\ st[t].op \in PopLike /\ q # <<>>
                /\ q' = Tail(q)
                /\ st' = Mark([st EXCEPT ![t].ph = "lin", ![t].res = <<Head(q), TRUE>>], q')
          /\ UNCHANGED <<cap, l, g>>

LenOK(n, quiescent) == IF quiescent THEN n = Len(q) ELSE n >= 0 /\ (cap > 0 => n <= cap)

Ret == /\ Ev.ev = "ret" /\ l' = l + 1
       /\ LET s == st[Ev.t] IN
          /\ s.ph # "idle" /\ s.op = Ev.op
          /\ \/ /\ Ev.op \in PushLike
                /\ \/ Ev.ret = <<TRUE>> /\ s.ph = "lin"
                   \* a failed Push is legitimate only if the queue was full at some instant
                   \* during the call or another call overlapped it
                   \/ Ev.ret = <<FALSE>> /\ s.ph = "inv" /\ (s.sf \/ s.ov) /\ Ev.op \notin Blocking
             \/ /\ Ev.op \in PopLike
                /\ \/ Ev.ret[2] = TRUE /\ s.ph = "lin" /\ s.res = Ev.ret
                   \/ Ev.ret = <<0, FALSE>> /\ s.ph = "inv" /\ (s.se \/ s.ov) /\ Ev.op \notin Blocking
             \/ /\ Ev.op = "len" /\ s.ph = "inv" /\ LenOK(Ev.ret[1], ~s.ov)
             \/ /\ Ev.op = "isempty" /\ s.ph = "inv" /\ (~s.ov => Ev.ret[1] = (q = <<>>))
             \/ /\ Ev.op = "isfull" /\ s.ph = "inv" /\ (~s.ov => Ev.ret[1] = IsFullQ(q))
       /\ st' = Mark([st EXCEPT ![Ev.t] = Idle], q)
       /\ g' = [g EXCEPT !.ok = @ \/ (st[Ev.t].ph = "lin" /\ Ev.op \in PushLike \cup PopLike)]
       /\ UNCHANGED <<q, cap>>

Quiescent == \A t \in T : st[t].ph = "idle"

\* an observer's Len() (IsEmpty(), IsFull()) while every other goroutine stands still
Probe == /\ Ev.ev = "probe" /\ l' = l + 1
         /\ LenOK(Ev.len, Quiescent)
         /\ ("empty" \in DOMAIN Ev /\ Quiescent) => (Ev.empty = (q = <<>>) /\ Ev.full = IsFullQ(q))
         /\ UNCHANGED <<q, cap, st, g>>

\* the observer reads Len() = n and then pops until Pop fails: the values come off the front in
\* FIFO order; n may not be below the number of values it could pop (C11); when nothing else is
\* in flight the observer must see everything
IsPrefix(p, s) == Len(p) <= Len(s) /\ \A i \in 1..Len(p) : p[i] = s[i]
ProbeDrain == /\ Ev.ev = "probedrain" /\ l' = l + 1
              /\ IsPrefix(Ev.popped, q)
              /\ LenOK(Ev.len, Quiescent)
              /\ (cap = 0 => Ev.len >= Len(Ev.popped))
              /\ (Quiescent => Ev.popped = q)
              \* progress (C01): only pushers ran on a ring with room for all of them, or only poppers
              \* on a ring holding enough elements: at least one of them must have succeeded
              /\ (Quiescent /\ ~g.dirty /\ cap > 0 /\ g.n > 0) =>
                    /\ (g.kind = "push" /\ g.init + g.n <= cap) => g.ok
                    /\ (g.kind = "pop" /\ g.n <= g.init) => g.ok
              /\ g' = [g EXCEPT !.dirty = TRUE]
              /\ q' = SubSeq(q, Len(Ev.popped) + 1, Len(q))
              \* the observer's Pops are operations in flight for every call that is pending now: it was overlapped
              /\ st' = Mark([t \in T |-> IF st[t].ph = "idle" THEN st[t] ELSE [st[t] EXCEPT !.ov = TRUE]], q')
              /\ UNCHANGED cap

Next == \/ l <= Len(Trace) /\ (Reset \/ Inv \/ Ret \/ Probe \/ ProbeDrain)
        \/ \E t \in T : Lin(t)
vars == <<q, cap, st, g, l>>
Spec == Init /\ [][Next]_vars

\* the search keeps the highest event index it reached in TLC register 1 (needs -workers 1)
HighWater == TLCSet(1, IF TLCGet(1) > l THEN TLCGet(1) ELSE l)
Accepted == /\ PrintT(<<"HIGHWATER", TLCGet(1), Len(Trace)>>)
            /\ TLCGet(1) = Len(Trace) + 1
=============================================================================
