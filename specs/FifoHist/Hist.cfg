SPECIFICATION Spec
CONSTANT MaxT = 6
CONSTRAINT HighWater
POSTCONDITION Accepted
CHECK_DEADLOCK FALSE
