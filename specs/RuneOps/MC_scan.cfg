SPECIFICATION Spec
CONSTANTS
  MaxLen = 4
  Widths = {0, 1, 2, 3}
INVARIANTS Boundary Refines
PROPERTIES Advances Terminates
CHECK_DEADLOCK FALSE
