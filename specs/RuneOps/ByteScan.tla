------------------------------ MODULE ByteScan ------------------------------
(* Step-level specification of the byte-offset scanners of strz/strs.go        *)
(* (property C17): Sub, Mask and SubByDisplay walk the string one rune at a    *)
(* time with a byte cursor i and a rune counter.  A string is a sequence of    *)
(* tokens as in RuneOps.tla (the byte width 1..4 of a rune; 0 = an invalid     *)
(* byte, which the decoder consumes as one byte and counts as one rune).       *)
(* One action = one loop iteration.  TLC checks for every token string and     *)
(* every argument of the bounded grammar that                                  *)
(*   - the cursor is always on a rune boundary (i = bytes of the first `count` *)
(*     runes): a result cut at i never splits a rune                           *)
(*   - every iteration advances the cursor (termination)                       *)
(*   - the byte range returned is exactly the runes the declarative            *)
(*     definitions of RuneOps.tla select (refinement)                          *)
EXTENDS Integers, Sequences, FiniteSets, TLC
CONSTANTS MaxLen, Widths
VARIABLES fn, s, a1, a2, i, count, b1, b2, acc, pc, res
vars == <<fn, s, a1, a2, i, count, b1, b2, acc, pc, res>>

RECURSIVE SeqsUpTo(_, _)
SeqsUpTo(A, n) == IF n = 0 THEN {<<>>}
                  ELSE LET S == SeqsUpTo(A, n - 1) IN S \cup {Append(x, a) : x \in {y \in S : Len(y) = n - 1}, a \in A}
Bytes(w) == IF w = 0 THEN 1 ELSE w
RECURSIVE Off(_, _)
Off(t, n) == IF n = 0 THEN 0 ELSE Off(t, n - 1) + Bytes(t[n])        \* byte offset behind the first n runes
ByteLen(t) == Off(t, Len(t))
Min(x, y) == IF x < y THEN x ELSE y
\* the rune index a byte offset stands for (offsets produced by the scanners are always such boundaries)
RuneAt(t, off) == CHOOSE n \in 0..Len(t) : Off(t, n) = off
OnBoundary(t, off) == \E n \in 0..Len(t) : Off(t, n) = off

Args(t) == 0..Len(t) + 2
Init == /\ s \in SeqsUpTo(Widths, MaxLen)
        /\ fn \in {"Sub", "Mask", "SubByDisplay"}
        /\ a1 \in (IF fn = "SubByDisplay" THEN 0..(2 * Len(s) + 2) ELSE Args(s))
        /\ a2 \in (IF fn = "Sub" THEN Args(s) \cup {-1} ELSE IF fn = "Mask" THEN Args(s) ELSE {0})
        /\ i = 0 /\ count = 0 /\ b1 = -1 /\ b2 = 0 /\ acc = 0 /\ pc = "start" /\ res = <<-1, -1>>
\* res: the byte range [from, to) of s that the function keeps (Sub, SubByDisplay) or masks (Mask); <<0, 0>> = nothing,
\* <<-2, -2>> = "the string itself, unchanged"
Done(r) == pc' = "done" /\ res' = r /\ UNCHANGED <<fn, s, a1, a2, i, count, b1, b2, acc>>
Advance == i' = i + Bytes(s[count + 1]) /\ count' = count + 1

SubStep ==
    \/ /\ pc = "start"
       /\ IF s = <<>> THEN Done(<<-2, -2>>) ELSE IF a2 = 0 THEN Done(<<0, 0>>)
          ELSE pc' = "loop" /\ UNCHANGED <<fn, s, a1, a2, i, count, b1, b2, acc, res>>
    \/ /\ pc = "loop"
       /\ IF i >= ByteLen(s) THEN Done(IF b1 < 0 THEN <<0, 0>> ELSE <<b1, ByteLen(s)>>)
          ELSE IF count = a1 /\ a2 = -1 THEN Done(<<i, ByteLen(s)>>)
          ELSE IF count # a1 /\ b1 >= 0 /\ a1 + a2 = count THEN Done(<<b1, i>>)
          ELSE /\ b1' = (IF count = a1 THEN i ELSE b1) /\ Advance
               /\ UNCHANGED <<fn, s, a1, a2, b2, acc, pc, res>>
\* Mask(str, mask, start = a1, end = a2): l runes; ml = l - start - end runes are replaced
MaskStep ==
    LET l == Len(s)  ml == l - a1 - a2 IN
    \/ /\ pc = "start"
       /\ IF a1 > l \/ a2 > l \/ ml <= 0 THEN Done(<<-2, -2>>)
          ELSE IF ml = l THEN Done(<<0, ByteLen(s)>>)
          ELSE pc' = "loop" /\ UNCHANGED <<fn, s, a1, a2, i, count, b1, b2, acc, res>>
    \/ /\ pc = "loop"
       /\ IF i >= ByteLen(s) THEN Done(<<IF b1 < 0 THEN 0 ELSE b1, IF b2 = 0 THEN ByteLen(s) ELSE b2>>)
          ELSE /\ b1' = (IF count = a1 THEN i ELSE b1)
               /\ b2' = (IF count # a1 /\ count = l - a2 THEN i ELSE b2)
               /\ Advance /\ UNCHANGED <<fn, s, a1, a2, acc, pc, res>>
\* SubByDisplay(s, limit = a1): display width 1 per one-byte rune, 2 otherwise
DispStep ==
    \/ /\ pc = "start"
       /\ IF ByteLen(s) <= a1 THEN Done(<<-2, -2>>)
          ELSE pc' = "loop" /\ UNCHANGED <<fn, s, a1, a2, i, count, b1, b2, acc, res>>
    \/ /\ pc = "loop"
       /\ IF i >= ByteLen(s) THEN Done(<<-2, -2>>)
          ELSE LET d == acc + (IF s[count + 1] = 1 \/ s[count + 1] = 0 THEN (IF s[count + 1] = 1 THEN 1 ELSE 2) ELSE 2) IN
               IF d > a1 THEN Done(<<0, i>>)
               ELSE acc' = d /\ Advance /\ UNCHANGED <<fn, s, a1, a2, b1, b2, pc, res>>
Next == (fn = "Sub" /\ SubStep) \/ (fn = "Mask" /\ MaskStep) \/ (fn = "SubByDisplay" /\ DispStep)
Spec == Init /\ [][Next]_vars /\ WF_vars(Next)

\* ---- checked by TLC
Boundary == OnBoundary(s, i) /\ count = RuneAt(s, i) /\ (b1 >= 0 => OnBoundary(s, b1)) /\ OnBoundary(s, b2)
Advances == [][(pc = "loop" /\ pc' = "loop") => i' > i]_vars
Terminates == <>(pc = "done")
\* the kept / masked byte range as a rune range, against the declarative definitions
Kept(r) == IF r = <<-2, -2>> THEN <<0, Len(s)>> ELSE IF r = <<0, 0>> THEN <<0, 0>> ELSE <<RuneAt(s, r[1]), RuneAt(s, r[2])>>
SubWant == IF s = <<>> THEN <<0, 0>> ELSE IF a2 = 0 \/ a1 >= Len(s) THEN <<0, 0>>
           ELSE IF a2 = -1 \/ a2 >= Len(s) THEN <<a1, Len(s)>> ELSE <<a1, Min(Len(s), a1 + a2)>>
MaskWant == LET l == Len(s)  ml == l - a1 - a2 IN IF ml <= 0 THEN <<-1, -1>> ELSE <<a1, l - a2>>       \* (-1: nothing is masked)
RECURSIVE WidthOf(_, _)
WidthOf(t, n) == IF n = 0 THEN 0 ELSE WidthOf(t, n - 1) + (IF t[n] = 1 THEN 1 ELSE 2)
DispWant == LET ok == {n \in 0..Len(s) : WidthOf(s, n) <= a1}  best == CHOOSE n \in ok : \A m \in ok : m <= n IN <<0, best>>
Empty(r) == r[1] = r[2]
Refines == pc = "done" =>
    /\ res = <<-2, -2>> \/ res = <<0, 0>> \/ (OnBoundary(s, res[1]) /\ OnBoundary(s, res[2]) /\ res[1] <= res[2])
    /\ fn = "Sub" => (Kept(res) = SubWant \/ (Empty(Kept(res)) /\ Empty(SubWant)))
    /\ fn = "Mask" => IF MaskWant = <<-1, -1>> THEN res = <<-2, -2>> ELSE Kept(res) = MaskWant
    \* (only valid strings: for invalid bytes the display width of an invalid byte is not part of the property)
    /\ (fn = "SubByDisplay" /\ \A k \in 1..Len(s) : s[k] # 0) => Kept(res) = DispWant
=============================================================================
