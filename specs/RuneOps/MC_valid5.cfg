SPECIFICATION Spec
CONSTANTS
  MaxLen = 5
  Widths = {1, 2, 3, 4}
