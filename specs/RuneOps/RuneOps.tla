------------------------------ MODULE RuneOps ------------------------------
(* Specification of the rune-aware helpers of strz/strs.go (property C17).   *)
(* A string is a sequence of TOKENS; a token is the byte width 1..4 of a      *)
(* valid rune, or 0 for a byte that is not valid UTF-8.  The definitions are  *)
(* on rune positions: the result of every function is given as the list of    *)
(* positions of the input that it keeps (0 stands for one mask rune, -1 for   *)
(* a multi-rune mask inserted once), so it can be compared with what the real *)
(* function returns for any concrete runes of those widths.                   *)
(* TLC enumerates every token string up to MaxLen and every argument from 0   *)
(* to beyond the rune count and prints one case per line.                     *)
EXTENDS Integers, Sequences, FiniteSets, TLC, Json
CONSTANTS MaxLen, Widths       \* Widths: token alphabet, e.g. {1,2,3,4} or {0,1,3}
VARIABLE x

RECURSIVE SeqsUpTo(_, _)
SeqsUpTo(A, n) == IF n = 0 THEN {<<>>}
                  ELSE LET S == SeqsUpTo(A, n - 1) IN S \cup {Append(s, a) : s \in {y \in S : Len(y) = n - 1}, a \in A}
Strings == SeqsUpTo(Widths, MaxLen)
Valid(s) == \A i \in 1..Len(s) : s[i] # 0
Idx(a, b) == [i \in 1..(IF b >= a THEN b - a + 1 ELSE 0) |-> a + i - 1]       \* positions a..b
Min(a, b) == IF a < b THEN a ELSE b

\* Sub(s, start, length): runes [start, start+length), to the end for -1
SubDef(s, st, ln) == IF s = <<>> THEN <<>>
                     ELSE IF ln = 0 THEN <<>>
                     ELSE IF ln = -1 \/ ln >= Len(s) THEN Idx(st + 1, Len(s))
                     ELSE Idx(st + 1, Min(Len(s), st + ln))
\* Mask(s, mask, start, end): first `start` and last `end` runes kept, the rest replaced
MaskDef(s, st, en, multi) == LET l == Len(s)  ml == l - st - en IN
                             IF st >= l \/ en >= l \/ ml <= 0 THEN Idx(1, l)
                             ELSE Idx(1, st) \o (IF multi THEN <<-1>> ELSE [i \in 1..ml |-> 0]) \o Idx(l - en + 1, l)
\* SubByDisplay(s, limit): longest prefix whose display width (1 per ASCII = 1-byte rune, 2 otherwise) fits
RECURSIVE WidthOf(_, _)
WidthOf(s, n) == IF n = 0 THEN 0 ELSE WidthOf(s, n - 1) + (IF s[n] = 1 THEN 1 ELSE 2)
DisplayDef(s, lim) == IF lim >= 2 * Len(s) THEN Idx(1, Len(s)) ELSE
                      LET ok == {n \in 0..Len(s) : WidthOf(s, n) <= lim}
                          best == CHOOSE n \in ok : \A m \in ok : m <= n
                      IN Idx(1, best)
RevDef(s) == [i \in 1..Len(s) |-> Len(s) + 1 - i]
\* RemoveRunes(s, pred) with pred = "the rune has width w"
RemoveDef(s, w) == LET keep == {i \in 1..Len(s) : s[i] # w} IN
                   [k \in 1..Cardinality(keep) |-> CHOOSE i \in keep : Cardinality({j \in keep : j < i}) = k - 1]

Case(fn, s, args, out) == [fn |-> fn, s |-> s, a |-> args, out |-> out, valid |-> Valid(s)]
\* for strings that are not valid UTF-8 only totality is promised: out is not used
Emit(c) == PrintT(ToJson(c))
Args(s) == 0..Len(s) + 2

AllCases == \A s \in Strings :
    /\ \A st \in Args(s) : \A ln \in (Args(s) \cup {-1}) : Emit(Case("Sub", s, <<st, ln>>, SubDef(s, st, ln)))
    /\ \A st \in Args(s) : \A en \in Args(s) : \A multi \in {FALSE, TRUE} :
            Emit(Case("Mask", s, <<st, en, IF multi THEN 1 ELSE 0>>, MaskDef(s, st, en, multi)))
    /\ \A lim \in 0..(2 * Len(s) + 2) : Emit(Case("SubByDisplay", s, <<lim>>, DisplayDef(s, lim)))
    /\ Emit(Case("Rev", s, <<>>, RevDef(s)))
    /\ Emit(Case("Len", s, <<>>, <<Len(s)>>))
    /\ \A w \in Widths : Emit(Case("RemoveRunes", s, <<w>>, RemoveDef(s, w)))

\* long strings (word-at-a-time and buffered implementations change behaviour at 8, 16, 32, 64 bytes): k one-byte
\* runes, one rune of each width (so that it lies across every byte offset), t more one-byte runes
Rep(n, v) == [i \in 1..n |-> v]
LongStrings == {Rep(k, 1) \o <<w>> \o Rep(t, 1) : k \in 22..41, w \in Widths, t \in {0, 1, 2, 3, 5, 7, 8, 30}}
LongCases == \A s \in LongStrings : LET n == Len(s) IN
    /\ Emit(Case("Len", s, <<>>, <<n>>))
    /\ Emit(Case("Rev", s, <<>>, RevDef(s)))
    /\ \A st \in {0, 21, n - 2, n - 1, n} : \A ln \in {-1, 1, 3, n} : Emit(Case("Sub", s, <<st, ln>>, SubDef(s, st, ln)))
    /\ \A st \in {0, 2, 3, n - 1} : \A en \in {0, 1, 2, 7, 8, 9, 15, 16, 17, 31, 32, 33, n - 3} : \A multi \in {FALSE, TRUE} :
            Emit(Case("Mask", s, <<st, en, IF multi THEN 1 ELSE 0>>, MaskDef(s, st, en, multi)))
    /\ \A lim \in {n - 3, n - 2, n - 1, n, n + 1, n + 2} : Emit(Case("SubByDisplay", s, <<lim>>, DisplayDef(s, lim)))
    /\ \A w \in Widths : Emit(Case("RemoveRunes", s, <<w>>, RemoveDef(s, w)))
\* long identifiers: m words "l l d" joined by underscores
RECURSIVE Words(_)
Words(m) == IF m = 1 THEN <<"l", "l", "d">> ELSE Words(m - 1) \o <<"u", "l", "l", "d">>
LongIdentCases == \A m \in {8, 15, 16, 17, 20, 33, 70} : Emit([fn |-> "SnakeCamel", s |-> Words(m), a |-> <<>>, out |-> Words(m), valid |-> TRUE])

\* arguments near the largest int (the runner replaces Huge by math.MaxInt, Huge - 1 by MaxInt - 1): "the rest of the
\* string" idioms such as Sub(s, n, MaxInt); sums of two arguments must not wrap
Huge == 2000000000      \* (stands for math.MaxInt: TLC integers have 32 bits)
HugeCases == \A s \in SeqsUpTo(Widths, 3) :
    /\ \A st \in {0, 1, 2, Huge} : \A ln \in {1, Huge - 1, Huge} : Emit(Case("Sub", s, <<st, ln>>, SubDef(s, st, ln)))
    /\ \A st \in {0, 1, Huge} : \A en \in {0, 1, Huge} : (st = Huge \/ en = Huge) =>
            Emit(Case("Mask", s, <<st, en, 0>>, MaskDef(s, st, en, FALSE)))
    /\ \A lim \in {Huge - 1, Huge} : Emit(Case("SubByDisplay", s, <<lim>>, DisplayDef(s, lim)))

\* lower-case snake_case identifiers: [a-z][a-z0-9]*(_[a-z][a-z0-9]*)*  over the classes l(etter) d(igit) u(nderscore)
IsIdent(s) == /\ Len(s) >= 1 /\ s[1] = "l" /\ s[Len(s)] # "u"
              /\ \A i \in 1..Len(s) - 1 : s[i] = "u" => s[i + 1] = "l"
Idents == {s \in SeqsUpTo({"l", "d", "u"}, MaxLen + 2) : IsIdent(s)}
IdentCases == \A s \in Idents : Emit([fn |-> "SnakeCamel", s |-> s, a |-> <<>>, out |-> s, valid |-> TRUE])

\* The conversions are functions of their argument alone: converting y does not change what x converts to afterwards.
\* Pairs x # y of the same shape that common 32-bit string hashes cannot tell apart (the runner searches a pair for
\* each hash family), converted back to back in both orders - the inputs on which anything that remembers earlier
\* results by a digest of the name goes wrong.
HashFamilies == {"fnv1a32", "fnv132", "crc32", "crc32c", "adler32", "bkdr31", "bkdr131", "djb2", "sdbm", "elf", "murmur3_32"}
PairShapes == { <<"l", "l", "l", "l", "u", "l", "l", "l", "l", "u", "l", "l", "l", "l">>,
                <<"l", "l", "l", "l", "l", "l", "l", "l">>,
                <<"l", "l", "l", "u", "l", "l", "d", "u", "l", "l", "l", "l", "l", "l", "l", "l", "l", "l", "l", "l">> }
PairCases == \A h \in HashFamilies : \A sh \in PairShapes : IsIdent(sh) =>
    Emit([fn |-> "SnakeCamelPair", s |-> sh, a |-> <<h>>, out |-> sh, valid |-> TRUE])

ASSUME AllCases
ASSUME PairCases
ASSUME IdentCases
ASSUME LongCases
ASSUME HugeCases
ASSUME LongIdentCases
Init == x = 0
Next == x' = x
Spec == Init /\ [][Next]_x
=============================================================================
