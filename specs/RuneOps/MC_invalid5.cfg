SPECIFICATION Spec
CONSTANTS
  MaxLen = 5
  Widths = {0, 1, 3}
