SPECIFICATION Spec
CONSTANTS
  MaxLen = 4
  Widths = {1, 2, 3, 4}
