SPECIFICATION Spec
CONSTANTS
  MaxLen = 4
  Widths = {0, 1, 3}
