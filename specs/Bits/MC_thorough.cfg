SPECIFICATION Spec
CONSTANTS
  U = {0, 1, 63, 64, 127, 128}
  MaxW = 3
INVARIANT TypeOK
CONSTRAINT Constr
VIEW View
CHECK_DEADLOCK FALSE
ACTION_CONSTRAINT Emit
