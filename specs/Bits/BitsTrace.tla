------------------------------ MODULE BitsTrace ------------------------------
(* Trace validation against the set semantics of Bits.tla.  Capacities are    *)
(* not part of the property (only that Grow / Cap never change membership),   *)
(* so the word counts are not constrained here.                               *)
EXTENDS Bits
VARIABLE l
Trace == ndJsonDeserialize("trace.ndjson")
Ev == Trace[l]
A(i) == Ev.a[i]
Step(Act) == /\ l' = l + 1 /\ Act /\ last'.r = Ev.r /\ ("o" \in DOMAIN Ev => O' = Ev.o)
TReset == Ev.ev = "Reset" /\ l' = l + 1 /\ xm' = {} /\ xw' = 0 /\ ym' = {} /\ yw' = 0 /\ last' = R("Init", <<>>, <<>>)
TDrain == Ev.ev = "Drain" /\ l' = l + 1 /\ Ev.d = Sorted(xm) /\ UNCHANGED vars
TStep == \/ TReset
         \/ TDrain
         \/ Ev.ev = "Add" /\ Step(Add(A(1)))
         \/ Ev.ev = "Remove" /\ Step(Remove(A(1)))
         \/ Ev.ev = "Contains" /\ Step(Contains(A(1)))
         \/ Ev.ev = "Grow" /\ Step(Grow(A(1)))
         \/ Ev.ev = "AddY" /\ Step(AddY(A(1)))
         \/ Ev.ev = "RemoveY" /\ Step(RemoveY(A(1)))
         \/ Ev.ev = "IterRemove" /\ Step(IterRemove(A(1)))
         \/ Ev.ev = "AddRange" /\ Step(AddRange(A(1), A(2)))
         \/ Ev.ev = "RemoveRange" /\ Step(RemoveRange(A(1), A(2)))
         \/ Ev.ev = "CloneGrowBoth" /\ Step(CloneGrowBoth(A(1), A(2)))
         \/ Ev.ev = "Diff" /\ Step(Diff)
         \/ Ev.ev = "Intersect" /\ Step(Intersect)
         \/ Ev.ev = "Merge" /\ Step(Merge)
         \/ Ev.ev = "CloneToY" /\ Step(CloneToY)
TNext == l <= Len(Trace) /\ TStep
TInit == l = 1 /\ Init
TSpec == TInit /\ [][TNext]_<<vars, l>>
Accepted == TLCGet("stats").diameter - 1 = Len(Trace)
=============================================================================
