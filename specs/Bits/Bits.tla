-------------------------------- MODULE Bits --------------------------------
(* Specification of setz.Bits / setz.Bitmap / dsz.Bits (property C16).        *)
(* Abstractly each object is a finite set of naturals; the code-shaped part   *)
(* is the number of 64-bit words it currently holds (xw, yw), which decides   *)
(* which branch of Add / Remove / Contains / Diff / Intersect / Merge runs.   *)
(* X is the object under test, Y the other operand of the bulk operations     *)
(* (and the target of Clone, so independence of a clone is observable).       *)
EXTENDS Integers, Sequences, FiniteSets, TLC, Json
SX == INSTANCE SequencesExt
CONSTANTS U,        \* universe of values that are added / queried
          MaxW      \* largest number of words explored
VARIABLES xm, xw, ym, yw, last
R(n, args, r) == [n |-> n, a |-> args, r |-> r]
W(n) == n \div 64                       \* word index of n
Need(n) == W(n) + 1
Max(a, b) == IF a > b THEN a ELSE b
InWords(S, w) == {n \in S : W(n) < w}
Sorted(S) == SX!SetToSortSeq(S, LAMBDA x, y : x < y)     \* (Java override: linear-logarithmic)

Init == xm = {} /\ xw = 0 /\ ym = {} /\ yw = 0 /\ last = R("Init", <<>>, <<>>)

Add(n) == /\ xm' = xm \cup {n} /\ xw' = Max(xw, Need(n)) /\ last' = R("Add", <<n>>, <<n \notin xm>>)
          /\ UNCHANGED <<ym, yw>>
Remove(n) == /\ xm' = xm \ {n} /\ last' = R("Remove", <<n>>, <<n \in xm>>) /\ UNCHANGED <<xw, ym, yw>>
Contains(n) == /\ last' = R("Contains", <<n>>, <<n \in xm>>) /\ UNCHANGED <<xm, xw, ym, yw>>
Grow(n) == /\ xw' = Max(xw, Need(n)) /\ last' = R("Grow", <<n>>, <<>>) /\ UNCHANGED <<xm, ym, yw>>
AddY(n) == /\ ym' = ym \cup {n} /\ yw' = Max(yw, Need(n)) /\ last' = R("AddY", <<n>>, <<n \notin ym>>)
           /\ UNCHANGED <<xm, xw>>
RemoveY(n) == /\ ym' = ym \ {n} /\ last' = R("RemoveY", <<n>>, <<n \in ym>>) /\ UNCHANGED <<xm, xw, yw>>
Diff == /\ xm' = xm \ ym /\ last' = R("Diff", <<>>, <<>>) /\ UNCHANGED <<xw, ym, yw>>
Intersect == /\ xm' = xm \cap ym /\ last' = R("Intersect", <<>>, <<>>) /\ UNCHANGED <<xw, ym, yw>>
Merge == /\ xm' = xm \cup ym /\ xw' = Max(xw, yw) /\ last' = R("Merge", <<>>, <<>>) /\ UNCHANGED <<ym, yw>>
\* Y := X.Clone()  (afterwards X and Y evolve independently)
CloneToY == /\ ym' = xm /\ yw' = xw /\ last' = R("CloneToY", <<>>, <<>>) /\ UNCHANGED <<xm, xw>>

\* an enumeration during which values are removed as soon as they have been yielded (k = 0 / 1: the even / odd ones,
\* 2: all - the usual drain loop). The members that are never touched must all be yielded, in ascending order, and
\* removing what was already yielded disturbs nothing: the enumeration is that of the set at its start.
Sel(k, v) == k = 2 \/ v % 2 = k
IterRemove(k) == /\ last' = R("IterRemove", <<k>>, <<Sorted(xm)>>) /\ xm' = {v \in xm : ~Sel(k, v)}
                 /\ UNCHANGED <<xw, ym, yw>>
\* dense stretches (whole words, whole byte columns full): all of lo..hi added / removed at once; r = how many changed
Rng(lo, hi) == {n \in lo..hi : TRUE}
AddRange(lo, hi) == /\ xm' = xm \cup Rng(lo, hi) /\ xw' = Max(xw, IF hi >= lo THEN Need(hi) ELSE 0)
                    /\ last' = R("AddRange", <<lo, hi>>, <<Cardinality(Rng(lo, hi) \ xm)>>) /\ UNCHANGED <<ym, yw>>
RemoveRange(lo, hi) == /\ xm' = xm \ Rng(lo, hi) /\ last' = R("RemoveRange", <<lo, hi>>, <<Cardinality(Rng(lo, hi) \cap xm)>>)
                       /\ UNCHANGED <<xw, ym, yw>>
\* Y := X.Clone(), then both grow beyond the capacity they had in common (X first), nothing else in between
CloneGrowBoth(a, b) == /\ ym' = xm \cup {b} /\ yw' = Max(xw, Need(b)) /\ xm' = xm \cup {a} /\ xw' = Max(xw, Need(a))
                       /\ last' = R("CloneGrowBoth", <<a, b>>, <<>>)
Next == \/ \E k \in 0..2 : IterRemove(k)
        \/ \E a \in U, b \in U : (W(a) >= xw /\ W(b) >= xw /\ a # b) /\ CloneGrowBoth(a, b)
        \/ \E n \in U : Add(n) \/ Remove(n) \/ Contains(n) \/ Grow(n) \/ AddY(n) \/ RemoveY(n)
        \/ Diff \/ Intersect \/ Merge \/ CloneToY
vars == <<xm, xw, ym, yw, last>>
Spec == Init /\ [][Next]_vars
Constr == xw <= MaxW /\ yw <= MaxW
TypeOK == /\ \A n \in xm : W(n) < xw
          /\ \A n \in ym : W(n) < yw

First(s, k) == SubSeq(s, 1, IF Len(s) < k THEN Len(s) ELSE k)
\* the public observation: cardinality and the three enumerations of X, and Y (to see that it is left alone)
\* (iterpair: two iterators alive at once, advanced alternately - each yields the whole set)
O == [len |-> Cardinality(xm), iter |-> Sorted(xm), iterpair |-> <<Sorted(xm), Sorted(xm)>>, range2 |-> First(Sorted(xm), 2), all |-> Sorted(xm),
      ylen |-> Cardinality(ym), yiter |-> Sorted(ym)]
View == <<xm, xw, ym, yw>>
St == [s |-> [xcap |-> 64 * xw, ycap |-> 64 * yw, x |-> Sorted(xm), y |-> Sorted(ym)], o |-> O, d |-> Sorted(xm)]
Emit == PrintT(ToJson([i |-> (xw = 0 /\ yw = 0), f |-> St, op |-> last', t |-> St']))
=============================================================================
