SPECIFICATION TSpec
CONSTANTS
  U = {0}
  MaxW = 1000000
POSTCONDITION Accepted
CHECK_DEADLOCK FALSE
