SPECIFICATION Spec
CONSTANTS
  U = {0, 63, 64, 129}
  MaxW = 3
INVARIANT TypeOK
CONSTRAINT Constr
VIEW View
CHECK_DEADLOCK FALSE
ACTION_CONSTRAINT Emit
