----------------------------- MODULE MultiMatch -----------------------------
(* Specification of the multi-pattern queries of algz.Trie (properties C05    *)
(* and C06), on BYTE sequences: matching is byte-exact.                       *)
(*   Occ(P, t)   = all (pattern index, start offset) with t[start ..) = P[k]  *)
(*   Match       <=> Occ # {}                                                 *)
(*   FindAll     =  one entry per occurrence (a bag of patterns)              *)
(*   PrefixSearch(k) = the patterns that start with k, each once              *)
(*   FuzzySearch(k)  \subseteq P                                              *)
(*   covered positions = union of the occurrences; Runs = the maximal         *)
(*   stretches of covered positions with the number of occurrences starting   *)
(*   in each: ReplaceWithMask masks exactly the covered runes, Replace puts   *)
(*   between 1 and that many copies of the replacement per stretch.           *)
(* TLC enumerates pattern sets (shared prefixes, suffix / infix relations,    *)
(* 1-4 byte runes) x texts / keys and prints one case per line.               *)
EXTENDS Integers, Sequences, FiniteSets, TLC, Json
CONSTANTS Mode,       \* "valid": texts are rune sequences; "bytes": texts are arbitrary byte sequences
          MaxText, MaxSet
VARIABLE x
Emit(c) == PrintT(ToJson(c))
RECURSIVE SeqsUpTo(_, _)
SeqsUpTo(A, n) == IF n = 0 THEN {<<>>}
                  ELSE LET S == SeqsUpTo(A, n - 1) IN S \cup {Append(s, a) : s \in {y \in S : Len(y) = n - 1}, a \in A}
RECURSIVE Flat(_)
Flat(ss) == IF ss = <<>> THEN <<>> ELSE Head(ss) \o Flat(Tail(ss))

\* runes as UTF-8 byte sequences: a b, e-acute, zhong (E4 B8 AD), shi (E4 B8 96: shares two bytes with zhong),
\* U+FFFD (EF BF BD), grinning face (F0 9F 98 80)
Ra == <<97>>   Rb == <<98>>   Re == <<195, 169>>   Rz == <<228, 184, 173>>   Rs == <<228, 184, 150>>
Rf == <<239, 191, 189>>   Rg == <<240, 159, 152, 128>>
\* pattern pool: prefixes / suffixes / infixes of each other, every rune width; "aab" contains two disjoint
\* occurrences of "a" and ends after both (the interval-merge case of C06)
Pool == << Ra, Ra \o Rb, Rb, Rb \o Ra, Ra \o Rb \o Ra, Rz, Ra \o Rz, Rz \o Ra, Rs, Ra \o Rs, Re, Rf, Rg \o Ra, Ra \o Rb \o Rz, Rb \o Rz \o Rb, Ra \o Ra \o Rb, Rb \o Ra \o Rb \o Ra,
           <<97, 0, 98>> >>      \* (a pattern with U+0000 inside: no rune value is free to serve as a sentinel)
\* in "bytes" mode three more patterns that are NOT valid UTF-8 (a stray continuation byte inside, alone, and 0xFF)
BadPats == << <<97, 128, 98>>, <<128>>, <<255, 97>>, <<158, 98>> >>
FullPool == IF Mode = "bytes" THEN Pool \o BadPats ELSE Pool
\* (byte texts are combined with the patterns whose bytes occur in them: a, zhong, a-zhong, shi, U+FFFD and the three bad ones)
PoolIdx == IF Mode = "bytes" THEN {1, 6, 7, 9, 12} \cup (Len(Pool) + 1..Len(Pool) + Len(BadPats)) ELSE 1..Len(Pool)
PatSets == {S \in SUBSET PoolIdx : S # {} /\ Cardinality(S) <= MaxSet}
SX == INSTANCE SequencesExt
AsSeq(S) == SX!SetToSortSeq(S, LAMBDA a, b : a < b)
\* only the runes that occur in the chosen patterns plus one foreign rune make interesting texts
Texts == IF Mode = "valid" THEN {Flat(rs) : rs \in SeqsUpTo({Ra, Rb, Rz, Rs}, MaxText)}
         ELSE \* 193 161 (C1 A1) is an overlong two-byte form of "a": it must not be read as "a"
              SeqsUpTo({97, 98, 128, 158, 228, 184, 173, 255, 239, 191, 189, 193, 161}, MaxText)     \* (158 = 255 - "a")

PatOf(S) == LET q == AsSeq(S) IN [j \in 1..Len(q) |-> FullPool[q[j]]]
IsAt(t, p, i) == i + Len(p) <= Len(t) /\ SubSeq(t, i + 1, i + Len(p)) = p
Occ(P, t) == {<<k, i>> : k \in 1..Len(P), i \in 0..Len(t)} \cap {o \in (1..Len(P)) \X (0..Len(t)) : IsAt(t, P[o[1]], o[2])}
Covered(P, t) == {j \in 0..Len(t) - 1 : \E o \in Occ(P, t) : j >= o[2] /\ j < o[2] + Len(P[o[1]])}
Runs(P, t) == LET C == Covered(P, t)
                  starts == {s \in C : (s - 1) \notin C}
                  EndOf(s) == CHOOSE e \in s + 1..Len(t) : (\A j \in s..e - 1 : j \in C) /\ e \notin C
              IN {<<s, EndOf(s), Cardinality({o \in Occ(P, t) : o[2] >= s /\ o[2] < EndOf(s)})>> : s \in starts}
IsPrefix(k, p) == Len(k) <= Len(p) /\ SubSeq(p, 1, Len(k)) = k

\* build schedules: batches of pattern indices (0 = the empty pattern), failure links rebuilt after every batch.
\* The queries must give the same answers whichever way the same set was inserted and (re)built: in one batch,
\* reversed with a duplicate and an empty pattern, or in two batches (either half first) with a build in between.
Fwd(n) == [i \in 1..n |-> i]
Schedules(n) == LET h == IF n = 1 THEN 1 ELSE n \div 2 IN
    << <<Fwd(n)>>, <<[i \in 1..n |-> n + 1 - i] \o <<n, 0>>>>,
       <<SubSeq(Fwd(n), 1, h), SubSeq(Fwd(n), h + 1, n)>>, <<SubSeq(Fwd(n), h + 1, n), SubSeq(Fwd(n), 1, h)>> >>
TextCases == \A S \in PatSets : LET P == PatOf(S) IN
    \A t \in Texts :
        LET oc == Occ(P, t) IN
        \* (texts without any occurrence are kept only for the smallest pattern sets: they all look alike)
        (oc # {} \/ Cardinality(S) = 1) =>
            Emit([fn |-> "text", s |-> t, a |-> P, x |-> Schedules(Len(P)),
                  out |-> [match |-> oc # {}, occ |-> AsSeq({o[1] * 100 + o[2] : o \in oc}),
                           runs |-> AsSeq({r[1] * 10000 + r[2] * 100 + r[3] : r \in Runs(P, t)})]])
\* keys: every prefix of every pattern of the pool, and a few keys that are no prefix
KeyPool == UNION {{SubSeq(Pool[i], 1, n) : n \in 0..Len(Pool[i])} : i \in 1..Len(Pool)} \cup {Rb \o Rb, Rz \o Rz, <<228>>, <<228, 184>>, <<255>>, Rg, <<193, 161>>, <<193, 161, 98>>}
KeyCases == \A S \in PatSets : LET P == PatOf(S) IN
    \A k \in KeyPool : Emit([fn |-> "key", s |-> k, a |-> P, x |-> Schedules(Len(P)), out |-> AsSeq({i \in 1..Len(P) : IsPrefix(k, P[i])})])

\* wide tries: the breadth-first construction of the failure links runs through a ring queue that grows; with k
\* siblings below "a" (and "b" popped first, so the ring is rotated) the growth happens while the queue is wrapped
WidePats(k) == <<Rb>> \o [i \in 1..k |-> <<97, 98 + i, 120>>]
WideCases == \A k \in {9, 10, 11, 12, 20} : LET P == WidePats(k) IN
    \A i \in 1..k : \A t \in {<<45, 45>> \o P[i + 1] \o <<45>>, P[i + 1] \o Rb \o P[((i % k) + 1) + 1]} :
        LET oc == Occ(P, t) IN
        Emit([fn |-> "text", s |-> t, a |-> P, x |-> Schedules(Len(P)),
              out |-> [match |-> oc # {}, occ |-> AsSeq({o[1] * 100 + o[2] : o \in oc}),
                       runs |-> AsSeq({r[1] * 10000 + r[2] * 100 + r[3] : r \in Runs(P, t)})]])
\* deep failure chains: each pattern of this pool is a suffix of the next, so that a state's nearest pattern end can lie
\* two, three or four failure links away (and states in between are no pattern ends when their pattern is left out)
DeepPool == << Rb, Ra \o Rb, Rb \o Ra \o Rb, Ra \o Rb \o Ra \o Rb, Ra, Rb \o Ra, Ra \o Rb \o Ra, Rb \o Ra \o Rb \o Ra, Rz \o Ra \o Rb \o Ra >>
\* (sets of five and six: three nested pattern ends below one node AND two longer patterns that both fall back to it)
DeepSets == {S \in SUBSET (1..Len(DeepPool)) : Cardinality(S) \in {3, 4, 5, 6}}
DeepCases == \A S \in DeepSets : LET P == [j \in 1..Cardinality(S) |-> DeepPool[AsSeq(S)[j]]] IN
    \A t \in {Flat(rs) : rs \in SeqsUpTo({Ra, Rb, Rz}, MaxText)} :
        LET oc == Occ(P, t) IN
        Cardinality(oc) >= 2 =>
            Emit([fn |-> "text", s |-> t, a |-> P, x |-> Schedules(Len(P)),
                  out |-> [match |-> TRUE, occ |-> AsSeq({o[1] * 100 + o[2] : o \in oc}),
                           runs |-> AsSeq({r[1] * 10000 + r[2] * 100 + r[3] : r \in Runs(P, t)})]])
\* very wide nodes: k children of the root whose runes are spread over all seventeen planes (U+0021 .. U+10FFFF, the
\* surrogate range skipped) - children are found by searching a sorted list, whatever its length and the spread of its keys
Utf8(c) == IF c < 128 THEN <<c>>
           ELSE IF c < 2048 THEN <<192 + (c \div 64), 128 + (c % 64)>>
           ELSE IF c < 65536 THEN <<224 + (c \div 4096), 128 + ((c \div 64) % 64), 128 + (c % 64)>>
           ELSE <<240 + (c \div 262144), 128 + ((c \div 4096) % 64), 128 + ((c \div 64) % 64), 128 + (c % 64)>>
Spread(k, i) == LET c == 33 + (i - 1) * ((1114111 - 33) \div (k - 1)) IN IF c >= 55296 /\ c <= 57343 THEN c + 2048 ELSE c
SpreadPats(k) == [i \in 1..k |-> Utf8(Spread(k, i))] \o << Utf8(Spread(k, k)) \o Utf8(Spread(k, 1)), Utf8(Spread(k, k)) \o Utf8(Spread(k, k)) >>
SpreadAt(k) == {1, 2, k \div 2, (3 * k) \div 4, k - 1, k}
SpreadCases == \A k \in {65, 300, 3000} : LET P == SpreadPats(k) IN
    /\ \A i \in SpreadAt(k) : \A t \in {P[i] \o <<45>> \o P[k + 1 - i], <<45>> \o P[k] \o P[i] \o <<126>>} :
        LET oc == Occ(P, t) IN
        Emit([fn |-> "text", s |-> t, a |-> P, x |-> << <<Fwd(Len(P))>> >>,
              out |-> [match |-> oc # {}, occ |-> AsSeq({o[1] * 100 + o[2] : o \in oc}),
                       runs |-> AsSeq({r[1] * 10000 + r[2] * 100 + r[3] : r \in Runs(P, t)})]])
    /\ \A i \in SpreadAt(k) : \A key \in {P[i], P[i] \o <<45>>} :
        Emit([fn |-> "key", s |-> key, a |-> P, x |-> << <<Fwd(Len(P))>> >>, out |-> AsSeq({j \in 1..Len(P) : IsPrefix(key, P[j])})])
\* three patterns inserted one after the other, the later ones sharing BYTES (not runes) with the earlier: an ASCII
\* pattern of three bytes, then zhong / shi (two common bytes, the third differs), with and without an "a" in front
TriplePool == {5, 6, 7, 9, 10, 17}     \* aba, zhong, a-zhong, shi, a-shi, baba
Triples == {S \in SUBSET TriplePool : Cardinality(S) = 3}
TripleTexts == {Pool[i] : i \in TriplePool} \cup {Pool[i] \o Pool[j] : i \in {6, 9}, j \in TriplePool} \cup {<<97, 98>> \o Rs, <<97, 98>> \o Rz \o Rs}
TripleCases == \A S \in Triples : LET P == PatOf(S) IN \A t \in TripleTexts :
    LET oc == Occ(P, t) IN
    Emit([fn |-> "text", s |-> t, a |-> P, x |-> Schedules(Len(P)),
          out |-> [match |-> oc # {}, occ |-> AsSeq({o[1] * 100 + o[2] : o \in oc}),
                   runs |-> AsSeq({r[1] * 10000 + r[2] * 100 + r[3] : r \in Runs(P, t)})]])
ASSUME TextCases
ASSUME Mode = "valid" => TripleCases
ASSUME Mode = "valid" => SpreadCases
ASSUME Mode = "valid" => DeepCases
ASSUME Mode = "valid" => WideCases
ASSUME Mode = "valid" => KeyCases
Init == x = 0
Next == x' = x
Spec == Init /\ [][Next]_x
=============================================================================
