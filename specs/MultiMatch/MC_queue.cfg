SPECIFICATION Spec
CONSTANTS
  InitCaps = {1, 2, 3}
  MaxPush = 8
INVARIANT IsFifo
VIEW View
CHECK_DEADLOCK FALSE
ACTION_CONSTRAINT Emit
