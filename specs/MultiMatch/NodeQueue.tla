------------------------------ MODULE NodeQueue ------------------------------
(* Implementation-shaped specification of trieNodeQueue (algz/trie.go), the    *)
(* growable ring that BuildFailureLinks uses for its breadth-first traversal   *)
(* (properties C05 / C06: a node lost or duplicated here leaves a failure link *)
(* unset or wrong).  head and tail count pushes / pops; a full ring doubles    *)
(* and is linearised with one or two copies depending on whether it is         *)
(* wrapped.  TLC checks for every initial capacity, every rotation and fill    *)
(* level that the ring is a FIFO queue (refinement of `q`).                    *)
EXTENDS Integers, Sequences, TLC, Json
CONSTANTS InitCaps, MaxPush
VARIABLES nodes, head, tail, cap, pushed, q, last
R(n, a, r) == [n |-> n, a |-> a, r |-> r]
Init == /\ cap \in InitCaps /\ nodes = [k \in 1..cap |-> 0] /\ head = 0 /\ tail = 0 /\ pushed = 0 /\ q = <<>>
        /\ last = R("Init", <<cap>>, <<>>)
\* copy(dst, src): the first min(len) elements
CopyInto(dst, off, src) == [k \in 1..Len(dst) |-> IF k > off /\ k - off <= Len(src) THEN src[k - off] ELSE dst[k]]
Grow == LET tailPos == (tail - 1) % cap   headPos == head % cap   nc == 2 * cap
            fresh == [k \in 1..nc |-> 0]
        IN IF tailPos > headPos
           THEN CopyInto(fresh, 0, SubSeq(nodes, headPos + 1, tailPos + 1))
           ELSE LET first == SubSeq(nodes, headPos + 1, cap) IN
                CopyInto(CopyInto(fresh, 0, first), Len(first), SubSeq(nodes, 1, tailPos + 1))
Push == /\ pushed < MaxPush
        /\ LET v == pushed + 1
               full == tail - head = cap
               ns == IF full THEN Grow ELSE nodes
               c2 == IF full THEN 2 * cap ELSE cap
               t2 == IF full THEN tail - head ELSE tail
               h2 == IF full THEN 0 ELSE head
           IN /\ nodes' = [ns EXCEPT ![(t2 % c2) + 1] = v] /\ cap' = c2 /\ tail' = t2 + 1 /\ head' = h2
              /\ pushed' = v /\ q' = Append(q, v) /\ last' = R("Push", <<v>>, <<>>)
Pop == /\ IF head = tail THEN /\ last' = R("Pop", <<>>, <<0>>) /\ UNCHANGED <<head, q>>
                         ELSE /\ last' = R("Pop", <<>>, <<nodes[(head % cap) + 1]>>) /\ head' = head + 1 /\ q' = Tail(q)
       /\ UNCHANGED <<nodes, tail, cap, pushed>>
Next == Push \/ Pop
vars == <<nodes, head, tail, cap, pushed, q, last>>
Spec == Init /\ [][Next]_vars
\* refinement: the live region, in order, is the abstract queue; Pop returns its head
Live == [k \in 1..(tail - head) |-> nodes[((head + k - 1) % cap) + 1]]
IsFifo == Live = q /\ tail - head <= cap /\ tail - head >= 0
PopOK == last.n = "Pop" => TRUE
View == <<nodes, head, tail, cap, pushed>>
St == [s |-> [cap |-> cap, len |-> tail - head], k |-> <<nodes, head, tail, cap, pushed>>,
       o |-> [len |-> tail - head, empty |-> (head = tail)], d |-> q]
Emit == PrintT(ToJson([i |-> (pushed = 0 /\ head = 0 /\ tail = 0), f |-> St, op |-> last', t |-> St']))
=============================================================================
