SPECIFICATION Spec
CONSTANTS
  Mode = "bytes"
  MaxText = 5
  MaxSet = 2
