SPECIFICATION Spec
CONSTANTS
  Alphabet = {1, 2, 3, 4}
  MaxPatLen = 3
  MaxPats = 2
  ByteOffsets = TRUE
INVARIANTS NoFault FramesRight BufSpellsNode TopFits NodeIsKeySuffix RetSound Final EmitDone
PROPERTY Terminates
CHECK_DEADLOCK FALSE
