----------------------------- MODULE MergeScopes -----------------------------
(* Implementation-shaped specification of Trie.mergeScopes (algz/trie.go), the *)
(* single forward pass that Replace / ReplaceWithMask run over the occurrence  *)
(* intervals before re-assembling the text (property C06).                     *)
(*                                                                            *)
(* Input: the intervals [start, stop) in the order `find` appends them: by     *)
(* ascending stop and, for equal stops, the longer one first.  The pass looks  *)
(* at neighbours i, i+1; if they overlap it merges them into slot i.           *)
(*   StepBack = TRUE  : after a merge the predecessor is examined again        *)
(*                      (the repaired code)                                    *)
(*   StepBack = FALSE : the pass stays at i (code of the pinned commit; F7)    *)
(* TLC checks, for EVERY such interval list over positions 0..N with at most   *)
(* MaxIv intervals, that the pass terminates with a list that is increasing    *)
(* and disjoint (so the re-assembly never slices text[begin:start] with        *)
(* begin > start) and covers exactly the same positions.                       *)
EXTENDS Integers, Sequences, FiniteSets, TLC
CONSTANTS N, MaxIv, StepBack
VARIABLES sc, i, input, done
Iv == {<<s, e>> \in (0..N) \X (0..N) : s < e}
\* order of find: ascending stop; same stop: smaller start (longer) first; no duplicates
Ordered(l) == \A k \in 1..Len(l) - 1 : l[k][2] < l[k + 1][2] \/ (l[k][2] = l[k + 1][2] /\ l[k][1] < l[k + 1][1])
RECURSIVE Lists(_)
Lists(n) == IF n = 0 THEN {<<>>} ELSE LET S == Lists(n - 1) IN
            S \cup {Append(l, v) : l \in {y \in S : Len(y) = n - 1}, v \in Iv}
Inputs == {l \in Lists(MaxIv) : Ordered(l)}
Cov(l) == {p \in 0..N - 1 : \E k \in 1..Len(l) : p >= l[k][1] /\ p < l[k][2]}
Min(a, b) == IF a < b THEN a ELSE b
Max(a, b) == IF a > b THEN a ELSE b
RemoveAt(l, k) == SubSeq(l, 1, k - 1) \o SubSeq(l, k + 1, Len(l))

Init == input \in Inputs /\ sc = input /\ i = 1 /\ done = FALSE          \* (i is 1-based here, 0-based in the code)
Step == /\ ~done
        /\ IF i > Len(sc) - 1 THEN done' = TRUE /\ UNCHANGED <<sc, i>>
           ELSE IF sc[i][2] > sc[i + 1][1]
                THEN /\ sc' = RemoveAt([sc EXCEPT ![i] = <<Min(sc[i][1], sc[i + 1][1]), Max(sc[i][2], sc[i + 1][2])>>], i + 1)
                     /\ i' = IF StepBack /\ i > 1 THEN i - 1 ELSE i
                     /\ UNCHANGED done
                ELSE i' = i + 1 /\ UNCHANGED <<sc, done>>
        /\ UNCHANGED input
Spec == Init /\ [][Step]_<<sc, i, input, done>> /\ WF_<<sc, i, input, done>>(Step)

\* what the re-assembly needs, and what the property states
Increasing == done => \A k \in 1..Len(sc) - 1 : sc[k][2] <= sc[k + 1][1]
UnionKept == Cov(sc) = Cov(input)
\* the prefix already passed is increasing and disjoint at all times (why stepping back once is enough)
PrefixOK == StepBack => \A k \in 1..i - 2 : sc[k][2] <= sc[k + 1][1]
Terminates == <>done
=============================================================================
