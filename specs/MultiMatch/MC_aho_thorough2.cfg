SPECIFICATION Spec
CONSTANTS
  Alphabet = {1, 2}
  MaxPatLen = 4
  MaxPats = 3
  MaxText = 5
INVARIANTS BfsOrder LinksRight Complete EmitBuilt
PROPERTY Terminates
CHECK_DEADLOCK FALSE
