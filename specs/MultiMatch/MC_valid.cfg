SPECIFICATION Spec
CONSTANTS
  Mode = "valid"
  MaxText = 5
  MaxSet = 2
