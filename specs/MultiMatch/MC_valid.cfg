SPECIFICATION Spec
CONSTANTS
  Mode = "valid"
  MaxText = 4
  MaxSet = 2
