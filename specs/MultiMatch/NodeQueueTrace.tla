---------------------------- MODULE NodeQueueTrace ----------------------------
(* the abstract FIFO against which real trieNodeQueue traces are validated *)
EXTENDS Integers, Sequences, TLC, Json
VARIABLES q, l
Trace == ndJsonDeserialize("trace.ndjson")
Ev == Trace[l]
TStep == \/ Ev.ev = "Reset" /\ q' = <<>>
         \/ Ev.ev = "Push" /\ q' = Append(q, Ev.a[1]) /\ ("o" \in DOMAIN Ev => Ev.o.len = Len(q') /\ Ev.o.empty = FALSE)
         \/ Ev.ev = "Pop" /\ (IF q = <<>> THEN Ev.r = <<0>> /\ q' = q ELSE Ev.r = <<Head(q)>> /\ q' = Tail(q))
                          /\ ("o" \in DOMAIN Ev => Ev.o.len = Len(q') /\ Ev.o.empty = (q' = <<>>))
         \/ Ev.ev = "Drain" /\ Ev.d = q /\ q' = q
TNext == l <= Len(Trace) /\ l' = l + 1 /\ TStep
TSpec == l = 1 /\ q = <<>> /\ [][TNext]_<<q, l>>
Accepted == TLCGet("stats").diameter - 1 = Len(Trace)
=============================================================================
