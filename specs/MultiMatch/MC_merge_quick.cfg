SPECIFICATION Spec
CONSTANTS
  N = 5
  MaxIv = 3
  StepBack = TRUE
INVARIANTS Increasing UnionKept PrefixOK
PROPERTY Terminates
CHECK_DEADLOCK FALSE
