------------------------------- MODULE TrieDfs -------------------------------
(* Implementation-shaped specification of Trie.PrefixSearch and               *)
(* Trie.FuzzySearch of algz/trie.go (property C05): the walk along the key    *)
(* (FuzzySearch: with failure-link fallback), and the depth-first             *)
(* enumeration of a subtree with an EXPLICIT STACK of frames and ONE SHARED   *)
(* BYTE BUFFER that is truncated when the walk backtracks.                    *)
(*                                                                            *)
(* A node is its path (a sequence of symbols); a symbol is a rune class with  *)
(* a byte width (1..4), so the buffer is a sequence of BYTES <<symbol, k>>    *)
(* and a truncation in the middle of a rune is representable - that is what   *)
(* the pinned commit did (finding F8: frames carried rune counts; the         *)
(* variant ByteOffsets = FALSE reproduces it and TLC must reject it).         *)
(* One action = one iteration of a loop of the code:                          *)
(*   WalkKey     one rune of the key consumed                                 *)
(*   Begin       the buffer is primed, the children of the start node pushed  *)
(*   Visit       one frame popped: truncate, write its rune, report, push     *)
(*   NextLink    FuzzySearch: buffer reset, on to the failure node            *)
(* TLC checks for every pattern set and key of the bounded grammar: no fault  *)
(* (a truncation beyond the buffer, a negative slice), every frame carries    *)
(* the byte offset at which its rune belongs (so truncation is always on a    *)
(* rune boundary), every reported string is a pattern at all times, the       *)
(* final result is exactly {p : key is a prefix of p}, each once (Prefix-     *)
(* Search) resp. the union of those sets along the failure chain of the       *)
(* state the key leads to (FuzzySearch), and termination.  At the end it      *)
(* prints the result IN THE ORDER the loops produce it: the real functions    *)
(* must return exactly that list (a different order of the same strings is    *)
(* drift, anything else is judged by the abstract definition).                *)
EXTENDS Integers, Sequences, FiniteSets, TLC, Json
CONSTANTS Alphabet, MaxPatLen, MaxPats, ByteOffsets
VARIABLES pats, key, mode, i, node, stack, buf, ret, pc
vars == <<pats, key, mode, i, node, stack, buf, ret, pc>>

\* symbols as the runner maps them: 1 = "a", 2 = U+4E2D (3 bytes), 3 = U+00E9 (2 bytes), 4 = U+1F600 (4 bytes)
Width(s) == CASE s = 1 -> 1 [] s = 2 -> 3 [] s = 3 -> 2 [] OTHER -> 4
Rank(s) == CASE s = 1 -> 1 [] s = 3 -> 2 [] s = 2 -> 3 [] OTHER -> 4        \* order of the code points
Bytes(s) == [k \in 1..Width(s) |-> <<s, k>>]
RECURSIVE BytesOf(_)
BytesOf(p) == IF p = <<>> THEN <<>> ELSE Bytes(Head(p)) \o BytesOf(Tail(p))

RECURSIVE SeqsUpTo(_, _)
SeqsUpTo(A, n) == IF n = 0 THEN {<<>>}
                  ELSE LET S == SeqsUpTo(A, n - 1) IN S \cup {Append(s, a) : s \in {y \in S : Len(y) = n - 1}, a \in A}
Prefixes(p) == {SubSeq(p, 1, k) : k \in 0..Len(p)}
Nodes == UNION {Prefixes(p) : p \in pats}
Root == <<>>
Children(n) == {m \in Nodes : Len(m) = Len(n) + 1 /\ SubSeq(m, 1, Len(n)) = n}
IsEnd(n) == n \in pats
IsPrefix(k, p) == Len(k) <= Len(p) /\ SubSeq(p, 1, Len(k)) = k
IsSuffix(s, n) == Len(s) <= Len(n) /\ SubSeq(n, Len(n) - Len(s) + 1, Len(n)) = s
\* failure link: the longest proper suffix that is a node (AhoImpl.tla shows that BuildFailureLinks computes it)
Fail(n) == CHOOSE s \in Nodes : /\ Len(s) < Len(n) /\ IsSuffix(s, n)
                               /\ \A t \in Nodes : (Len(t) < Len(n) /\ IsSuffix(t, n)) => Len(t) <= Len(s)
SX == INSTANCE SequencesExt
\* children in the order of the sorted child list of the code (by code point)
Kids(n) == SX!SetToSortSeq(Children(n), LAMBDA a, b : Rank(a[Len(a)]) < Rank(b[Len(b)]))
Parent(n) == SubSeq(n, 1, Len(n) - 1)
\* what a frame records as "depth": the byte offset at which its rune is written - or, in the pinned variant, a rune count
DepthOf(b) == IF ByteOffsets THEN Len(b) ELSE Cardinality({k \in 1..Len(b) : b[k][2] = 1})
Frames(n, b) == [k \in 1..Len(Kids(n)) |-> [r |-> Kids(n)[k][Len(Kids(n)[k])], depth |-> DepthOf(b), node |-> Kids(n)[k]]]

Pool == SeqsUpTo(Alphabet, MaxPatLen) \ {<<>>}
PatSets == {{a} : a \in Pool} \cup (IF MaxPats >= 2 THEN {{a, b} : a \in Pool, b \in Pool} ELSE {})
           \cup (IF MaxPats >= 3 THEN {{a, b, c} : a \in Pool, b \in Pool, c \in Pool} ELSE {})
\* keys: every prefix of a pattern, every pattern followed or preceded by one more symbol, one foreign symbol
KeysOf(P) == UNION {Prefixes(p) : p \in P} \cup {Append(p, a) : p \in P, a \in Alphabet} \cup {<<a>> \o p : p \in P, a \in Alphabet}

Init == /\ pats \in PatSets /\ key \in KeysOf(pats) /\ mode \in {"prefix", "fuzzy"}
        /\ i = 1 /\ node = Root /\ stack = <<>> /\ buf = <<>> /\ ret = <<>> /\ pc = "walk"

Return(r) == ret' = r /\ pc' = "done" /\ UNCHANGED <<pats, key, mode, i, node, stack, buf>>
\* the empty key of FuzzySearch is handed to PrefixSearch
EffMode == IF key = <<>> THEN "prefix" ELSE mode
RECURSIVE Fallback(_, _)
Fallback(n, c) == IF Append(n, c) \in Nodes THEN Append(n, c) ELSE IF n = Root THEN <<-1>> ELSE Fallback(Fail(n), c)
WalkKey == /\ pc = "walk" /\ i <= Len(key)
           /\ LET nx == IF EffMode = "prefix" THEN (IF Append(node, key[i]) \in Nodes THEN Append(node, key[i]) ELSE <<-1>>)
                        ELSE Fallback(node, key[i]) IN
              IF nx = <<-1>> THEN Return(<<>>)
              ELSE node' = nx /\ i' = i + 1 /\ UNCHANGED <<pats, key, mode, stack, buf, ret, pc>>
\* the byte slice key[len(key) - node.size:] of FuzzySearch: the last Len(BytesOf(node)) bytes of the key
KeyTail(n) == LET kb == BytesOf(key)  sz == Len(BytesOf(n)) IN IF sz > Len(kb) THEN << <<0, 0>> >> ELSE SubSeq(kb, Len(kb) - sz + 1, Len(kb))
Begin == /\ pc = "walk" /\ i > Len(key)
         /\ IF EffMode = "prefix"
            THEN IF Children(node) = {} THEN Return(IF IsEnd(node) THEN <<BytesOf(key)>> ELSE <<>>)
                 ELSE /\ buf' = BytesOf(key) /\ ret' = (IF IsEnd(node) THEN <<BytesOf(key)>> ELSE <<>>)
                      /\ stack' = Frames(node, BytesOf(key)) /\ pc' = "dfs" /\ UNCHANGED <<pats, key, mode, i, node>>
            ELSE IF Children(node) = {} /\ Fail(node) = Root THEN Return(IF IsEnd(node) THEN <<KeyTail(node)>> ELSE <<>>)
                 ELSE pc' = "chain" /\ UNCHANGED <<pats, key, mode, i, node, stack, buf, ret>>
\* FuzzySearch, head of the outer loop: the buffer is primed with the part of the key the node stands for
Chain == /\ pc = "chain"
         /\ IF node = Root THEN Return(ret)
            ELSE IF KeyTail(node) = << <<0, 0>> >> THEN pc' = "fault" /\ UNCHANGED <<pats, key, mode, i, node, stack, buf, ret>>
            ELSE /\ buf' = buf \o KeyTail(node)
                 /\ ret' = (IF IsEnd(node) THEN Append(ret, KeyTail(node)) ELSE ret)
                 /\ stack' = Frames(node, buf \o KeyTail(node)) /\ pc' = "dfs" /\ UNCHANGED <<pats, key, mode, i, node>>
\* buf.Truncate(n): a fault when n exceeds the length
Visit == /\ pc = "dfs" /\ stack # <<>>
         /\ LET cur == stack[Len(stack)] IN
            IF cur.depth > Len(buf) THEN pc' = "fault" /\ UNCHANGED <<pats, key, mode, i, node, stack, buf, ret>>
            ELSE LET b2 == SubSeq(buf, 1, cur.depth) \o Bytes(cur.r) IN
                 /\ buf' = b2
                 /\ ret' = (IF IsEnd(cur.node) THEN Append(ret, b2) ELSE ret)
                 /\ stack' = SubSeq(stack, 1, Len(stack) - 1) \o Frames(cur.node, b2)
                 /\ UNCHANGED <<pats, key, mode, i, node, pc>>
DfsDone == /\ pc = "dfs" /\ stack = <<>>
           /\ IF EffMode = "prefix" THEN Return(ret)
              ELSE buf' = <<>> /\ node' = Fail(node) /\ pc' = "chain" /\ UNCHANGED <<pats, key, mode, i, stack, ret>>
Next == WalkKey \/ Begin \/ Chain \/ Visit \/ DfsDone
Spec == Init /\ [][Next]_vars /\ WF_vars(Next)

\* ---- checked by TLC
NoFault == pc # "fault"
\* every frame: its rune is the last symbol of its node, its depth is the byte offset at which that rune belongs
\* (the text of the start node - the key resp. the tail of the key - has as many bytes as the start node's path)
FramesRight == ByteOffsets => \A k \in 1..Len(stack) :
    /\ stack[k].r = stack[k].node[Len(stack[k].node)]
    /\ IsPrefix(node, Parent(stack[k].node))
    /\ stack[k].depth = Len(BytesOf(Parent(stack[k].node)))
\* the buffer always spells a node of the subtree that is being enumerated
BufSpellsNode == (pc = "dfs" /\ ByteOffsets) => \E n \in Nodes : IsPrefix(node, n) /\ buf = BytesOf(n)
\* the top frame can always be truncated to, and on a rune boundary
TopFits == (ByteOffsets /\ stack # <<>>) => LET d == stack[Len(stack)].depth IN d <= Len(buf) /\ (d = Len(buf) \/ buf[d + 1][2] = 1)
\* FuzzySearch: the state the key leads to is a suffix of the key
NodeIsKeySuffix == (mode = "fuzzy" /\ key # <<>> /\ pc \in {"chain", "dfs"}) => IsSuffix(node, SubSeq(key, 1, i - 1))
\* every reported string is an inserted pattern, at all times
RetSound == ByteOffsets => \A k \in 1..Len(ret) : \E p \in pats : ret[k] = BytesOf(p)
\* (unguarded, for the pinned variant: TLC must find it violated - vacuity guard)
RetSoundU == \A k \in 1..Len(ret) : \E p \in pats : ret[k] = BytesOf(p)
\* final results as bags
Count(sq, x) == Cardinality({k \in 1..Len(sq) : sq[k] = x})
RECURSIVE ChainNodes(_)
ChainNodes(n) == IF n = Root THEN {} ELSE {n} \cup ChainNodes(Fail(n))
KeyState == LET RECURSIVE Run(_, _)
                Run(n, k) == IF k > Len(key) THEN n ELSE LET nx == Fallback(n, key[k]) IN IF nx = <<-1>> THEN <<-1>> ELSE Run(nx, k + 1)
            IN Run(Root, 1)
Final == (pc = "done" /\ ByteOffsets) =>
    IF EffMode = "prefix"
    THEN \A p \in pats : Count(ret, BytesOf(p)) = (IF IsPrefix(key, p) THEN 1 ELSE 0)
    ELSE \A p \in pats : Count(ret, BytesOf(p)) =
            (IF KeyState = <<-1>> THEN 0 ELSE Cardinality({n \in ChainNodes(KeyState) : IsPrefix(n, p)}))
Terminates == <>(pc \in {"done", "fault"})
Sorted(S) == SX!SetToSortSeq(S, LAMBDA a, b : Len(a) < Len(b) \/ (Len(a) = Len(b) /\ a # b /\ (CHOOSE k \in 1..Len(a) : a[k] # b[k] /\ \A j \in 1..k - 1 : a[j] = b[j]) \in {k \in 1..Len(a) : a[k] < b[k]}))
EmitDone == pc = "done" =>
    PrintT(ToJson([fn |-> "dfs", s |-> key, a |-> Sorted(pats), x |-> mode,
                   out |-> [k \in 1..Len(ret) |-> CHOOSE p \in pats : BytesOf(p) = ret[k]]]))
=============================================================================
