SPECIFICATION Spec
CONSTANTS
  N = 5
  MaxIv = 3
  StepBack = FALSE
INVARIANTS Increasing
CHECK_DEADLOCK FALSE
