SPECIFICATION Spec
CONSTANTS
  Alphabet = {1, 2}
  MaxPatLen = 3
  MaxPats = 2
  ByteOffsets = FALSE
INVARIANTS NoFault RetSoundU
PROPERTY Terminates
CHECK_DEADLOCK FALSE
