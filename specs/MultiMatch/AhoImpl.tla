------------------------------- MODULE AhoImpl -------------------------------
(* Implementation-shaped specification of the Aho-Corasick automaton of        *)
(* algz/trie.go (properties C05 / C06):                                        *)
(*   Insert             the trie: a node per prefix of a pattern               *)
(*   BuildFailureLinks  breadth-first over the trie; the link of a child is    *)
(*                      found by walking the parent's failure chain            *)
(*   find               the scan loop: goto / failure transitions, then the    *)
(*                      failure chain of the state is searched for pattern     *)
(*                      ends                                                   *)
(* A node is identified with its path (a sequence of symbols).  One action =   *)
(* one iteration of the breadth-first loop (a node popped, all its children    *)
(* linked and pushed).  TLC checks, for every pattern set of the bounded       *)
(* grammar, that at the end every link is the LONGEST PROPER SUFFIX of the     *)
(* node that is itself a node (the declarative definition), that the queue     *)
(* discipline processes parents before children, and that the scan built on    *)
(* these links reports exactly the occurrences (refinement of Occ in           *)
(* MultiMatch.tla).  At the end it prints the link table: the real trie,       *)
(* built under every build schedule, must carry exactly these links.           *)
EXTENDS Integers, Sequences, FiniteSets, TLC, Json
CONSTANTS Alphabet, MaxPatLen, MaxPats, MaxText
VARIABLES pats, fail, queue, done, pc
vars == <<pats, fail, queue, done, pc>>

RECURSIVE SeqsUpTo(_, _)
SeqsUpTo(A, n) == IF n = 0 THEN {<<>>}
                  ELSE LET S == SeqsUpTo(A, n - 1) IN S \cup {Append(s, a) : s \in {y \in S : Len(y) = n - 1}, a \in A}
Prefixes(p) == {SubSeq(p, 1, k) : k \in 0..Len(p)}
Nodes == UNION {Prefixes(p) : p \in pats}
Root == <<>>
Children(n) == {m \in Nodes : Len(m) = Len(n) + 1 /\ SubSeq(m, 1, Len(n)) = n}
IsSuffix(s, n) == Len(s) <= Len(n) /\ SubSeq(n, Len(n) - Len(s) + 1, Len(n)) = s
\* declarative: the longest proper suffix of n that is a node
LinkDef(n) == CHOOSE s \in Nodes : /\ Len(s) < Len(n) /\ IsSuffix(s, n)
                                  /\ \A t \in Nodes : (Len(t) < Len(n) /\ IsSuffix(t, n)) => Len(t) <= Len(s)
SX == INSTANCE SequencesExt
Sorted(S) == SX!SetToSortSeq(S, LAMBDA a, b : Len(a) < Len(b) \/ (Len(a) = Len(b) /\ a # b /\ (CHOOSE k \in 1..Len(a) : a[k] # b[k] /\ \A j \in 1..k - 1 : a[j] = b[j]) \in {k \in 1..Len(a) : a[k] < b[k]}))

\* the code's walk: from the parent's link along the chain until a node with a child on symbol c is found
RECURSIVE Walk(_, _, _)
Walk(f, node, c) == \* node: current failNode or "nil" (modelled as <<-1>>)
    IF node = <<-1>> THEN Root
    ELSE IF Append(node, c) \in Nodes THEN Append(node, c)
    ELSE Walk(f, IF node = Root THEN <<-1>> ELSE f[node], c)

\* (pattern sets of up to three patterns, written out: filtering SUBSET of 39 strings would enumerate 2^39 sets)
Pool == SeqsUpTo(Alphabet, MaxPatLen) \ {<<>>}
PatSets == {{a} : a \in Pool} \cup (IF MaxPats >= 2 THEN {{a, b} : a \in Pool, b \in Pool} ELSE {})
           \cup (IF MaxPats >= 3 THEN {{a, b, c} : a \in Pool, b \in Pool, c \in Pool} ELSE {})
Init == /\ pats \in PatSets
        /\ fail = [n \in Children(Root) |-> Root]
        /\ queue = Sorted(Children(Root))
        /\ done = {} /\ pc = "bfs"
\* one iteration: pop curr; every child gets its link from curr's chain and is pushed
Step == /\ pc = "bfs" /\ queue # <<>>
        /\ LET curr == Head(queue)  kids == Sorted(Children(curr)) IN
           /\ fail' = [n \in DOMAIN fail \cup Children(curr) |->
                          IF n \in Children(curr) THEN Walk(fail, fail[curr], n[Len(n)]) ELSE fail[n]]
           /\ queue' = Tail(queue) \o kids
           /\ done' = done \cup {curr}
        /\ UNCHANGED <<pats, pc>>
Finish == pc = "bfs" /\ queue = <<>> /\ pc' = "built" /\ UNCHANGED <<pats, fail, queue, done>>
Next == Step \/ Finish
Spec == Init /\ [][Next]_vars /\ WF_vars(Next)

\* ---- the scan built on goto + fail (Match / find of the code), as a function of the text
IsEnd(n) == n \in pats
RECURSIVE Goto(_, _)
Goto(n, c) == IF Append(n, c) \in Nodes THEN Append(n, c) ELSE IF n = Root THEN Root ELSE Goto(fail[n], c)
RECURSIVE ChainEnds(_)
ChainEnds(n) == IF n = Root THEN {} ELSE (IF IsEnd(n) THEN {n} ELSE {}) \cup ChainEnds(fail[n])
RECURSIVE Scan(_, _, _)
Scan(t, i, n) == IF i > Len(t) THEN {}
                 ELSE LET m == Goto(n, t[i]) IN {<<p, i - Len(p)>> : p \in ChainEnds(m)} \cup Scan(t, i + 1, m)
Occ(t) == {<<p, o>> \in pats \X (0..Len(t)) : o + Len(p) <= Len(t) /\ SubSeq(t, o + 1, o + Len(p)) = p}

\* ---- checked by TLC
\* parents are linked before they are popped; the queue holds each node at most once
BfsOrder == /\ \A k \in 1..Len(queue) : queue[k] \in DOMAIN fail
            /\ \A j, k \in 1..Len(queue) : j # k => queue[j] # queue[k]
            /\ \A k \in 1..Len(queue) - 1 : Len(queue[k]) <= Len(queue[k + 1])
\* links computed so far are already final and right
LinksRight == \A n \in DOMAIN fail : fail[n] = LinkDef(n)
Complete == pc = "built" => /\ DOMAIN fail = Nodes \ {Root}
                            /\ \A t \in SeqsUpTo(Alphabet, MaxText) : Scan(t, 1, Root) = Occ(t)
Terminates == <>(pc = "built")
EmitBuilt == pc = "built" =>
    PrintT(ToJson([fn |-> "links", s |-> Sorted(pats), a |-> <<>>,
                   out |-> [k \in 1..Cardinality(Nodes \ {Root}) |-> <<Sorted(Nodes \ {Root})[k], fail[Sorted(Nodes \ {Root})[k]]>>]]))
=============================================================================
