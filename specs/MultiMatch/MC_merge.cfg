SPECIFICATION Spec
CONSTANTS
  N = 6
  MaxIv = 4
  StepBack = TRUE
INVARIANTS Increasing UnionKept PrefixOK
PROPERTY Terminates
CHECK_DEADLOCK FALSE
