SPECIFICATION Spec
CONSTANTS
  Mode = "bytes"
  MaxText = 4
  MaxSet = 2
