SPECIFICATION Spec
CONSTANTS
  Alphabet = {1, 2, 3}
  MaxPatLen = 3
  MaxPats = 3
  MaxText = 5
INVARIANTS BfsOrder LinksRight Complete EmitBuilt
PROPERTY Terminates
CHECK_DEADLOCK FALSE
