SPECIFICATION TSpec
CONSTANTS
  H = 4
  Vals = {1, 2}
POSTCONDITION Accepted
CHECK_DEADLOCK FALSE
