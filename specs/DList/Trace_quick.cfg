SPECIFICATION TSpec
CONSTANTS
  H = 3
  Vals = {1, 2}
POSTCONDITION Accepted
CHECK_DEADLOCK FALSE
