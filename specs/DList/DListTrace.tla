----------------------------- MODULE DListTrace -----------------------------
(* Trace validation of listz.DList runs against DList.tla.                   *)
EXTENDS DList
VARIABLE l
Trace == ndJsonDeserialize("trace.ndjson")
Ev == Trace[l]
A(i) == Ev.a[i]

Step(Act) == /\ l' = l + 1 /\ Act /\ last'.r = Ev.r /\ ("o" \in DOMAIN Ev => O' = Ev.o)

TReset == /\ Ev.ev = "Reset" /\ l' = l + 1
          /\ a' = <<>> /\ b' = <<>> /\ where' = [h \in Handles |-> "free"] /\ val' = [h \in Handles |-> 0]
          /\ last' = R("Init", <<>>, <<>>)
TDrain == /\ Ev.ev = "Drain" /\ l' = l + 1 /\ Ev.d = a /\ UNCHANGED <<a, b, where, val, last>>

TStep == \/ TReset
         \/ TDrain
         \/ Ev.ev = "PushFront" /\ Step(PushFront(A(1)))
         \/ Ev.ev = "PushBack" /\ Step(PushBack(A(1)))
         \/ Ev.ev = "PushBackB" /\ Step(PushBackB(A(1)))
         \/ Ev.ev = "InsertBefore" /\ Step(InsertBefore(A(1), A(2)))
         \/ Ev.ev = "InsertAfter" /\ Step(InsertAfter(A(1), A(2)))
         \/ Ev.ev = "Remove" /\ Step(Remove(A(1)))
         \/ Ev.ev = "MoveToFront" /\ Step(MoveToFront(A(1)))
         \/ Ev.ev = "MoveToBack" /\ Step(MoveToBack(A(1)))
         \/ Ev.ev = "MoveBefore" /\ Step(MoveBefore(A(1), A(2)))
         \/ Ev.ev = "MoveAfter" /\ Step(MoveAfter(A(1), A(2)))
         \/ Ev.ev = "PushFrontNode" /\ Step(PushFrontNode(A(1)))
         \/ Ev.ev = "PushBackNode" /\ Step(PushBackNode(A(1)))
         \/ Ev.ev = "InsertNodeBefore" /\ Step(InsertNodeBefore(A(1), A(2)))
         \/ Ev.ev = "InsertNodeAfter" /\ Step(InsertNodeAfter(A(1), A(2)))
         \/ Ev.ev = "PushBackDList" /\ Step(PushBackDList(A(1)))
         \/ Ev.ev = "PushFrontDList" /\ Step(PushFrontDList(A(1)))
TNext == l <= Len(Trace) /\ TStep
TInit == l = 1 /\ Init
TSpec == TInit /\ [][TNext]_<<vars, l>>
Accepted == TLCGet("stats").diameter - 1 = Len(Trace)
=============================================================================
