SPECIFICATION Spec
CONSTANTS
  H = 4
  Vals = {1, 2}
INVARIANTS NoDup WhereOK
VIEW View
CHECK_DEADLOCK FALSE
ACTION_CONSTRAINT Emit
