------------------------------- MODULE DList -------------------------------
(* Specification of listz.DList (property C13): two lists A (under test) and  *)
(* B (another list, the source of foreign handles) over a universe of node    *)
(* handles.  A handle is "free" (not created yet), in A, in B, or "out"       *)
(* (removed).  The rules are those of container/list: an operation given a    *)
(* mark / element that is not in the list is a no-op; handles stay valid      *)
(* across unrelated operations.  The representation of the real list          *)
(* (sentinel ring with prev/next) shows through the forward and backward      *)
(* traversals and Len, all of which are part of the observation.              *)
EXTENDS Integers, Sequences, FiniteSets, TLC, Json
CONSTANTS H,       \* number of handles
          Vals     \* values
VARIABLES a, b,    \* the two lists: sequences of handles
          where,   \* handle -> "free" | "A" | "B" | "out"
          val,     \* handle -> value
          last

Handles == 1..H
R(n, args, r) == [n |-> n, a |-> args, r |-> r]
Free == {h \in Handles : where[h] = "free"}
Known == Handles \ Free
NextFree == CHOOSE h \in Free : \A g \in Free : h <= g
NIL == 0

Init == /\ a = <<>> /\ b = <<>> /\ where = [h \in Handles |-> "free"] /\ val = [h \in Handles |-> 0]
        /\ last = R("Init", <<>>, <<>>)

Pos(s, h) == CHOOSE i \in 1..Len(s) : s[i] = h
Without(s, h) == SelectSeq(s, LAMBDA x : x # h)
InsertAt(s, i, h) == SubSeq(s, 1, i - 1) \o <<h>> \o SubSeq(s, i, Len(s))   \* h becomes element i

\* value-creating inserts into A
PushFront(v) == /\ Free # {} /\ LET h == NextFree IN
                   /\ a' = <<h>> \o a /\ where' = [where EXCEPT ![h] = "A"] /\ val' = [val EXCEPT ![h] = v]
                   /\ last' = R("PushFront", <<v>>, <<h>>)
                /\ UNCHANGED b
PushBack(v) == /\ Free # {} /\ LET h == NextFree IN
                  /\ a' = Append(a, h) /\ where' = [where EXCEPT ![h] = "A"] /\ val' = [val EXCEPT ![h] = v]
                  /\ last' = R("PushBack", <<v>>, <<h>>)
               /\ UNCHANGED b
\* a second list, only to obtain foreign handles
PushBackB(v) == /\ Free # {} /\ LET h == NextFree IN
                   /\ b' = Append(b, h) /\ where' = [where EXCEPT ![h] = "B"] /\ val' = [val EXCEPT ![h] = v]
                   /\ last' = R("PushBackB", <<v>>, <<h>>)
                /\ UNCHANGED a
InsertRel(name, v, m, off) ==      \* off = 0: before mark, 1: after mark
    /\ Free # {} /\ m \in Known
    /\ IF where[m] = "A"
       THEN LET h == NextFree IN
            /\ a' = InsertAt(a, Pos(a, m) + off, h)
            /\ where' = [where EXCEPT ![h] = "A"] /\ val' = [val EXCEPT ![h] = v]
            /\ last' = R(name, <<v, m>>, <<h>>)
       ELSE /\ UNCHANGED <<a, where, val>> /\ last' = R(name, <<v, m>>, <<NIL>>)
    /\ UNCHANGED b
InsertBefore(v, m) == InsertRel("InsertBefore", v, m, 0)
InsertAfter(v, m) == InsertRel("InsertAfter", v, m, 1)

\* Remove(e) on A: removes exactly e if e is in A; always returns e's value
Remove(h) == /\ h \in Known
             /\ IF where[h] = "A" THEN a' = Without(a, h) /\ where' = [where EXCEPT ![h] = "out"]
                                  ELSE UNCHANGED <<a, where>>
             /\ last' = R("Remove", <<h>>, <<val[h]>>)
             /\ UNCHANGED <<b, val>>

MoveToFront(h) == /\ h \in Known
                  /\ a' = IF where[h] = "A" THEN <<h>> \o Without(a, h) ELSE a
                  /\ last' = R("MoveToFront", <<h>>, <<>>) /\ UNCHANGED <<b, where, val>>
MoveToBack(h) == /\ h \in Known
                 /\ a' = IF where[h] = "A" THEN Append(Without(a, h), h) ELSE a
                 /\ last' = R("MoveToBack", <<h>>, <<>>) /\ UNCHANGED <<b, where, val>>
MoveRel(name, h, m, off) ==
    /\ h \in Known /\ m \in Known
    /\ a' = IF where[h] = "A" /\ where[m] = "A" /\ h # m
            THEN LET w == Without(a, h) IN InsertAt(w, Pos(w, m) + off, h)
            ELSE a
    /\ last' = R(name, <<h, m>>, <<>>) /\ UNCHANGED <<b, where, val>>
MoveBefore(h, m) == MoveRel("MoveBefore", h, m, 0)
MoveAfter(h, m) == MoveRel("MoveAfter", h, m, 1)

\* node-inserting forms: e must be a node that is in no list (removed earlier)
PushFrontNode(e) == /\ e \in Known /\ where[e] = "out"
                    /\ a' = <<e>> \o a /\ where' = [where EXCEPT ![e] = "A"]
                    /\ last' = R("PushFrontNode", <<e>>, <<>>) /\ UNCHANGED <<b, val>>
PushBackNode(e) == /\ e \in Known /\ where[e] = "out"
                   /\ a' = Append(a, e) /\ where' = [where EXCEPT ![e] = "A"]
                   /\ last' = R("PushBackNode", <<e>>, <<>>) /\ UNCHANGED <<b, val>>
InsertNodeRel(name, e, m, off) ==
    /\ e \in Known /\ where[e] = "out" /\ m \in Known /\ m # e
    /\ IF where[m] = "A" THEN a' = InsertAt(a, Pos(a, m) + off, e) /\ where' = [where EXCEPT ![e] = "A"]
                         ELSE UNCHANGED <<a, where>>
    /\ last' = R(name, <<e, m>>, <<>>) /\ UNCHANGED <<b, val>>
InsertNodeBefore(e, m) == InsertNodeRel("InsertNodeBefore", e, m, 0)
InsertNodeAfter(e, m) == InsertNodeRel("InsertNodeAfter", e, m, 1)

\* copies of a whole list (which: "A" = the list itself, "B" = the other one); the new handles are
\* numbered in front-to-back order of their final positions
RECURSIVE TakeFree(_, _)
TakeFree(S, n) == IF n = 0 THEN <<>> ELSE LET h == CHOOSE x \in S : \A y \in S : x <= y IN <<h>> \o TakeFree(S \ {h}, n - 1)
CopyList(name, which, front) ==
    LET src == IF which = "A" THEN a ELSE b  n == Len(src) IN
    /\ Cardinality(Free) >= n
    /\ LET hs == TakeFree(Free, n) IN
       /\ a' = IF front THEN hs \o a ELSE a \o hs
       /\ where' = [h \in Handles |-> IF \E i \in 1..n : hs[i] = h THEN "A" ELSE where[h]]
       /\ val' = [h \in Handles |-> IF \E i \in 1..n : hs[i] = h THEN val[src[CHOOSE i \in 1..n : hs[i] = h]] ELSE val[h]]
    /\ last' = R(name, <<which>>, <<>>) /\ UNCHANGED b
PushBackDList(which) == CopyList("PushBackDList", which, FALSE)
PushFrontDList(which) == CopyList("PushFrontDList", which, TRUE)

Next == \/ \E v \in Vals : PushFront(v) \/ PushBack(v) \/ PushBackB(v)
        \/ \E v \in Vals, m \in Handles : InsertBefore(v, m) \/ InsertAfter(v, m)
        \/ \E h \in Handles : Remove(h) \/ MoveToFront(h) \/ MoveToBack(h) \/ PushFrontNode(h) \/ PushBackNode(h)
        \/ \E h \in Handles, m \in Handles : MoveBefore(h, m) \/ MoveAfter(h, m) \/ InsertNodeBefore(h, m) \/ InsertNodeAfter(h, m)
        \/ \E w \in {"A", "B"} : PushBackDList(w) \/ PushFrontDList(w)
vars == <<a, b, where, val, last>>
Spec == Init /\ [][Next]_vars

\* invariants of the specification itself
NoDup == \A i, j \in 1..Len(a) : i # j => a[i] # a[j]
WhereOK == \A h \in Handles : (where[h] = "A" <=> \E i \in 1..Len(a) : a[i] = h) /\ (where[h] = "B" <=> \E i \in 1..Len(b) : b[i] = h)

\* observation: everything is visible through the public API (the harness maps node pointers to handles)
Rev(s) == [i \in 1..Len(s) |-> s[Len(s) + 1 - i]]
O == [len |-> Len(a), fwd |-> a, bwd |-> Rev(a), vals |-> [i \in 1..Len(a) |-> val[a[i]]],
      all |-> [i \in 1..Len(a) |-> val[a[i]]],      \* All(): the iterator value was obtained when the list was created and is ranged now
      other |-> b, out |-> [h \in Handles |-> IF where[h] \in {"free", "out"} THEN 1 ELSE 0],
      std |-> [i \in 1..Len(a) |-> val[a[i]]]]
View == <<a, b, where, val>>
St == [s |-> O, k |-> <<a, b, where, val>>, o |-> O, d |-> a]
InitPred == \A h \in Handles : where[h] = "free"
Emit == PrintT(ToJson([i |-> InitPred, f |-> St, op |-> last', t |-> St']))
=============================================================================
